//! Direct rig (R2): the public Rust API the properties name as their observation point is run
//! under dense boundary sweeps; exact-rational oracles decide.  Same CLI and result JSON as rig1.
#![allow(dead_code, unused_imports, unused_variables)]
mod c09;
mod c15;
mod c18;
mod c20;

use serde_json::json;
use std::time::{Duration, Instant};
pub use vcommon::{num, refm, report, state};

pub struct Args {
    pub prop: String,
    pub tier: String,
    pub seed: u64,
    pub shard: u64,
    pub nshards: u64,
    pub out: String,
    pub budget: Duration,
}
fn parse_args() -> Args {
    let a: Vec<String> = std::env::args().collect();
    let mut r = Args { prop: a.get(1).cloned().unwrap_or_default(), tier: "quick".into(), seed: 1, shard: 0, nshards: 1, out: "/dev/stderr".into(), budget: Duration::from_secs(30) };
    let mut i = 2;
    while i < a.len() {
        let v = a.get(i + 1).cloned().unwrap_or_default();
        match a[i].as_str() {
            "--tier" => r.tier = v,
            "--seed" => r.seed = v.parse().unwrap_or(1),
            "--shard" => r.shard = v.parse().unwrap_or(0),
            "--nshards" => r.nshards = v.parse().unwrap_or(1),
            "--out" => r.out = v,
            "--budget-s" => r.budget = Duration::from_secs(v.parse().unwrap_or(30)),
            _ => {}
        }
        i += 2;
    }
    r
}
pub fn subseed(a: &Args, salt: u64) -> u64 {
    report::h64(&(a.seed, a.prop.as_str(), a.shard, salt))
}

/// Clock for code that calls `Clock::get()` (Solend staleness) and silence for `msg!`.
pub struct Stubs;
pub static NOW_SLOT: std::sync::atomic::AtomicU64 = std::sync::atomic::AtomicU64::new(0);
pub static NOW_TS: std::sync::atomic::AtomicI64 = std::sync::atomic::AtomicI64::new(0);
impl solana_sdk::program_stubs::SyscallStubs for Stubs {
    fn sol_log(&self, _m: &str) {}
    fn sol_get_clock_sysvar(&self, var_addr: *mut u8) -> u64 {
        let c = solana_sdk::clock::Clock { slot: NOW_SLOT.load(std::sync::atomic::Ordering::Relaxed), unix_timestamp: NOW_TS.load(std::sync::atomic::Ordering::Relaxed), ..Default::default() };
        unsafe { *(var_addr as *mut solana_sdk::clock::Clock) = c };
        0
    }
}

fn main() {
    std::panic::set_hook(Box::new(|i| {
        let loc = i.location().map(|l| l.file().to_string()).unwrap_or_default();
        if std::env::var("VERIF_ALL_PANICS").is_ok() || loc.contains("/verif/") || loc.starts_with("rig") || loc.starts_with("vcommon") {
            eprintln!("HARNESS PANIC: {}", i);
        }
    }));
    solana_sdk::program_stubs::set_syscall_stubs(Box::new(Stubs));
    let a = parse_args();
    let t0 = Instant::now();
    let mut r = report::Report::new(&a.prop);
    match a.prop.as_str() {
        "C15" => c15::run(&a, &mut r),
        "C18" => c18::run(&a, &mut r),
        "C20" => c20::run(&a, &mut r),
        "C09" => c09::run(&a, &mut r),
        p => {
            eprintln!("unknown property {}", p);
            std::process::exit(3);
        }
    }
    let mut j = r.to_json();
    j["wall_s"] = json!(t0.elapsed().as_secs_f64());
    j["seed"] = json!(a.seed);
    j["shard"] = json!(a.shard);
    j["tier"] = json!(a.tier);
    std::fs::write(&a.out, serde_json::to_string(&j).unwrap()).expect("write result");
}
