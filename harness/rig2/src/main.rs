fn main(){}
