//! C15: the real `PanicState` transition functions are the successor relation. Shard 0 explores
//! the region graph (time deltas at the 30 min / 24 h boundaries +-1) breadth-first to a fixed
//! point or depth bound; the other shards run long random walks with arbitrary deltas. An online
//! trace checker judges every transition.
use crate::report::Report;
use crate::Args;
use marginfi::state::panic_state::PanicStateImpl;
use marginfi_type_crate::types::{PanicState, PanicStateCache};
use rand::{Rng, SeedableRng};
use serde_json::json;
use std::collections::{HashSet, VecDeque};
use std::time::Instant;

#[derive(Clone, Copy, PartialEq, Eq, Hash, Debug)]
struct Norm {
    flags: u8,
    daily: u8,
    consec: u8,
    start_rel: i64,
    reset_rel: i64,
    succ: u8,
}
const D30: i64 = 1800;
const D24: i64 = 86400;

fn until(p: &PanicState) -> i64 {
    if p.is_paused_flag() {
        p.pause_start_timestamp + D30
    } else {
        i64::MIN
    }
}
fn show(p: &PanicState) -> String {
    format!("flags={} daily={} consec={} start={} reset={}", p.pause_flags, p.daily_pause_count, p.consecutive_pause_count, p.pause_start_timestamp, p.last_daily_reset_timestamp)
}

/// One handler-level step; returns (new state, success, new succ-since-reset). Mirrors exactly what
/// the three instruction handlers do with the state (the chain rig validates the wiring).
fn step(r: &mut Report, s: &PanicState, succ: u8, t: i64, op: u8) -> Option<(PanicState, u8)> {
    r.eval();
    match op {
        0 => {
            let mut p = *s;
            let old_until = until(&p).max(t);
            p.unpause_if_expired(t);
            let old_reset = p.last_daily_reset_timestamp;
            let res = p.pause(t);
            if res.is_ok() {
                r.count("C15.pause_accepted");
                let nu = until(&p);
                let reset_changed = p.last_daily_reset_timestamp != old_reset;
                let succ2 = if reset_changed { 1 } else { succ.saturating_add(1) };
                if nu - old_until > D30 {
                    r.violate("C15", "C15/pause/pushed-forward-by-more-than-30-minutes", format!("{} at t={} -> {}", show(s), t, show(&p)));
                }
                if nu - t > 2 * D30 {
                    r.violate("C15", "C15/pause/scheduled-more-than-60-minutes-ahead", format!("{} at t={} -> {}", show(s), t, show(&p)));
                }
                if succ2 > 3 {
                    r.violate("C15", "C15/pause/more-than-three-pauses-between-daily-resets", format!("{} at t={} -> {}", show(s), t, show(&p)));
                }
                if reset_changed && p.last_daily_reset_timestamp - old_reset < D24 {
                    r.violate("C15", "C15/pause/daily-resets-less-than-24h-apart", format!("{} at t={} -> {}", show(s), t, show(&p)));
                }
                if !p.is_paused_flag() {
                    r.violate("C15", "C15/pause/accepted-but-flag-not-set", format!("{} at t={}", show(s), t));
                }
                r.max("C15.max_seconds_paused_ahead", (nu - t) as f64);
                Some((p, succ2))
            } else {
                r.count("C15.pause_rejected");
                None
            }
        }
        1 => {
            // admin unpause: requires the flag; never fails while it is set
            if !s.is_paused_flag() {
                return None;
            }
            let mut p = *s;
            p.unpause_if_expired(t);
            if p.is_paused_flag() {
                p.unpause();
            }
            r.count("C15.admin_unpause");
            if p.is_paused_flag() {
                r.violate("C15", "C15/unpause/flag-still-set-after-admin-unpause", format!("{} at t={}", show(s), t));
            }
            Some((p, succ))
        }
        _ => {
            // permissionless unpause: anyone, once the pause has run out
            if !s.is_paused_flag() {
                return None;
            }
            let ran_out = t - s.pause_start_timestamp >= D30;
            if ran_out != s.is_expired(t) && t >= s.pause_start_timestamp {
                r.violate("C15", "C15/expiry/expired-pause-still-reported-active-or-vice-versa", format!("{} at t={}", show(s), t));
            }
            if !s.is_expired(t) {
                return None;
            }
            let mut p = *s;
            p.unpause();
            r.count("C15.permissionless_unpause");
            if p.is_paused_flag() {
                r.violate("C15", "C15/unpause/flag-still-set-after-permissionless-unpause", format!("{}", show(s)));
            }
            Some((p, succ))
        }
    }
}

/// what a user instruction sees through a group cache refreshed at `t_prop`, evaluated at `t`
fn blocked_via_cache(s: &PanicState, t_prop: i64, t: i64) -> bool {
    let mut c = PanicStateCache::default();
    c.update_from_panic_state(s, t_prop);
    c.is_paused_flag() && !c.is_expired(t)
}

pub fn run(a: &Args, r: &mut Report) {
    let t0 = Instant::now();
    let dts: [i64; 12] = [0, 1, 1799, 1800, 1801, 3599, 3600, 3601, 86399, 86400, 86401, 90000];
    let clip = |x: i64| x.clamp(-200_000, 200_000);
    let base: i64 = 1_000_000_000;
    if a.shard == 0 {
        let maxdepth = if a.tier == "thorough" { 14 } else { 10 };
        let mut init = PanicState::default();
        init.last_daily_reset_timestamp = base - 200_000;
        let mut seen: HashSet<Norm> = HashSet::new();
        let mut q: VecDeque<(PanicState, i64, u8, u32)> = VecDeque::new();
        q.push_back((init, base, 0, 0));
        let mut transitions = 0u64;
        let mut deepest = 0;
        let mut frontier_cut = false;
        while let Some((s, now, succ, depth)) = q.pop_front() {
            let n = Norm { flags: s.pause_flags, daily: s.daily_pause_count, consec: s.consecutive_pause_count, start_rel: clip(s.pause_start_timestamp - now), reset_rel: clip(s.last_daily_reset_timestamp - now), succ };
            if !seen.insert(n) {
                continue;
            }
            r.distinct(&n);
            deepest = deepest.max(depth);
            if depth >= maxdepth {
                frontier_cut = true;
                continue;
            }
            for dt in dts {
                let t = now + dt;
                // liveness: a pause that has run out never blocks, whatever the cache age
                if s.is_paused_flag() && t - s.pause_start_timestamp >= D30 && blocked_via_cache(&s, now, t) {
                    r.violate("C15", "C15/expiry/expired-pause-still-blocking-users", format!("{} cache@{} now {}", show(&s), now, t));
                }
                for op in 0..3u8 {
                    transitions += 1;
                    match step(r, &s, succ, t, op) {
                        Some((p, succ2)) => q.push_back((p, t, succ2, depth + 1)),
                        None => {
                            if op == 0 {
                                q.push_back((s, t, succ, depth + 1));
                            }
                        }
                    }
                }
            }
        }
        r.add("C15.bfs_states", seen.len() as u64);
        r.add("C15.bfs_transitions", transitions);
        r.max("C15.bfs_depth", deepest as f64);
        r.note(&format!("BFS over dt alphabet {:?} x ops {{pause, admin-unpause, permissionless-unpause}}; depth bound {}; frontier cut by bound: {}", dts, maxdepth, frontier_cut));
        r.sample(json!({"kind": "bfs", "states": seen.len(), "transitions": transitions, "depth": deepest, "fixed_point_reached": !frontier_cut}));
    }
    // random walks with arbitrary deltas
    let mut rng = rand_chacha::ChaCha8Rng::seed_from_u64(crate::subseed(a, 15));
    let mut walks = 0u64;
    while t0.elapsed() < a.budget {
        let mut s = PanicState::default();
        let mut now = base + rng.gen_range(0..10_000_000);
        s.last_daily_reset_timestamp = now - rng.gen_range(0..200_000);
        let mut succ = 0u8;
        let mut trace = vec![];
        for _ in 0..200 {
            let dt: i64 = match rng.gen_range(0..8) {
                0 => 0,
                1 => rng.gen_range(0..10),
                2 => D30 + rng.gen_range(-3..=3),
                3 => 2 * D30 + rng.gen_range(-3..=3),
                4 => D24 + rng.gen_range(-3..=3),
                5 => rng.gen_range(0..D30),
                6 => rng.gen_range(0..D24),
                _ => rng.gen_range(0..3 * D24),
            };
            now += dt;
            let op = rng.gen_range(0..3u8);
            if s.is_paused_flag() && now - s.pause_start_timestamp >= D30 && blocked_via_cache(&s, now - rng.gen_range(0..=dt.max(1)), now) {
                r.violate("C15", "C15/expiry/expired-pause-still-blocking-users", format!("{} now {}", show(&s), now));
            }
            if let Some((p, s2)) = step(r, &s, succ, now, op) {
                if trace.len() < 12 {
                    let opn = ["pause", "admin_unpause", "permissionless_unpause"][op as usize];
                    trace.push(json!({"dt": dt, "op": opn, "state": show(&p)}));
                }
                r.distinct(&(p.pause_flags, p.daily_pause_count, p.consecutive_pause_count, (p.pause_start_timestamp - now).clamp(-4000, 4000) / 100, s2));
                s = p;
                succ = s2;
            }
        }
        walks += 1;
        if walks == 1 {
            r.sample(json!({"kind": "random-walk", "trace": trace}));
        }
    }
    r.add("C15.random_walks", walks);
}
