//! C20: venue exchange-rate math under boundary sweeps, exact rationals as oracle.
use crate::num::*;
use crate::report::Report;
use crate::Args;
use bytemuck::Zeroable;
use drift_mocks::state::MinimalSpotMarket;
use fixed::types::I80F48;
use kamino_mocks::state::MinimalReserve;
use marginfi_type_crate::types::price::*;
use num_bigint::BigInt;
use num_traits::{Signed, ToPrimitive, Zero};
use rand::{Rng, SeedableRng};
use serde_json::json;
use solend_mocks::state::SolendMinimalReserve;
use std::panic::{catch_unwind, AssertUnwindSafe};
use std::time::Instant;

type G = rand_chacha::ChaCha8Rng;

/// integers clustered at overflow cliffs
fn cliff_u64(r: &mut G) -> u64 {
    match r.gen_range(0..12) {
        0 => 0,
        1 => 1,
        2 => 2,
        3 => u64::MAX,
        4 => u64::MAX - 1,
        5 => (1u64 << 63) + r.gen_range(0..3) - 1,
        6 => 1u64 << r.gen_range(0..64),
        7 => (1u64 << r.gen_range(1..64)) - 1,
        8 => r.gen_range(0..1000),
        9 => 10u64.pow(r.gen_range(0..20)),
        _ => r.gen::<u64>() >> r.gen_range(0..64),
    }
}
fn cliff_i64(r: &mut G) -> i64 {
    match r.gen_range(0..6) {
        0 => i64::MAX,
        1 => i64::MIN,
        2 => -1,
        3 => -((cliff_u64(r) >> 1) as i64),
        _ => (cliff_u64(r) >> 1) as i64,
    }
}
fn cliff_i128(r: &mut G) -> i128 {
    match r.gen_range(0..10) {
        0 => i128::MAX,
        1 => i128::MIN,
        2 => (1i128 << 79) + r.gen_range(-2..=2),
        3 => (1i128 << 127 - 48) + r.gen_range(-2..=2),
        4 => -(cliff_u64(r) as i128),
        5 => (cliff_u64(r) as i128) << r.gen_range(0..60),
        6 => 10i128.pow(r.gen_range(0..38)),
        _ => cliff_u64(r) as i128,
    }
}
fn cliff_fx(r: &mut G) -> I80F48 {
    match r.gen_range(0..10) {
        0 => I80F48::ZERO,
        1 => I80F48::ONE,
        2 => I80F48::from_bits(1),
        3 => I80F48::MAX,
        4 => I80F48::from_bits(r.gen_range(0..(1i128 << 49))),
        5 => I80F48::from_bits((1i128 << 48) + r.gen_range(-1000..1000)),
        6 => I80F48::from_bits(1i128 << r.gen_range(0..127)),
        7 => I80F48::from_bits(-(r.gen_range(0..(1i128 << 60)))),
        _ => I80F48::from_bits((r.gen::<u128>() >> r.gen_range(1..128)) as i128),
    }
}
fn rfx(x: I80F48) -> Rat {
    bits_to_rat(x.to_bits())
}
fn fits_i(x: &Rat, bits: u32) -> bool {
    let lim = pow2(bits - 1);
    x.floor() >= -lim.clone() && x.floor() < lim
}
fn fits_u(x: &Rat, bits: u32) -> bool {
    !x.is_negative() && x.floor() < pow2(bits)
}

fn adjusts(r: &mut Report, g: &mut G) {
    let ratio = cliff_fx(g);
    let rr = rfx(ratio);
    // i64
    {
        let raw = cliff_i64(g);
        let exact = ri(raw as i128) * &rr;
        r.eval();
        match catch_unwind(|| adjust_i64(raw, ratio)) {
            Ok(Some(v)) => {
                r.count("C20.adjust_i64/some");
                let vr = ri(v as i128);
                if !fits_i(&exact, 64) || vr > exact || &exact - &vr >= one() + ulp() {
                    r.violate("C20", "C20/adjust_i64/wrapped-or-overstated", format!("raw {} ratio {} -> {} exact {}", raw, ratio, v, show(&exact)));
                }
                // monotone in raw and in ratio
                if raw < i64::MAX && !ratio.is_negative() {
                    if let Ok(Some(v2)) = catch_unwind(|| adjust_i64(raw + 1, ratio)) {
                        if v2 < v {
                            r.violate("C20", "C20/adjust_i64/not-monotone-in-price", format!("raw {} ratio {}", raw, ratio));
                        }
                        r.count("C20.monotonicity_pairs");
                    }
                }
                if ratio < I80F48::MAX && raw >= 0 {
                    if let Ok(Some(v2)) = catch_unwind(|| adjust_i64(raw, I80F48::from_bits(ratio.to_bits() + 1))) {
                        if v2 < v {
                            r.violate("C20", "C20/adjust_i64/not-monotone-in-rate", format!("raw {} ratio {}", raw, ratio));
                        }
                        r.count("C20.monotonicity_pairs");
                    }
                }
            }
            Ok(None) => r.count("C20.adjust_i64/none"),
            Err(_) => r.count("C20.adjust_i64/panic_fail_closed"),
        }
    }
    {
        let raw = cliff_u64(g);
        let exact = ru(raw as u128) * &rr;
        r.eval();
        match catch_unwind(|| adjust_u64(raw, ratio)) {
            Ok(Some(v)) => {
                r.count("C20.adjust_u64/some");
                let vr = ru(v as u128);
                if !fits_u(&exact, 64) || vr > exact || &exact - &vr >= one() + ulp() {
                    r.violate("C20", "C20/adjust_u64/wrapped-or-overstated", format!("raw {} ratio {} -> {} exact {}", raw, ratio, v, show(&exact)));
                }
            }
            Ok(None) => r.count("C20.adjust_u64/none"),
            Err(_) => r.count("C20.adjust_u64/panic_fail_closed"),
        }
    }
    {
        let raw = cliff_i128(g);
        let exact = ri(raw) * &rr;
        r.eval();
        match catch_unwind(|| adjust_i128(raw, ratio)) {
            Ok(Some(v)) => {
                r.count("C20.adjust_i128/some");
                let vr = ri(v);
                if !fits_i(&exact, 128) || vr > exact || &exact - &vr >= one() + ulp() {
                    r.violate("C20", "C20/adjust_i128/wrapped-or-overstated", format!("raw {} ratio {} -> {} exact {}", raw, ratio, v, show(&exact)));
                }
            }
            Ok(None) => r.count("C20.adjust_i128/none"),
            Err(_) => r.count("C20.adjust_i128/panic_fail_closed"),
        }
    }
}

fn scaled(r: &mut Report, g: &mut G) {
    let liq = cliff_fx(g).abs();
    let col = cliff_fx(g).abs();
    let amt = cliff_u64(g);
    let (lr, cr) = (rfx(liq), rfx(col));
    r.eval();
    match catch_unwind(|| collateral_to_liquidity_from_scaled(amt, liq, col)) {
        Ok(Some(v)) => {
            r.count("C20.c2l_scaled/some");
            if cr.is_zero() {
                r.violate("C20", "C20/collateral_to_liquidity_from_scaled/value-with-zero-divisor", format!("amt {} liq {} col {}", amt, liq, col));
            } else {
                let exact = ru(amt as u128) * &lr / &cr;
                if !fits_u(&exact, 64) || ru(v as u128) > exact {
                    r.violate("C20", "C20/collateral_to_liquidity_from_scaled/wrapped-or-overstated", format!("amt {} liq {} col {} -> {} exact {}", amt, liq, col, v, show(&exact)));
                }
            }
        }
        Ok(None) => r.count("C20.c2l_scaled/none"),
        Err(_) => r.count("C20.c2l_scaled/panic_fail_closed"),
    }
    r.eval();
    match catch_unwind(|| liquidity_to_collateral_from_scaled(amt, liq, col)) {
        Ok(Some(c)) => {
            r.count("C20.l2c_scaled/some");
            if lr.is_zero() {
                r.violate("C20", "C20/liquidity_to_collateral_from_scaled/value-with-zero-divisor", format!("amt {} liq {} col {}", amt, liq, col));
            } else {
                let exact = ru(amt as u128) * &cr / &lr;
                if !fits_u(&exact, 64) || ru(c as u128) > exact {
                    r.violate("C20", "C20/liquidity_to_collateral_from_scaled/wrapped-or-overstated", format!("amt {} liq {} col {} -> {} exact {}", amt, liq, col, c, show(&exact)));
                }
                // round trip: deposit `amt` liquidity, withdraw all collateral received
                if let Ok(Some(back)) = catch_unwind(|| collateral_to_liquidity_from_scaled(c, liq, col)) {
                    r.count("C20.round_trips");
                    if back > amt {
                        r.violate("C20", "C20/scaled/round-trip-yields-more", format!("deposit {} -> collateral {} -> withdraw {} (liq {} col {})", amt, c, back, liq, col));
                    }
                }
            }
        }
        Ok(None) => r.count("C20.l2c_scaled/none"),
        Err(_) => r.count("C20.l2c_scaled/panic_fail_closed"),
    }
    // scale_supplies / convert_decimals
    let dec = g.gen_range(0..=30u8);
    let raw_col = cliff_u64(g);
    r.eval();
    match catch_unwind(|| scale_supplies(liq, raw_col, dec)) {
        Ok(Some((l2, c2))) => {
            r.count("C20.scale_supplies/some");
            if dec >= 24 {
                r.violate("C20", "C20/scale_supplies/value-for-unsupported-decimals", format!("dec {}", dec));
            } else {
                let sc = pow10(dec as u32);
                if abs(&(rfx(l2) - &lr / &sc)) > ulp() || abs(&(rfx(c2) - ru(raw_col as u128) / &sc)) > ulp() {
                    r.violate("C20", "C20/scale_supplies/inexact", format!("liq {} col {} dec {}", liq, raw_col, dec));
                }
            }
        }
        Ok(None) => r.count("C20.scale_supplies/none"),
        Err(_) => r.count("C20.scale_supplies/panic_fail_closed"),
    }
    let (fd, td) = (g.gen_range(0..=30u8), g.gen_range(0..=30u8));
    let n = cliff_fx(g);
    r.eval();
    match catch_unwind(|| convert_decimals(n, fd, td)) {
        Ok(Some(o)) => {
            r.count("C20.convert_decimals/some");
            let diff = td as i32 - fd as i32;
            let exact = if diff >= 0 { rfx(n) * pow10(diff as u32) } else { rfx(n) / pow10((-diff) as u32) };
            if abs(&(rfx(o) - &exact)) > ulp() {
                r.violate("C20", "C20/convert_decimals/wrapped-or-inexact", format!("n {} {}->{} = {} exact {}", n, fd, td, o, show(&exact)));
            }
        }
        Ok(None) => r.count("C20.convert_decimals/none"),
        Err(_) => r.count("C20.convert_decimals/panic_fail_closed"),
    }
}

/// Upward slack derived from the truncation of the scaled supplies to the 2^-48 grid: both
/// supplies are divided by 10^decimals before use, so each carries a relative error of
/// ulp/scaled_value; None when a scaled supply is too close to the grid to say anything.
fn trunc_slack(exact: &Rat, liq: &Rat, col: &Rat, decimals: u64) -> Option<Rat> {
    if decimals >= 24 {
        return None;
    }
    let sc = pow10(decimals as u32);
    let (ls, cs) = (abs(liq) / &sc, abs(col) / &sc);
    if ls < pow2(8) * ulp() || cs < pow2(8) * ulp() {
        return None;
    }
    Some(abs(exact) * (ulp() / &ls + ulp() / &cs) * ri(4) + ri(2))
}

fn sf60(x: u128) -> [u8; 16] {
    x.to_le_bytes()
}

fn kamino(r: &mut Report, g: &mut G) {
    let mut res = MinimalReserve::zeroed();
    res.available_amount = cliff_u64(g);
    let borrowed: u128 = (cliff_u64(g) as u128) << g.gen_range(0..64);
    let fees: u128 = if g.gen_bool(0.7) { 0 } else { (cliff_u64(g) as u128) << g.gen_range(0..40) };
    // the three fee buckets that are not depositors' money (protocol, referrer, pending referrer)
    let fee_part = |g: &mut G| -> u128 { if g.gen_bool(0.6) { 0 } else { (cliff_u64(g) as u128) << g.gen_range(0..40) } };
    let (f_ref, f_pend) = (fee_part(g), fee_part(g));
    res.borrowed_amount_sf = sf60(borrowed);
    res.accumulated_protocol_fees_sf = sf60(fees);
    res.accumulated_referrer_fees_sf = sf60(f_ref);
    res.pending_referrer_fees_sf = sf60(f_pend);
    let fees = fees.saturating_add(f_ref).saturating_add(f_pend);
    res.mint_total_supply = cliff_u64(g);
    res.mint_decimals = [0u64, 6, 6, 9, 9, 12, 19, 23, 24, 255][g.gen_range(0..10)];
    res.slot = cliff_u64(g);
    let cur = match g.gen_range(0..4) {
        0 => res.slot,
        1 => res.slot.wrapping_add(1),
        2 => res.slot.wrapping_sub(1),
        _ => cliff_u64(g),
    };
    r.eval();
    let stale = res.is_stale(cur);
    r.count(if stale { "C20.kamino_stale" } else { "C20.kamino_fresh" });
    if res.slot < cur && !stale {
        r.violate("C20", "C20/kamino/old-reserve-reported-fresh", format!("reserve slot {} current {}", res.slot, cur));
    }
    let total_liq = ru(res.available_amount as u128) + Rat::new(BigInt::from(borrowed), BigInt::from(1u128 << 60)) - Rat::new(BigInt::from(fees), BigInt::from(1u128 << 60));
    let total_col = ru(res.mint_total_supply as u128);
    let amt = cliff_u64(g);
    r.eval();
    let l2c = catch_unwind(AssertUnwindSafe(|| res.liquidity_to_collateral(amt)));
    match &l2c {
        Ok(Ok(c)) => {
            r.count("C20.kamino_l2c/ok");
            // the program sees each 60-bit fraction truncated to its 48-bit grid (four inputs): a
            // supply that is zero or negative only inside that band is not decidable for it
            let band = ulp() * ri(5);
            let trunc_free = [borrowed, u128::from_le_bytes(res.accumulated_protocol_fees_sf), f_ref, f_pend].iter().all(|x| x % 4096 == 0);
            if (total_liq.is_zero() && trunc_free) || (total_liq < -band.clone() && *c > 0) {
                r.violate("C20", "C20/kamino/liquidity_to_collateral-value-with-nonpositive-supply", format!("amt {} liq {} -> {} (avail {} borrowed_sf {} protocol_fees_sf {} referrer_fees_sf {} pending_referrer_fees_sf {} supply {} dec {})", amt, show(&total_liq), c, res.available_amount, borrowed, u128::from_le_bytes(res.accumulated_protocol_fees_sf), f_ref, f_pend, res.mint_total_supply, res.mint_decimals));
            } else if total_liq.is_positive() {
                let exact = ru(amt as u128) * &total_col / &total_liq;
                let slack = match trunc_slack(&exact, &total_liq, &total_col, res.mint_decimals) { Some(s) => s, None => { r.count("C20.degenerate_precision_not_compared"); exact.clone() + pow2(70) } };
                if ru(*c as u128) > &exact + &slack {
                    r.violate("C20", "C20/kamino/liquidity_to_collateral-overstated", format!("amt {} -> {} exact {}", amt, c, show(&exact)));
                }
                if let Ok(Ok(back)) = catch_unwind(AssertUnwindSafe(|| res.collateral_to_liquidity(*c))) {
                    r.count("C20.round_trips");
                    if back > amt {
                        r.violate("C20", "C20/kamino/round-trip-yields-more", format!("deposit {} -> {} -> {} (avail {} borrowed_sf {} supply {} dec {})", amt, c, back, res.available_amount, borrowed, res.mint_total_supply, res.mint_decimals));
                    }
                }
            }
        }
        Ok(Err(_)) => r.count("C20.kamino_l2c/err"),
        Err(_) => r.count("C20.kamino_l2c/panic_fail_closed"),
    }
    r.eval();
    match catch_unwind(AssertUnwindSafe(|| res.collateral_to_liquidity(amt))) {
        Ok(Ok(l)) => {
            r.count("C20.kamino_c2l/ok");
            if total_col.is_zero() {
                r.violate("C20", "C20/kamino/collateral_to_liquidity-value-with-zero-supply", format!("amt {}", amt));
            } else {
                let exact = ru(amt as u128) * &total_liq / &total_col;
                let slack = match trunc_slack(&exact, &total_liq, &total_col, res.mint_decimals) { Some(s) => s, None => { r.count("C20.degenerate_precision_not_compared"); abs(&exact) + pow2(70) } };
                if ru(l as u128) > &exact + &slack {
                    r.violate("C20", "C20/kamino/collateral_to_liquidity-overstated", format!("amt {} -> {} exact {}", amt, l, show(&exact)));
                }
            }
        }
        Ok(Err(_)) => r.count("C20.kamino_c2l/err"),
        Err(_) => r.count("C20.kamino_c2l/panic_fail_closed"),
    }
    r.distinct(&("kamino", res.mint_decimals, res.available_amount.leading_zeros() / 8, res.mint_total_supply.leading_zeros() / 8, borrowed.leading_zeros() / 16));
}

fn solend(r: &mut Report, g: &mut G) {
    let mut res = SolendMinimalReserve::zeroed();
    res.liquidity_available_amount = cliff_u64(g);
    let wad: u128 = 1_000_000_000_000_000_000;
    let borrowed: u128 = match g.gen_range(0..5) {
        0 => 0,
        1 => u128::MAX,
        2 => (cliff_u64(g) as u128).saturating_mul(wad),
        _ => (cliff_u64(g) as u128) << g.gen_range(0..64),
    };
    let fees: u128 = if g.gen_bool(0.7) { 0 } else { (cliff_u64(g) as u128) << g.gen_range(0..30) };
    res.liquidity_borrowed_amount_wads = borrowed.to_le_bytes();
    res.liquidity_accumulated_protocol_fees_wads = fees.to_le_bytes();
    res.collateral_mint_total_supply = cliff_u64(g);
    res.liquidity_mint_decimals = [0u8, 6, 9, 9, 12, 19, 23, 24, 200][g.gen_range(0..9)];
    res.last_update_slot = cliff_u64(g);
    let cur = match g.gen_range(0..4) {
        0 => res.last_update_slot,
        1 => res.last_update_slot.wrapping_add(1),
        2 => res.last_update_slot.wrapping_sub(1),
        _ => cliff_u64(g),
    };
    crate::NOW_SLOT.store(cur, std::sync::atomic::Ordering::Relaxed);
    r.eval();
    let slot = res.last_update_slot;
    if let Ok(Ok(stale)) = catch_unwind(AssertUnwindSafe(|| res.is_stale())) {
        r.count(if stale { "C20.solend_stale" } else { "C20.solend_fresh" });
        if slot < cur && !stale {
            r.violate("C20", "C20/solend/old-reserve-reported-fresh", format!("reserve slot {} current {}", slot, cur));
        }
    }
    let total_liq = ru(res.liquidity_available_amount as u128) + Rat::new(BigInt::from(borrowed), BigInt::from(wad)) - Rat::new(BigInt::from(fees), BigInt::from(wad));
    let total_col = ru(res.collateral_mint_total_supply as u128);
    let amt = cliff_u64(g);
    r.eval();
    match catch_unwind(AssertUnwindSafe(|| res.liquidity_to_collateral(amt))) {
        Ok(Ok(c)) => {
            r.count("C20.solend_l2c/ok");
            // WAD fractions reach the program truncated to the 2^-48 grid (two inputs)
            let band = ulp() * ri(3);
            let trunc_free = borrowed % wad == 0 && fees % wad == 0;
            if (total_liq.is_zero() && trunc_free) || (total_liq < -band.clone() && c > 0) {
                r.violate("C20", "C20/solend/liquidity_to_collateral-value-with-nonpositive-supply", format!("amt {} liq {} -> {}", amt, show(&total_liq), c));
            } else if total_liq.is_positive() {
                let exact = ru(amt as u128) * &total_col / &total_liq;
                let slack = match trunc_slack(&exact, &total_liq, &total_col, res.liquidity_mint_decimals as u64) { Some(s) => s, None => { r.count("C20.degenerate_precision_not_compared"); exact.clone() + pow2(70) } };
                if ru(c as u128) > &exact + &slack {
                    r.violate("C20", "C20/solend/liquidity_to_collateral-overstated", format!("amt {} -> {} exact {}", amt, c, show(&exact)));
                }
                if let Ok(Ok(back)) = catch_unwind(AssertUnwindSafe(|| res.collateral_to_liquidity(c))) {
                    r.count("C20.round_trips");
                    if back > amt {
                        r.violate("C20", "C20/solend/round-trip-yields-more", format!("deposit {} -> {} -> {}", amt, c, back));
                    }
                }
            }
        }
        Ok(Err(_)) => r.count("C20.solend_l2c/err"),
        Err(_) => r.count("C20.solend_l2c/panic_fail_closed"),
    }
    r.eval();
    match catch_unwind(AssertUnwindSafe(|| res.collateral_to_liquidity(amt))) {
        Ok(Ok(l)) => {
            r.count("C20.solend_c2l/ok");
            if total_col.is_zero() {
                r.violate("C20", "C20/solend/collateral_to_liquidity-value-with-zero-supply", format!("amt {}", amt));
            } else {
                let exact = ru(amt as u128) * &total_liq / &total_col;
                let slack = match trunc_slack(&exact, &total_liq, &total_col, res.liquidity_mint_decimals as u64) { Some(s) => s, None => { r.count("C20.degenerate_precision_not_compared"); abs(&exact) + pow2(70) } };
                if ru(l as u128) > &exact + &slack {
                    r.violate("C20", "C20/solend/collateral_to_liquidity-overstated", format!("amt {} -> {} exact {}", amt, l, show(&exact)));
                }
            }
        }
        Ok(Err(_)) => r.count("C20.solend_c2l/err"),
        Err(_) => r.count("C20.solend_c2l/panic_fail_closed"),
    }
    let dec = res.liquidity_mint_decimals;
    r.distinct(&("solend", dec, amt.leading_zeros() / 8, borrowed.leading_zeros() / 16));
}

fn drift(r: &mut Report, g: &mut G) {
    let mut m = MinimalSpotMarket::zeroed();
    let cum: u128 = match g.gen_range(0..8) {
        0 => 0,
        1 => 1,
        2 => 10_000_000_000,
        3 => 10_000_000_000 + g.gen_range(0..1_000_000_000u128),
        4 => u128::MAX,
        5 => (cliff_u64(g) as u128) << g.gen_range(0..64),
        _ => 10_000_000_000u128 * g.gen_range(1..1000) + g.gen_range(0..10_000_000_000u128),
    };
    m.cumulative_deposit_interest = cum.to_le_bytes();
    m.decimals = [0u32, 6, 6, 9, 9, 12, 19, 20, 23, u32::MAX][g.gen_range(0..10)];
    m.last_interest_ts = cliff_u64(g);
    let now = match g.gen_range(0..4) {
        0 => m.last_interest_ts as i64,
        1 => (m.last_interest_ts as i64).wrapping_add(1),
        2 => (m.last_interest_ts as i64).wrapping_sub(1),
        _ => cliff_i64(g),
    };
    r.eval();
    let stale = m.is_stale(now);
    r.count(if stale { "C20.drift_stale" } else { "C20.drift_fresh" });
    if (m.last_interest_ts as i128) < now as i128 && m.last_interest_ts <= i64::MAX as u64 && !stale {
        r.violate("C20", "C20/drift/old-market-reported-fresh", format!("market ts {} now {}", m.last_interest_ts, now));
    }
    let amt = cliff_u64(g);
    let prec: Option<u128> = if m.decimals <= 19 { Some(10u128.pow(19 - m.decimals)) } else { None };
    r.eval();
    let inc = catch_unwind(AssertUnwindSafe(|| m.get_scaled_balance_increment(amt)));
    let dec = catch_unwind(AssertUnwindSafe(|| m.get_scaled_balance_decrement(amt)));
    match (&inc, &dec) {
        (Ok(Ok(i)), Ok(Ok(d))) => {
            r.count("C20.drift_inc_dec/ok");
            if d < i {
                r.violate("C20", "C20/drift/decrement-smaller-than-increment", format!("amount {} inc {} dec {} cum {} decimals {}", amt, i, d, cum, m.decimals));
            }
            match prec {
                None => r.violate("C20", "C20/drift/value-for-unsupported-decimals", format!("decimals {}", m.decimals)),
                Some(p) => {
                    if cum == 0 {
                        r.violate("C20", "C20/drift/value-with-zero-divisor", format!("amount {}", amt));
                    } else {
                        let exact = ru(amt as u128) * ru(p) / ru(cum);
                        if ru(*i as u128) > exact || !fits_u(&exact, 64) {
                            r.violate("C20", "C20/drift/increment-overstated-or-wrapped", format!("amount {} inc {} exact {}", amt, i, show(&exact)));
                        }
                        if let Ok(Ok(back)) = catch_unwind(AssertUnwindSafe(|| m.get_withdraw_token_amount(*i))) {
                            r.count("C20.round_trips");
                            if back > amt {
                                r.violate("C20", "C20/drift/round-trip-yields-more", format!("deposit {} -> scaled {} -> withdraw {} (cum {} decimals {})", amt, i, back, cum, m.decimals));
                            }
                        }
                    }
                }
            }
        }
        (Ok(Err(_)), _) | (_, Ok(Err(_))) => r.count("C20.drift_inc_dec/err"),
        _ => r.count("C20.drift_inc_dec/panic_fail_closed"),
    }
    r.eval();
    match catch_unwind(AssertUnwindSafe(|| m.get_withdraw_token_amount(amt))) {
        Ok(Ok(t)) => {
            r.count("C20.drift_withdraw_amount/ok");
            if let Some(p) = prec {
                let exact = ru(amt as u128) * ru(cum) / ru(p);
                if ru(t as u128) > exact || !fits_u(&exact, 64) {
                    r.violate("C20", "C20/drift/withdraw-amount-overstated-or-wrapped", format!("scaled {} -> {} exact {}", amt, t, show(&exact)));
                }
            } else {
                r.violate("C20", "C20/drift/value-for-unsupported-decimals", format!("decimals {}", m.decimals));
            }
        }
        Ok(Err(_)) => r.count("C20.drift_withdraw_amount/err"),
        Err(_) => r.count("C20.drift_withdraw_amount/panic_fail_closed"),
    }
    // price adjustment
    let px = cliff_i64(g);
    r.eval();
    match catch_unwind(AssertUnwindSafe(|| m.adjust_i64(px))) {
        Ok(Ok(v)) => {
            r.count("C20.drift_adjust_i64/ok");
            let exact = ri(px as i128) * ru(cum) / ru(10_000_000_000);
            if px < 0 || ri(v as i128) > exact || !fits_i(&exact, 64) || &exact - ri(v as i128) >= one() {
                r.violate("C20", "C20/drift/adjusted-price-overstated-or-wrapped", format!("price {} cum {} -> {} exact {}", px, cum, v, show(&exact)));
            }
            if px < i64::MAX {
                if let Ok(Ok(v2)) = catch_unwind(AssertUnwindSafe(|| m.adjust_i64(px + 1))) {
                    r.count("C20.monotonicity_pairs");
                    if v2 < v {
                        r.violate("C20", "C20/drift/adjusted-price-not-monotone", format!("price {} cum {}", px, cum));
                    }
                }
            }
        }
        Ok(Err(_)) => r.count("C20.drift_adjust_i64/err"),
        Err(_) => r.count("C20.drift_adjust_i64/panic_fail_closed"),
    }
    let pv = cliff_i128(g);
    r.eval();
    match catch_unwind(AssertUnwindSafe(|| m.adjust_i128(pv))) {
        Ok(Ok(v)) => {
            r.count("C20.drift_adjust_i128/ok");
            let exact = ri(pv) * ru(cum) / ru(10_000_000_000);
            if pv < 0 || ri(v) > exact || !fits_i(&exact, 128) || &exact - ri(v) >= one() {
                r.violate("C20", "C20/drift/adjusted-value-overstated-or-wrapped", format!("value {} cum {} -> {} exact {}", pv, cum, v, show(&exact)));
            }
        }
        Ok(Err(_)) => r.count("C20.drift_adjust_i128/err"),
        Err(_) => r.count("C20.drift_adjust_i128/panic_fail_closed"),
    }
    r.distinct(&("drift", m.decimals, cum.leading_zeros() / 8, amt.leading_zeros() / 8));
}

pub fn run(a: &Args, r: &mut Report) {
    let t0 = Instant::now();
    let mut g = G::seed_from_u64(crate::subseed(a, 20));
    let mut n = 0u64;
    while t0.elapsed() < a.budget {
        for _ in 0..200 {
            adjusts(r, &mut g);
            scaled(r, &mut g);
            kamino(r, &mut g);
            solend(r, &mut g);
            drift(r, &mut g);
            // the price adapter of the pass-through banks (Pyth and Switchboard variants of the three
            // venues), a quarter of the cases at the overflow cliff of the adjustment
            crate::c09::venue_case(r, &mut g);
            n += 1;
        }
    }
    r.add("C20.rounds", n);
    r.sample(json!({"kind": "functions", "list": ["adjust_i64", "adjust_u64", "adjust_i128", "collateral_to_liquidity_from_scaled", "liquidity_to_collateral_from_scaled", "scale_supplies", "convert_decimals", "MinimalReserve::{liquidity_to_collateral,collateral_to_liquidity,is_stale}", "SolendMinimalReserve::{liquidity_to_collateral,collateral_to_liquidity,is_stale}", "MinimalSpotMarket::{get_scaled_balance_increment,get_scaled_balance_decrement,get_withdraw_token_amount,adjust_i64,adjust_i128,is_stale}"]}));
    r.sample(json!({"kind": "cliffs", "list": ["0", "1", "2^63+-1", "2^64-1", "2^k", "2^k-1", "10^k", "2^79+-2", "I80F48::MAX", "1 ulp", "u128::MAX"]}));
}
