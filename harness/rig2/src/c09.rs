//! C09 (direct rig): the real price adapter on fabricated oracle accounts around every
//! authenticity / staleness / confidence boundary; `refm::ref_price` (exact rationals) decides.
use crate::num::*;
use crate::refm::{self, OracleIn, PxErr, Tri};
use crate::report::Report;
use crate::Args;
use anchor_lang::{AnchorSerialize, Discriminator};
use bytemuck::Zeroable;
use fixed::types::I80F48;
use marginfi::state::price::{OraclePriceFeedAdapter, OraclePriceType, PriceAdapter, PriceBias};
use marginfi_type_crate::types::*;
use num_traits::{Signed, Zero};
use rand::{Rng, SeedableRng};
use serde_json::json;
use solana_sdk::{account_info::AccountInfo, clock::Clock, pubkey::Pubkey};
use std::panic::{catch_unwind, AssertUnwindSafe};
use std::time::Instant;

type G = rand_chacha::ChaCha8Rng;
const SPL_TOKEN: Pubkey = solana_sdk::pubkey!("TokenkegQfeZyiNwAJbNbGKPFXCWuBvf9Ss623VQ5DA");
const STAKE: Pubkey = solana_sdk::pubkey!("Stake11111111111111111111111111111111111111");
const KAMINO: Pubkey = solana_sdk::pubkey!("KLend2g3cP87fffoy8q1mQqGKjrxjC8boSyAYavgmjD");

struct Fab {
    key: Pubkey,
    owner: Pubkey,
    lamports: u64,
    data: Vec<u8>,
}

fn pyth_data(feed: &Pubkey, price: i64, conf: u64, ema: i64, ema_conf: u64, expo: i32, publish: i64, partial: u8, bad_discr: bool) -> Vec<u8> {
    use pyth_solana_receiver_sdk::price_update::*;
    let pu = PriceUpdateV2 {
        write_authority: Pubkey::default(),
        verification_level: if partial == 0 { VerificationLevel::Full } else { VerificationLevel::Partial { num_signatures: partial } },
        price_message: PriceFeedMessage { feed_id: feed.to_bytes(), price, conf, exponent: expo, publish_time: publish, prev_publish_time: publish, ema_price: ema, ema_conf },
        posted_slot: 1,
    };
    let mut d = vec![];
    d.extend_from_slice(PriceUpdateV2::DISCRIMINATOR);
    pu.serialize(&mut d).unwrap();
    d.resize(PriceUpdateV2::LEN.max(d.len()), 0);
    if bad_discr {
        d[0] ^= 0x55;
    }
    d
}
fn swb_data(value: i128, std_dev: i128, ts: i64, bad_discr: bool) -> Vec<u8> {
    use switchboard_on_demand::PullFeedAccountData;
    let n = std::mem::size_of::<PullFeedAccountData>();
    let mut d = vec![0u8; 8 + n];
    d[..8].copy_from_slice(&<PullFeedAccountData as switchboard_on_demand::Discriminator>::DISCRIMINATOR);
    let o_ts = 8 + std::mem::offset_of!(PullFeedAccountData, last_update_timestamp);
    let o_res = 8 + std::mem::offset_of!(PullFeedAccountData, result);
    d[o_ts..o_ts + 8].copy_from_slice(&ts.to_le_bytes());
    d[o_res..o_res + 16].copy_from_slice(&value.to_le_bytes());
    d[o_res + 16..o_res + 32].copy_from_slice(&std_dev.to_le_bytes());
    if bad_discr {
        d[3] ^= 0x55;
    }
    d
}

fn price_i64(g: &mut G) -> i64 {
    match g.gen_range(0..12) {
        0 => 0,
        1 => 1,
        2 => -1,
        3 => -(g.gen_range(1..1_000_000_000i64)),
        4 => i64::MAX,
        5 => i64::MIN,
        6 => 1i64 << g.gen_range(0..62),
        _ => g.gen_range(1..10_000_000_000_000i64),
    }
}

pub fn run(a: &Args, r: &mut Report) {
    let t0 = Instant::now();
    let mut g = G::seed_from_u64(crate::subseed(a, 9));
    let wrong_owners = [solana_sdk::system_program::ID, SPL_TOKEN, Pubkey::new_from_array([7u8; 32]), solana_sdk::pubkey!("FsJ3A3u2vn5cTVofAjvy6y5kwABJAqYWpe4975bi2epH")];
    while t0.elapsed() < a.budget {
        if g.gen_range(0..5) == 0 {
            venue_case(r, &mut g);
            continue;
        }
        let kind = g.gen_range(0..4); // 0 pyth 1 swb 2 fixed 3 staked
        let mut bank = Bank::zeroed();
        bank.mint_decimals = 6;
        let okey = Pubkey::new_from_array(g.gen::<[u8; 32]>());
        let lst = Pubkey::new_from_array(g.gen::<[u8; 32]>());
        let pool = Pubkey::new_from_array(g.gen::<[u8; 32]>());
        bank.config.oracle_keys[0] = okey;
        bank.config.oracle_max_age = [0u16, 10, 30, 60, 600, 65535][g.gen_range(0..6)];
        bank.config.oracle_max_confidence = [0u32, 1, u32::MAX / 1000, u32::MAX / 50, u32::MAX / 10, u32::MAX][g.gen_range(0..6)];
        let now: i64 = 1_700_000_000 + g.gen_range(0..1_000_000);
        let eff_age: i64 = match (bank.config.oracle_max_age, kind) {
            (0, 0) => 60,
            (n, _) => n as i64,
        };
        let age_off = g.gen_range(-2..=2i64);
        let ts = match g.gen_range(0..8) {
            0 => now,
            1 => now - eff_age / 2,
            2 => now + g.gen_range(0..100), // published "in the future"
            6 => {
                // ages at the cliffs of narrower integer types: a multiple of 2^16 (2^31, 2^32) seconds
                // plus something inside the allowed age looks fresh to an age kept in too few bits
                let base: i64 = [65_536i64, 2 * 65_536, 3 * 65_536, 1000 * 65_536, 1 << 31, 1 << 32, (1 << 32) + 65_536][g.gen_range(0..7)];
                let off = if g.gen_bool(0.8) { g.gen_range(0..=eff_age.max(1)) } else { -1 };
                r.count("C09.ages_at_integer_width_cliffs");
                now - (base + off)
            }
            7 => [0i64, 1, now - 1_000_000_000, now - 86_400, now - 7 * 86_400][g.gen_range(0..5)],
            _ => now - eff_age + age_off,
        };
        let fault = g.gen_range(0..10); // 0 wrong key 1 wrong owner 2 bad discriminator 3 partial verification, else none
        let expo = [-12i32, -9, -8, -6, -5, -2, 0, 2, 8, -23, -24, 30][g.gen_range(0..12)];
        let price = price_i64(&mut g);
        let conf_mode = g.gen_range(0..6);
        let mk_conf = |g: &mut G, p: i64, m: u32| -> u64 {
            let p = p.unsigned_abs();
            let mfrac = if m == 0 { 0.1 } else { m as f64 / u32::MAX as f64 };
            match conf_mode {
                0 => 0,
                1 => ((p as f64) * 0.05 / 2.12) as u64 + g.gen_range(0..3),
                2 => (((p as f64) * mfrac / 2.12) as u64).saturating_add(g.gen_range(0..4)).saturating_sub(2),
                3 => u64::MAX,
                4 => g.gen_range(0..=p / 10 + 1),
                _ => g.gen_range(0..=p.saturating_mul(2).max(1)),
            }
        };
        let conf = mk_conf(&mut g, price, bank.config.oracle_max_confidence);
        let ema = if g.gen_bool(0.5) { price } else { price_i64(&mut g) };
        let ema_conf = mk_conf(&mut g, ema, bank.config.oracle_max_confidence);
        let mut fabs: Vec<Fab> = vec![];
        let presented_key = if fault == 0 { Pubkey::new_from_array(g.gen::<[u8; 32]>()) } else { okey };
        match kind {
            0 | 3 => {
                bank.config.oracle_setup = if kind == 0 { OracleSetup::PythPushOracle } else { OracleSetup::StakedWithPythPush };
                let owner = if fault == 1 { wrong_owners[g.gen_range(0..wrong_owners.len())] } else { refm::PYTH_OWNER };
                fabs.push(Fab { key: presented_key, owner, lamports: 1, data: pyth_data(&okey, price, conf, ema, ema_conf, expo, ts, if fault == 3 { g.gen_range(1..13) } else { 0 }, fault == 2) });
                if kind == 3 {
                    bank.config.oracle_keys[1] = lst;
                    bank.config.oracle_keys[2] = pool;
                    bank.config.asset_tag = 2;
                    bank.mint_decimals = 9;
                    use solana_sdk::program_pack::Pack;
                    let supply = [0u64, 1, 1_000_000_000, 50_000_000_000, u64::MAX][g.gen_range(0..5)];
                    let mut md = vec![0u8; 82];
                    // hand-packed SPL mint: COption<Pubkey>(36) supply(8) decimals(1) is_initialized(1) freeze(36)
                    md[36..44].copy_from_slice(&supply.to_le_bytes());
                    md[44] = 9;
                    md[45] = 1;
                    let stake = [0u64, 999_999_999, 1_000_000_000, 1_000_000_001, 101_000_000_000, u64::MAX][g.gen_range(0..6)];
                    use solana_sdk::stake::stake_flags::StakeFlags;
                    use solana_sdk::stake::state::{Delegation, Meta, Stake, StakeStateV2};
                    let st = StakeStateV2::Stake(Meta::default(), Stake { delegation: Delegation { stake, ..Delegation::default() }, credits_observed: 0 }, StakeFlags::empty());
                    let mut sd = bincode_like(&st);
                    sd.resize(200, 0);
                    let k1 = if fault == 4 { Pubkey::new_from_array(g.gen::<[u8; 32]>()) } else { lst };
                    fabs.push(Fab { key: k1, owner: SPL_TOKEN, lamports: 1, data: md });
                    fabs.push(Fab { key: pool, owner: STAKE, lamports: 1, data: sd });
                    let _ = spl_len::<()>();
                }
            }
            1 => {
                bank.config.oracle_setup = OracleSetup::SwitchboardPull;
                let owner = if fault == 1 { wrong_owners[g.gen_range(0..wrong_owners.len())] } else { refm::SWB_OWNER };
                let value: i128 = match g.gen_range(0..8) {
                    0 => 0,
                    1 => -(g.gen_range(1..1_000_000_000_000_000_000i128)),
                    2 => 1,
                    3 => (1i128 << 78) + g.gen_range(-5..5),
                    _ => g.gen_range(1..1_000_000_000_000i128) * 1_000_000_000_000,
                };
                let mfrac = if bank.config.oracle_max_confidence == 0 { 0.1 } else { bank.config.oracle_max_confidence as f64 / u32::MAX as f64 };
                let sd: i128 = match conf_mode {
                    0 => 0,
                    1 => ((value as f64) * 0.05 / 1.96) as i128 + g.gen_range(-2..=2),
                    2 => ((value as f64) * mfrac / 1.96) as i128 + g.gen_range(-2..=2),
                    3 => -(g.gen_range(1..1_000_000i128)),
                    _ => g.gen_range(0..=(value.abs() / 5 + 1)),
                };
                fabs.push(Fab { key: presented_key, owner, lamports: 1, data: swb_data(value, sd, ts, fault == 2) });
            }
            _ => {
                bank.config.oracle_setup = OracleSetup::Fixed;
                let p = match g.gen_range(0..5) {
                    0 => I80F48::ZERO,
                    1 => I80F48::from_num(-1),
                    2 => I80F48::from_bits(1),
                    _ => I80F48::from_bits(g.gen_range(0..(1i128 << 100))),
                };
                bank.config.fixed_price = p.into();
                if fault == 0 {
                    // an unexpected extra account
                    fabs.push(Fab { key: presented_key, owner: refm::PYTH_OWNER, lamports: 1, data: vec![0; 8] });
                }
            }
        }
        let clock = Clock { unix_timestamp: now, slot: 1000, ..Default::default() };
        // reference
        let ors: Vec<OracleIn> = fabs.iter().map(|f| OracleIn { key: f.key, owner: f.owner, data: &f.data[..] }).collect();
        let rp = refm::ref_price(&bank, &ors, now);
        // program
        let mut store: Vec<(Pubkey, Pubkey, u64, Vec<u8>)> = fabs.iter().map(|f| (f.key, f.owner, f.lamports, f.data.clone())).collect();
        let max_conf = bank.config.oracle_max_confidence;
        let outcome = catch_unwind(AssertUnwindSafe(|| {
            let ais: Vec<AccountInfo> = store.iter_mut().map(|(k, o, l, d)| AccountInfo::new(k, false, false, l, &mut d[..], o, false, 0)).collect();
            // the adapter wants &'info [AccountInfo<'info>]
            let ais: &[AccountInfo] = unsafe { std::mem::transmute::<&[AccountInfo], &[AccountInfo]>(&ais[..]) };
            match OraclePriceFeedAdapter::try_from_bank(&bank, ais, &clock) {
                Err(_) => None,
                Ok(ad) => {
                    let mut v = vec![];
                    for ty in [OraclePriceType::RealTime, OraclePriceType::TimeWeighted] {
                        for b in [None, Some(PriceBias::Low), Some(PriceBias::High)] {
                            v.push(catch_unwind(AssertUnwindSafe(|| ad.get_price_of_type(ty, b, max_conf).ok())).unwrap_or(None));
                        }
                    }
                    Some(v)
                }
            }
        }));
        let outcome = match outcome {
            Ok(x) => x,
            Err(_) => {
                r.count("C09.adapter_panicked_fail_closed");
                None
            }
        };
        r.eval();
        let kname = ["pyth", "switchboard", "fixed", "staked"][kind];
        let fname = match fault {
            0 => "wrong-key",
            1 => "wrong-owner",
            2 => "bad-discriminator",
            3 => "partial-verification",
            4 => "wrong-aux-key",
            _ => "none",
        };
        let used_any = outcome.as_ref().map(|v| v.iter().any(|x| x.is_some())).unwrap_or(false);
        match &rp {
            Err(e) => {
                r.count(&format!("C09.must_reject/{}/{:?}", kname, e));
                r.distinct(&(kname, format!("{:?}", e), fname));
                if used_any && *e != PxErr::Unsupported {
                    r.violate("C09", &format!("C09/adapter/{}/price-from-unusable-account", kname), format!("reference rejects ({:?}; fault {}) but the adapter produced a price; age offset {} max_age {} ts {} now {}", e, fname, age_off, bank.config.oracle_max_age, ts, now));
                }
            }
            Ok(px) => {
                r.count(&format!("C09.usable/{}", kname));
                let v = match outcome {
                    Some(v) => v,
                    None => {
                        // rejecting a usable feed is fail-closed; count (age boundary second must be usable)
                        r.count(&format!("C09.usable_but_rejected/{}", kname));
                        if ts <= now && kind != 3 {
                            if !(kind == 0 && expo.unsigned_abs() >= 24) && price.unsigned_abs() < (1u64 << 62) && conf < (1u64 << 62) {
                                r.count("C09.usable_rejected_in_normal_range");
                            }
                        }
                        continue;
                    }
                };
                judge(r, kname, px, &v, bank.config.oracle_max_age, age_off);
                r.sample_kind(kname, json!({"max_age": bank.config.oracle_max_age, "age_offset_from_boundary": age_off, "price": price, "conf": conf, "expo": expo, "reference_spot": show(&px.spot), "reference_bias": show(&px.bias(false))}));
            }
        }
    }
}

/// Compare the six prices the adapter gives (real-time / time-weighted x unbiased / low / high; `None` =
/// refused) with the reference price.
fn judge(r: &mut Report, kname: &str, px: &refm::RefPx, v: &[Option<I80F48>], max_age: u16, age_off: i64) {
    for (i, ema) in [(0usize, false), (3usize, true)] {
        let (unb, low, high) = (&v[i], &v[i + 1], &v[i + 2]);
        let ok = px.conf_ok(ema);
        let p_ref = if ema { &px.ema } else { &px.spot };
        r.distinct(&(kname, ema, format!("{:?}", ok), p_ref.is_positive(), (to_f64(&px.bias(ema)) * 100.0 / to_f64(p_ref).abs().max(1e-30)) as i64, max_age, age_off));
        if ok == Tri::No && (low.is_some() || high.is_some()) {
            r.violate("C09", &format!("C09/adapter/{}/biased-price-despite-confidence-above-maximum", kname), format!("price {} k*conf {} max fraction {}", show(p_ref), show(if ema { &px.ema_kc } else { &px.spot_kc }), show(&px.max_conf)));
        }
        let tol = &px.e * ri(8) + ulp() * ri(16) + abs(p_ref) * ulp() * ri(4);
        if let Some(u) = unb {
            if abs(&(bits_to_rat(u.to_bits()) - p_ref)) > tol {
                r.violate("C09", &format!("C09/adapter/{}/unbiased-price-differs-from-reported", kname), format!("adapter {} reference {}", u, show(p_ref)));
            }
        }
        if let (Some(l), Some(h)) = (low, high) {
            let (lr, hr) = (bits_to_rat(l.to_bits()), bits_to_rat(h.to_bits()));
            r.count("C09.bias_pairs_checked");
            if lr > p_ref + &tol {
                r.violate("C09", &format!("C09/adapter/{}/low-biased-price-above-reported", kname), format!("low {} reported {}", l, show(p_ref)));
            }
            if hr < p_ref - &tol {
                r.violate("C09", &format!("C09/adapter/{}/high-biased-price-below-reported", kname), format!("high {} reported {}", h, show(p_ref)));
            }
            if ok == Tri::Yes {
                let b = px.bias(ema);
                if abs(&(p_ref - &lr - &b)) > tol || abs(&(&hr - p_ref - &b)) > tol {
                    r.violate("C09", &format!("C09/adapter/{}/bias-not-min-of-scaled-confidence-and-5-percent", kname), format!("reported {} low {} high {} expected bias {}", show(p_ref), l, h, show(&b)));
                }
                r.max("C09.max_bias_fraction", to_f64(&b) / to_f64(p_ref).abs().max(1e-30));
            }
            if !p_ref.is_positive() && lr.is_positive() {
                r.violate("C09", &format!("C09/adapter/{}/positive-price-from-non-positive-report", kname), format!("reported {} low {}", show(p_ref), l));
            }
        }
    }
}

fn spl_len<T>() -> usize {
    82
}
/// bincode encoding of the stake state (u32 tag + fields), written by hand so that rig2 does not
/// need the bincode crate: StakeStateV2::Stake = tag 2, Meta (120 bytes), Stake.
fn bincode_like(st: &solana_sdk::stake::state::StakeStateV2) -> Vec<u8> {
    use solana_sdk::stake::state::StakeStateV2;
    let mut v = vec![];
    if let StakeStateV2::Stake(meta, stake, _flags) = st {
        v.extend_from_slice(&2u32.to_le_bytes());
        v.extend_from_slice(&meta.rent_exempt_reserve.to_le_bytes());
        v.extend_from_slice(meta.authorized.staker.as_ref());
        v.extend_from_slice(meta.authorized.withdrawer.as_ref());
        v.extend_from_slice(&meta.lockup.unix_timestamp.to_le_bytes());
        v.extend_from_slice(&meta.lockup.epoch.to_le_bytes());
        v.extend_from_slice(meta.lockup.custodian.as_ref());
        v.extend_from_slice(stake.delegation.voter_pubkey.as_ref());
        v.extend_from_slice(&stake.delegation.stake.to_le_bytes());
        v.extend_from_slice(&stake.delegation.activation_epoch.to_le_bytes());
        v.extend_from_slice(&stake.delegation.deactivation_epoch.to_le_bytes());
        #[allow(deprecated)]
        v.extend_from_slice(&stake.delegation.warmup_cooldown_rate.to_le_bytes());
        v.extend_from_slice(&stake.credits_observed.to_le_bytes());
        v.push(0);
    }
    v
}

const DRIFT: Pubkey = solana_sdk::pubkey!("dRiftyHA39MWEi3m9aunc5MzRF1JYuBsbn6VPcn33UH");
const SOLEND: Pubkey = solana_sdk::pubkey!("So1endDq2YkqhipRh3WViPa8hdiSpxWy6z3Z6tMCpAo");

/// Exchange-rate-adjusted variants (Kamino / Drift / Solend with a Pyth feed): the adapter's
/// adjusted price must not exceed price x exact exchange rate, a venue account that was not
/// refreshed in the current slot / second must be refused, and so must a wrong venue account.
pub fn venue_case(r: &mut Report, g: &mut G) {
    use num_bigint::BigInt;
    // the C20 check runs the same cases: what they say about the exchange-rate adjustment (never above
    // price x exact rate, an adjustment that does not fit is an error and not a smaller price, stale
    // venue state refused) is attributed to the property whose check is running
    let vp: &str = if r.prop == "C20" { "C20" } else { "C09" };
    let venue = g.gen_range(0..3); // 0 kamino 1 drift 2 solend
    let vname = ["kamino", "drift", "solend"][venue];
    let mut bank = Bank::zeroed();
    let okey = Pubkey::new_from_array(g.gen::<[u8; 32]>());
    let vkey = Pubkey::new_from_array(g.gen::<[u8; 32]>());
    bank.config.oracle_keys[0] = okey;
    bank.config.oracle_keys[1] = vkey;
    bank.config.oracle_max_age = 60;
    bank.config.oracle_max_confidence = u32::MAX;
    // half of the cases use the Switchboard variant of the venue's oracle setup
    let swb = g.gen_bool(0.5);
    bank.config.oracle_setup = if swb { [OracleSetup::KaminoSwitchboardPull, OracleSetup::DriftSwitchboardPull, OracleSetup::SolendSwitchboardPull][venue] } else { [OracleSetup::KaminoPythPush, OracleSetup::DriftPythPull, OracleSetup::SolendPythPull][venue] };
    bank.mint_decimals = 6;
    bank.config.asset_tag = [3u8, 4, 5][venue];
    let now: i64 = 1_700_000_000 + g.gen_range(0..1_000_000);
    let slot: u64 = 1_000_000 + g.gen_range(0..1_000_000u64);
    let mut price: i64 = g.gen_range(1..50_000_000_000i64);
    let expo = [-8i32, -6, -5][g.gen_range(0..3)];
    // a quarter of the cases sit at the cliff: the product price x rate is placed just below / above
    // what the adjusted integer (Pyth: i64 in the feed's units) or fixed-point value (Switchboard:
    // 2^79 in 18-decimal units, i.e. 604 462.9 dollars) can hold
    let cliff = g.gen_range(0..4) == 0;
    let cliff_f = [0.5f64, 0.99, 0.999_999, 1.000_001, 1.01, 2.0, 1000.0][g.gen_range(0..7)];
    let cliff_product = |swb: bool| -> f64 { if swb { 604_462.909_807_314_6 * 10f64.powi(-expo) } else { i64::MAX as f64 } };
    let conf: u64 = (price as u64) / [0u64, 1000, 100, 30][g.gen_range(0..4)].max(1) * (g.gen_range(0..2) as u64);
    let fault = g.gen_range(0..8); // 0 stale venue 1 wrong venue key 2 wrong venue owner 3 bad discriminator else none
    let dec: u32 = [6u32, 9, 6, 8][g.gen_range(0..4)];
    // venue state and exact exchange rate
    let (vdata, vowner, rate, stale, trunc_rel): (Vec<u8>, Pubkey, Option<Rat>, bool, Rat) = match venue {
        0 => {
            let mut res = kamino_mocks::state::MinimalReserve::zeroed();
            res.available_amount = g.gen_range(0..(1u64 << 50));
            let borrowed: u128 = (g.gen_range(0..(1u64 << 50)) as u128) << 60;
            res.borrowed_amount_sf = borrowed.to_le_bytes();
            res.mint_total_supply = if g.gen_range(0..10) == 0 { 0 } else { g.gen_range(1..(1u64 << 50)) };
            if cliff {
                let liq_f = res.available_amount as f64 + (borrowed >> 60) as f64;
                res.mint_total_supply = ((liq_f * price as f64 / (cliff_product(swb) * cliff_f)) as u64).max(1);
                r.count("venue.cases_at_the_overflow_cliff/kamino");
            }
            res.mint_decimals = dec as u64;
            res.slot = if fault == 0 { slot - g.gen_range(1..3) } else { slot + g.gen_range(0..2) };
            let liq = ru(res.available_amount as u128) + Rat::new(BigInt::from(borrowed), BigInt::from(1u128 << 60));
            let rate = if res.mint_total_supply == 0 { None } else { Some(liq.clone() / ru(res.mint_total_supply as u128)) };
            let mut d = kamino_mocks::state::RESERVE_DISCRIMINATOR.to_vec();
            d.extend_from_slice(bytemuck::bytes_of(&res));
            // the program divides both supplies by 10^decimals on the 2^-48 grid before taking the ratio
            let tr = if res.mint_total_supply == 0 || liq.is_zero() { zero() } else { ulp() * pow10(dec) * ri(4) * (one() / ru(res.mint_total_supply as u128) + one() / &liq) };
            (d, KAMINO, rate, fault == 0, tr)
        }
        1 => {
            let mut m = drift_mocks::state::MinimalSpotMarket::zeroed();
            let cum: u128 = 10_000_000_000u128 + g.gen_range(0..20_000_000_000u128);
            if cliff {
                price = ((cliff_product(swb) * cliff_f / (cum as f64 / 1e10)) as i64).clamp(1, i64::MAX / 2);
                r.count("venue.cases_at_the_overflow_cliff/drift");
            }
            m.cumulative_deposit_interest = cum.to_le_bytes();
            m.decimals = dec;
            m.last_interest_ts = if fault == 0 { (now - g.gen_range(1..3)) as u64 } else { (now + g.gen_range(0..2)) as u64 };
            let mut d = drift_mocks::state::SPOT_MARKET_DISCRIMINATOR.to_vec();
            d.extend_from_slice(bytemuck::bytes_of(&m));
            (d, DRIFT, Some(ru(cum) / ru(10_000_000_000)), fault == 0, zero())
        }
        _ => {
            let mut res = solend_mocks::state::SolendMinimalReserve::zeroed();
            res.liquidity_available_amount = g.gen_range(0..(1u64 << 50));
            let wad: u128 = 1_000_000_000_000_000_000;
            let borrowed: u128 = (g.gen_range(0..(1u64 << 40)) as u128) * wad;
            res.liquidity_borrowed_amount_wads = borrowed.to_le_bytes();
            res.collateral_mint_total_supply = if g.gen_range(0..10) == 0 { 0 } else { g.gen_range(1..(1u64 << 50)) };
            if cliff {
                let liq_f = res.liquidity_available_amount as f64 + (borrowed / wad) as f64;
                res.collateral_mint_total_supply = ((liq_f * price as f64 / (cliff_product(swb) * cliff_f)) as u64).max(1);
                r.count("venue.cases_at_the_overflow_cliff/solend");
            }
            res.liquidity_mint_decimals = dec as u8;
            res.last_update_slot = if fault == 0 { slot - g.gen_range(1..3) } else { slot + g.gen_range(0..2) };
            let liq = ru(res.liquidity_available_amount as u128) + ru(borrowed / wad);
            let sup = res.collateral_mint_total_supply;
            let rate = if sup == 0 { None } else { Some(liq.clone() / ru(sup as u128)) };
            let mut d = vec![1u8];
            d.extend_from_slice(bytemuck::bytes_of(&res));
            let tr = if sup == 0 || liq.is_zero() { zero() } else { ulp() * pow10(dec) * ri(4) * (one() / ru(sup as u128) + one() / &liq) };
            (d, SOLEND, rate, fault == 0, tr)
        }
    };
    crate::NOW_SLOT.store(slot, std::sync::atomic::Ordering::Relaxed);
    crate::NOW_TS.store(now, std::sync::atomic::Ordering::Relaxed);
    let mut vdata = vdata;
    if fault == 3 {
        vdata[0] ^= 0x5a;
    }
    let vowner = if fault == 2 { solana_sdk::system_program::ID } else { vowner };
    let presented_vkey = if fault == 1 { Pubkey::new_from_array(g.gen::<[u8; 32]>()) } else { vkey };
    // the time-weighted price differs from the spot price (each must be taken through the rate once)
    let ema: i64 = ((price as f64) * [0.9f64, 1.0, 1.07][g.gen_range(0..3)]) as i64;
    let (pdata, powner) = if swb {
        let scale = 10f64.powi(18 + expo);
        let value = ((price as f64) * scale) as i128;
        let sd = ((conf as f64) * scale) as i128;
        (swb_data(value, sd, now, false), refm::SWB_OWNER)
    } else {
        (pyth_data(&okey, price, conf, ema.max(1), conf, expo, now, 0, false), refm::PYTH_OWNER)
    };
    // a configured maximum confidence for the gate (what the bank would pass)
    let cfg_max_conf = [0u32, u32::MAX / 50, u32::MAX / 10, u32::MAX][g.gen_range(0..4)];
    let clock = Clock { unix_timestamp: now, slot, ..Default::default() };
    let mut store: Vec<(Pubkey, Pubkey, u64, Vec<u8>)> = vec![(okey, powner, 1, pdata), (presented_vkey, vowner, 1, vdata)];
    // the shared reference (exact rate, confidence taken through the rate, fail-closed boundaries)
    let rp = {
        let mut b2 = bank;
        b2.config.oracle_max_confidence = cfg_max_conf;
        refm::set_slot(slot);
        let ors: Vec<OracleIn> = store.iter().map(|(k, o, _, d)| OracleIn { key: *k, owner: *o, data: &d[..] }).collect();
        refm::ref_price(&b2, &ors, now)
    };
    let six = {
        let mut st2 = store.clone();
        catch_unwind(AssertUnwindSafe(|| {
            let ais: Vec<AccountInfo> = st2.iter_mut().map(|(k, o, l, d)| AccountInfo::new(k, false, false, l, &mut d[..], o, false, 0)).collect();
            let ais: &[AccountInfo] = unsafe { std::mem::transmute::<&[AccountInfo], &[AccountInfo]>(&ais[..]) };
            match OraclePriceFeedAdapter::try_from_bank(&bank, ais, &clock) {
                Err(_) => None,
                Ok(ad) => {
                    let mut v = vec![];
                    for ty in [OraclePriceType::RealTime, OraclePriceType::TimeWeighted] {
                        for b in [None, Some(PriceBias::Low), Some(PriceBias::High)] {
                            v.push(catch_unwind(AssertUnwindSafe(|| ad.get_price_of_type(ty, b, cfg_max_conf).ok())).unwrap_or(None));
                        }
                    }
                    Some(v)
                }
            }
        }))
        .unwrap_or(None)
    };
    if let (Ok(px), Some(v)) = (&rp, &six) {
        let kname = format!("{}-{}", vname, if swb { "switchboard" } else { "pyth" });
        r.count(&format!("C09.venue_full_comparisons/{}", kname));
        judge(r, &kname, px, v, 60, 0);
    }
    let outcome = catch_unwind(AssertUnwindSafe(|| {
        let ais: Vec<AccountInfo> = store.iter_mut().map(|(k, o, l, d)| AccountInfo::new(k, false, false, l, &mut d[..], o, false, 0)).collect();
        let ais: &[AccountInfo] = unsafe { std::mem::transmute::<&[AccountInfo], &[AccountInfo]>(&ais[..]) };
        match OraclePriceFeedAdapter::try_from_bank(&bank, ais, &clock) {
            Err(_) => None,
            Ok(ad) => Some((ad.get_price_of_type(OraclePriceType::RealTime, None, u32::MAX).ok(), ad.get_price_of_type(OraclePriceType::RealTime, Some(PriceBias::Low), u32::MAX).ok(), ad.get_price_of_type(OraclePriceType::RealTime, Some(PriceBias::High), u32::MAX).ok())),
        }
    }))
    .unwrap_or(None);
    r.eval();
    let must_reject = fault <= 3;
    r.count(&format!("C09.venue/{}/{}", vname, if must_reject { "must_reject" } else { "usable" }));
    r.distinct(&("venue", vname, fault.min(4), dec, expo));
    match (&outcome, must_reject) {
        (Some((u, _, _)), true) if u.is_some() => {
            let what = ["venue-state-not-refreshed-this-slot-or-second", "wrong-venue-account-key", "wrong-venue-account-owner", "bad-venue-discriminator"][fault as usize];
            let _ = stale;
            r.violate(if fault == 0 { vp } else { "C09" }, &format!("{}/adapter/{}/price-despite-{}", if fault == 0 { vp } else { "C09" }, vname, what), format!("price {} expo {}", price, expo));
        }
        (Some((Some(u), low, high)), false) => {
            let sc = one() / pow10(expo.unsigned_abs());
            let reported = ri(price as i128) * &sc;
            let exact = match &rate {
                Some(rt) => &reported * rt,
                None => reported.clone(),
            };
            let got = bits_to_rat(u.to_bits());
            // truncation: integer price floor (one price unit), scaled supplies (ulp / scaled value), fixed-point ops
            let slack = &exact * (rq(1, 1 << 30) + &trunc_rel) + &sc * ri(2) + ulp() * ri(64);
            r.max(&format!("C09.venue_{}_max_rate", vname), rate.as_ref().map(to_f64).unwrap_or(1.0));
            if got > &exact + &slack {
                r.violate(vp, &format!("{}/adapter/{}/adjusted-price-exceeds-price-times-exact-rate", vp, vname), format!("adapter {} exact {} (price {} rate {})", u, show(&exact), show(&reported), rate.as_ref().map(show).unwrap_or_default()));
            }
            if got < &exact - &slack - &exact * rq(1, 1_000_000) {
                // (this is also what an adjustment that did not fit looks like when it is dropped
                // instead of reported: the unadjusted price comes back)
                r.violate(vp, &format!("{}/adapter/{}/adjusted-price-far-below-price-times-exact-rate", vp, vname), format!("adapter {} exact {} (price {} rate {})", u, show(&exact), show(&reported), rate.as_ref().map(show).unwrap_or_default()));
            }
            if cliff {
                r.count("venue.cliff_cases_priced");
            }
            if let (Some(l), Some(h)) = (low, high) {
                if l > u || h < u {
                    r.violate("C09", &format!("C09/adapter/{}/bias-on-the-wrong-side", vname), format!("low {} unbiased {} high {}", l, u, h));
                }
            }
            r.count("C09.venue_prices_compared");
        }
        (None, false) if cliff => {
            r.count("venue.cliff_cases_refused");
        }
        _ => {}
    }
}
