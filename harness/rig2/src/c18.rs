//! C18: every interest configuration accepted by the program's own validation is evaluated with
//! the real rate calculator over utilisations around every breakpoint and a dense grid; an exact
//! piecewise-linear interpolation in rationals is the oracle.
use crate::num::*;
use crate::refm::curve_base_rate;
use crate::report::Report;
use crate::Args;
use fixed::types::I80F48;
use marginfi::state::interest_rate::InterestRateConfigImpl;
use marginfi_type_crate::types::*;
use num_traits::{Signed, Zero};
use rand::{Rng, SeedableRng};
use serde_json::json;
use std::time::Instant;

fn gen_cfg(r: &mut impl Rng) -> (InterestRateConfig, &'static str) {
    let mut c = InterestRateConfig::default();
    c.curve_type = INTEREST_CURVE_SEVEN_POINT;
    let ext = |r: &mut dyn rand::RngCore| -> u32 {
        match r.gen_range(0..8) {
            0 => 0,
            1 => 1,
            2 => u32::MAX,
            3 => u32::MAX - 1,
            4 => u32::MAX / 2,
            _ => r.gen::<u32>(),
        }
    };
    let shape = match r.gen_range(0..10) {
        0 => "valid-random",
        1 => "adjacent-utils",
        2 => "extreme-rates",
        3 => "equal-rates",
        4 => "point-at-100pct",
        5 => "hole-in-padding",
        6 => "decreasing-rate",
        7 => "unsorted-utils",
        8 => "zero-above-hundred",
        _ => "arbitrary",
    };
    let n = r.gen_range(0..=5usize);
    let mut zero = ext(r);
    let mut hundred = ext(r);
    if shape != "zero-above-hundred" && shape != "arbitrary" && zero > hundred {
        std::mem::swap(&mut zero, &mut hundred);
    }
    if shape == "equal-rates" {
        hundred = zero;
    }
    if shape == "zero-above-hundred" && zero <= hundred {
        zero = hundred.saturating_add(1);
    }
    let mut utils: Vec<u32> = (0..n).map(|_| ext(r).max(1)).collect();
    let mut rates: Vec<u32> = (0..n).map(|_| if hundred > zero { r.gen_range(zero..=hundred) } else { zero }).collect();
    if shape != "unsorted-utils" && shape != "arbitrary" {
        utils.sort();
        utils.dedup();
        rates.sort();
        rates.truncate(utils.len());
    }
    if shape == "adjacent-utils" && n >= 2 {
        let b = r.gen_range(1..u32::MAX - 8);
        utils = (0..n as u32).map(|i| b + i).collect();
        rates.resize(utils.len(), zero);
        rates.sort();
    }
    if shape == "extreme-rates" {
        zero = 0;
        hundred = u32::MAX;
        for (i, x) in rates.iter_mut().enumerate() {
            *x = if i % 2 == 0 { 0 } else { u32::MAX };
        }
        rates.sort();
    }
    if shape == "point-at-100pct" && !utils.is_empty() {
        let l = utils.len() - 1;
        utils[l] = u32::MAX;
        utils.sort();
        utils.dedup();
        rates.truncate(utils.len());
    }
    if shape == "decreasing-rate" && rates.len() >= 2 {
        rates.reverse();
    }
    let mut pts = [RatePoint::default(); 5];
    for (i, (u, rt)) in utils.iter().zip(rates.iter()).enumerate().take(5) {
        pts[i] = RatePoint::new(*u, *rt);
    }
    if shape == "hole-in-padding" && utils.len() >= 2 {
        pts[0] = RatePoint::new(0, 0);
    }
    if shape == "arbitrary" {
        for p in pts.iter_mut() {
            *p = RatePoint::new(if r.gen_bool(0.3) { 0 } else { ext(r) }, if r.gen_bool(0.2) { 0 } else { ext(r) });
        }
    }
    c.zero_util_rate = zero;
    c.hundred_util_rate = hundred;
    c.points = pts;
    let fee = |r: &mut dyn rand::RngCore| -> WrappedI80F48 { I80F48::from_num([0.0, 0.0, 0.001, 0.05, 0.5, 3.0][r.gen_range(0..6)]).into() };
    c.insurance_fee_fixed_apr = fee(r);
    c.insurance_ir_fee = fee(r);
    c.protocol_fixed_fee_apr = fee(r);
    c.protocol_ir_fee = fee(r);
    (c, shape)
}

fn gen_legacy(r: &mut impl Rng) -> InterestRateConfig {
    let mut c = InterestRateConfig::default();
    c.curve_type = INTEREST_CURVE_LEGACY;
    let f = |r: &mut dyn rand::RngCore, lo: f64, hi: f64| -> f64 {
        match r.gen_range(0..6) {
            0 => lo,
            1 => hi,
            2 => lo + (hi - lo) * 1e-9,
            3 => hi - (hi - lo) * 1e-9,
            _ => lo + (hi - lo) * r.gen::<f64>(),
        }
    };
    c.optimal_utilization_rate = I80F48::from_num(f(r, 0.0, 1.0)).into();
    let p = f(r, 0.0, 5.0);
    c.plateau_interest_rate = I80F48::from_num(p).into();
    c.max_interest_rate = I80F48::from_num(f(r, p * 0.5, 50.0)).into();
    c
}

pub fn run(a: &Args, r: &mut Report) {
    let t0 = Instant::now();
    let mut rng = rand_chacha::ChaCha8Rng::seed_from_u64(crate::subseed(a, 18));
    let mut g_on = MarginfiGroup::default();
    g_on.group_flags = 1;
    g_on.fee_state_cache.program_fee_fixed = I80F48::from_num(0.005).into();
    g_on.fee_state_cache.program_fee_rate = I80F48::from_num(0.1).into();
    let g_off = MarginfiGroup::default();
    let grid = if a.tier == "thorough" { 600 } else { 120 };
    let ulpf = I80F48::from_bits(1);
    while t0.elapsed() < a.budget {
        let legacy = rng.gen_bool(0.1);
        let (c, shape) = if legacy { (gen_legacy(&mut rng), "legacy") } else { gen_cfg(&mut rng) };
        let accepted = std::panic::catch_unwind(|| c.validate().is_ok()).unwrap_or(false);
        r.count(&format!("C18.configs_{}/{}", if accepted { "accepted" } else { "rejected" }, shape));
        if !accepted {
            continue;
        }
        let np = c.points.iter().filter(|p| p.util != 0).count();
        r.distinct(&(shape, np, c.zero_util_rate == c.hundred_util_rate, c.points.iter().any(|p| p.util == u32::MAX)));
        let group = if rng.gen_bool(0.5) { &g_on } else { &g_off };
        let calc = c.create_interest_rate_calculator(group);
        // utilisations: breakpoints (as the program maps them) +-{0,1,2} ulps, ends, out of range, grid
        let mut us: Vec<I80F48> = vec![I80F48::ZERO, ulpf, I80F48::ONE, I80F48::ONE - ulpf, I80F48::ONE + ulpf, I80F48::from_num(1.5), I80F48::from_num(1000)];
        if !legacy {
            for p in c.points.iter().filter(|p| p.util != 0) {
                let x = I80F48::from_num(p.util) / I80F48::from_num(u32::MAX);
                for d in -2i128..=2 {
                    us.push(I80F48::from_bits(x.to_bits() + d));
                }
            }
        } else {
            let x: I80F48 = c.optimal_utilization_rate.into();
            for d in -2i128..=2 {
                us.push(I80F48::from_bits(x.to_bits() + d));
            }
        }
        for _ in 0..grid {
            us.push(I80F48::from_bits(rng.gen_range(0..=(1i128 << 48))));
        }
        us.sort();
        let zero_rate = if legacy { zero() } else { ru(c.zero_util_rate as u128) * ri(10) / crate::refm::u32max() };
        let full_rate = if legacy { fx(&c.max_interest_rate.value) } else { ru(c.hundred_util_rate as u128) * ri(10) / crate::refm::u32max() };
        // local slope bound for the derived tolerance
        let mut xs = vec![(zero(), zero_rate.clone())];
        if !legacy {
            for p in c.points.iter().filter(|p| p.util != 0) {
                xs.push((ru(p.util as u128) / crate::refm::u32max(), ru(p.rate as u128) * ri(10) / crate::refm::u32max()));
            }
        }
        xs.push((one(), full_rate.clone()));
        let mut max_slope = zero();
        for wn in xs.windows(2) {
            let dx = &wn[1].0 - &wn[0].0;
            if dx.is_positive() {
                max_slope = rmax(&max_slope, &((&wn[1].1 - &wn[0].1) / dx));
            }
        }
        let tol = ulp() * ri(16) * (one() + &max_slope);
        let mut prev: Option<(I80F48, I80F48)> = None;
        let mut sample_pts = vec![];
        for u in us {
            r.eval();
            let res = std::panic::catch_unwind(std::panic::AssertUnwindSafe(|| calc.calc_interest_rate(u)));
            let rates = match res {
                Ok(Some(x)) => x,
                Ok(None) => {
                    r.violate("C18", &format!("C18/{}/accepted-config-has-no-rate", if legacy { "legacy" } else { "seven-point" }), format!("u={} shape {} cfg zero {} hundred {} points {:?}", u, shape, c.zero_util_rate, c.hundred_util_rate, c.points));
                    continue;
                }
                Err(_) => {
                    r.violate("C18", &format!("C18/{}/accepted-config-panics", if legacy { "legacy" } else { "seven-point" }), format!("u={} shape {} cfg zero {} hundred {} points {:?}", u, shape, c.zero_util_rate, c.hundred_util_rate, c.points));
                    continue;
                }
            };
            let base = bits_to_rat(rates.base_rate_apr.to_bits());
            let urat = bits_to_rat(u.to_bits());
            let in_range = urat >= zero() && urat <= one();
            if legacy && !in_range {
                r.count("C18.legacy_out_of_range_utilisations_not_judged");
                continue;
            }
            if base < &zero_rate - &tol || base > &full_rate + &tol {
                r.violate("C18", "C18/rate-outside-zero-and-full-utilisation-rates", format!("u={} base {} zero {} full {} shape {}", u, show(&base), show(&zero_rate), show(&full_rate), shape));
            }
            match curve_base_rate(&c, &urat) {
                Some(exact) => {
                    let dev = abs(&(&base - &exact));
                    r.max("C18.max_deviation_over_tolerance", to_f64(&(&dev / &tol)));
                    if dev > tol {
                        r.violate("C18", "C18/rate-differs-from-exact-interpolation", format!("u={} base {} exact {} tol {} shape {} points {:?}", u, show(&base), show(&exact), show(&tol), shape, c.points));
                    }
                }
                None => r.count("C18.reference_undefined"),
            }
            if let Some((pu, pb)) = prev {
                if u >= pu && rates.base_rate_apr < pb {
                    r.violate("C18", "C18/rate-decreases-as-utilisation-rises", format!("u {} -> {} base {} -> {} shape {} points {:?}", pu, u, pb, rates.base_rate_apr, shape, c.points));
                }
            }
            prev = Some((u, rates.base_rate_apr));
            if rates.borrowing_rate_apr < rates.base_rate_apr {
                r.violate("C18", "C18/borrow-rate-below-base-rate", format!("u={} base {} borrow {}", u, rates.base_rate_apr, rates.borrowing_rate_apr));
            }
            if in_range && rates.lending_rate_apr > rates.base_rate_apr {
                r.violate("C18", "C18/lending-rate-above-base-rate", format!("u={} base {} lending {}", u, rates.base_rate_apr, rates.lending_rate_apr));
            }
            if sample_pts.len() < 6 {
                sample_pts.push(json!({"u": u.to_string(), "base": rates.base_rate_apr.to_string()}));
            }
        }
        // every configured point is hit exactly at its own (program-mapped) utilisation
        if !legacy {
            for p in c.points.iter().filter(|p| p.util != 0) {
                let x = I80F48::from_num(p.util) / I80F48::from_num(u32::MAX);
                if let Ok(Some(rt)) = std::panic::catch_unwind(std::panic::AssertUnwindSafe(|| calc.calc_interest_rate(x))) {
                    let want = ru(p.rate as u128) * ri(10) / crate::refm::u32max();
                    if abs(&(bits_to_rat(rt.base_rate_apr.to_bits()) - &want)) > ulp() * ri(32) {
                        r.violate("C18", "C18/configured-point-not-hit", format!("point {:?} base {} want {}", p, rt.base_rate_apr, show(&want)));
                    }
                    r.count("C18.configured_points_checked");
                }
            }
        }
        r.sample_kind(shape, json!({"zero": c.zero_util_rate, "hundred": c.hundred_util_rate, "points": c.points.iter().map(|p| (p.util, p.rate)).collect::<Vec<_>>(), "evaluations": sample_pts}));
    }
}
