#![allow(dead_code, unused_imports, unused_variables)]
pub use vcommon::{num, refm, report, state};
mod admin;
mod chain;
mod ix;
mod kinds;
mod matrix;
mod mon;
mod mon_admin;
mod mon_risk;
mod mon_venue;
mod scen;
mod shapes;
mod storm;
mod tap;
mod venue;
mod world;

use serde_json::json;
use std::time::{Duration, Instant};

pub struct Args {
    pub prop: String,
    /// optional workload selector given as `<PROP>:<mode>`
    pub mode: String,
    pub tier: String,
    pub seed: u64,
    pub shard: u64,
    pub nshards: u64,
    pub out: String,
    pub budget: Duration,
}

fn parse_args() -> Args {
    let a: Vec<String> = std::env::args().collect();
    let first = a.get(1).cloned().unwrap_or_default();
    let (prop, mode) = match first.split_once(':') {
        Some((p, m)) => (p.to_string(), m.to_string()),
        None => (first, String::new()),
    };
    let mut r = Args { prop, mode, tier: "quick".into(), seed: 1, shard: 0, nshards: 1, out: "/dev/stderr".into(), budget: Duration::from_secs(45) };
    let mut i = 2;
    while i < a.len() {
        let v = a.get(i + 1).cloned().unwrap_or_default();
        match a[i].as_str() {
            "--tier" => r.tier = v,
            "--seed" => r.seed = v.parse().unwrap_or(1),
            "--shard" => r.shard = v.parse().unwrap_or(0),
            "--nshards" => r.nshards = v.parse().unwrap_or(1),
            "--out" => r.out = v,
            "--budget-s" => r.budget = Duration::from_secs(v.parse().unwrap_or(45)),
            _ => {}
        }
        i += 2;
    }
    r
}

pub fn subseed(a: &Args, salt: u64) -> u64 {
    report::h64(&(a.seed, a.prop.as_str(), a.mode.as_str(), a.shard, salt))
}

async fn run_storm(a: &Args, m: &mut mon::Mon) {
    let t0 = Instant::now();
    let mut world_no = 0u64;
    while t0.elapsed() < a.budget {
        let seed = subseed(a, world_no);
        let mut r = storm::rng(seed);
        use rand::Rng;
        let cfg = storm::StormCfg { n_banks: r.gen_range(3..=6), n_users: r.gen_range(3..=6), program_fees: r.gen_bool(0.6), magnitude: storm::pick(&mut r, &[0u8, 1, 1, 1, 2]), with_staked: a.prop == "C16" && r.gen_bool(0.6), n_isolated: 1, emode: r.gen_bool(0.3), n_venue: if a.prop == "C02" && r.gen_bool(0.35) { 3 } else { 0 } };
        let (mut w, mut s) = storm::Storm::build(seed, cfg).await;
        let steps = if a.tier == "thorough" { 6000 } else { 1500 };
        for k in 0..steps {
            if k % 500 == 400 {
                // one bank sunset per 500 steps: token-less write-off, purge (C01 exception, C02, C03)
                w.refresh_oracles();
                let g = s.g;
                let nb = w.banks.len();
                let cands: Vec<usize> = (0..nb).filter(|b| scen::usable_collateral(&w, *b)).collect();
                let dbs: Vec<usize> = (0..nb).filter(|b| w.bank(*b).config.operational_state == marginfi_type_crate::types::BankOperationalState::Operational && w.bank(*b).config.asset_tag <= 1).collect();
                if !cands.is_empty() && dbs.len() > 1 {
                    let ca = storm::pick(&mut r, &cands);
                    let db = storm::pick(&mut r, &dbs);
                    if ca != db {
                        if let Some(lev) = scen::setup_leveraged(&mut w, m, &mut r, g, s.liquidator, ca, db, 0.8).await {
                            scen::sunset(&mut w, m, &mut r, &lev, g, s.liquidator).await;
                        }
                    }
                }
            }
            if matches!(a.prop.as_str(), "C16" | "C02" | "C03") && k % 500 == 200 {
                // a liquidation by a fresh account of the liquidator's wallet: it takes positions on in
                // banks it did not hold (two look-ups on one account inside one instruction)
                w.refresh_oracles();
                let g = s.g;
                let nb = w.banks.len();
                let cands: Vec<usize> = (0..nb).filter(|b| scen::usable_collateral(&w, *b)).collect();
                let dbs: Vec<usize> = (0..nb).filter(|b| w.bank(*b).config.operational_state == marginfi_type_crate::types::BankOperationalState::Operational && w.bank(*b).config.asset_tag <= 1).collect();
                if !cands.is_empty() && dbs.len() > 1 {
                    let ca = storm::pick(&mut r, &cands);
                    let db = storm::pick(&mut r, &dbs);
                    if ca != db {
                        if let Some(lev) = scen::setup_leveraged(&mut w, m, &mut r, g, s.liquidator, ca, db, 0.9).await {
                            let saved = scen::save_price(&w, ca);
                            let lu = w.accts[s.liquidator].user;
                            let lq = w.add_account(g, lu).await;
                            // a second one that holds the collateral bank only
                            let lq2 = w.add_account(g, lu).await;
                            let lk = w.auth_of(lq2);
                            use solana_sdk::signer::Signer as _;
                            let i = w.ix_deposit_any(lq2, ca, lk.pubkey(), w.ta_of(lq2, ca), storm::pick(&mut r, &[1u64 << 30, 1 << 34]));
                            let only_ca = w.exec(m, &[i], &[&lk]).await.ok();
                            // a third one that owes a little of the collateral asset: the seized collateral
                            // must net against that debt (one side per position)
                            let lq3 = w.add_account(g, lu).await;
                            let i = w.ix_deposit_any(lq3, db, lk.pubkey(), w.ta_of(lq3, db), storm::pick(&mut r, &[1u64 << 30, 1 << 36]));
                            let mut owes_ca = w.exec(m, &[i], &[&lk]).await.ok();
                            if owes_ca {
                                let i = w.ix_borrow(lq3, ca, lk.pubkey(), w.ta_of(lq3, ca), storm::pick(&mut r, &[50u64, 500, 5000]));
                                owes_ca = w.exec(m, &[i], &[&lk]).await.ok();
                            }
                            scen::liquidation(&mut w, m, &mut r, &lev, lq).await;
                            if owes_ca {
                                for amt in [20_000u64, 1_000_000] {
                                    let i = w.ix_liquidate_x(lq3, lev.acct, ca, db, lk.pubkey(), amt, None);
                                    let o = w.exec(m, &[i], &[&lk]).await;
                                    if o.ok() {
                                        m.r.count("C16.liquidations_by_debtor_of_collateral_bank");
                                        break;
                                    }
                                }
                            }
                            {
                                // a fourth one with a small deposit in the debt bank: the debt it takes
                                // over first eats that deposit and the remainder becomes its own debt
                                let lq4 = w.add_account(g, lu).await;
                                let small = storm::pick(&mut r, &[1u64, 100, 10_000]);
                                let i = w.ix_deposit_any(lq4, db, lk.pubkey(), w.ta_of(lq4, db), small);
                                let mut ok4 = w.exec(m, &[i], &[&lk]).await.ok();
                                if ok4 {
                                    // collateral of its own, so that it stays healthy with the new debt
                                    let i = w.ix_deposit_any(lq4, ca, lk.pubkey(), w.ta_of(lq4, ca), 1 << 34);
                                    ok4 = w.exec(m, &[i], &[&lk]).await.ok();
                                }
                                if ok4 {
                                    for amt in [20_000u64, 1_000_000, 50_000_000] {
                                        let i = w.ix_liquidate_x(lq4, lev.acct, ca, db, lk.pubkey(), amt, None);
                                        let o = w.exec(m, &[i], &[&lk]).await;
                                        if o.ok() {
                                            m.r.count("scen.liquidations_by_holder_of_a_small_deposit_in_the_debt_bank");
                                        }
                                    }
                                }
                            }
                            {
                                // a fifth one that holds a third bank only: the liquidation opens two
                                // positions next to the one it holds (every relative key order occurs)
                                let thirds: Vec<usize> = (0..nb).filter(|b| *b != ca && *b != db && w.banks[*b].venue.is_none() && w.bank(*b).config.asset_tag <= 1 && w.bank(*b).config.operational_state == marginfi_type_crate::types::BankOperationalState::Operational).collect();
                                for p3 in thirds.iter().take(3) {
                                    let lq5 = w.add_account(g, lu).await;
                                    let i = w.ix_deposit_any(lq5, *p3, lk.pubkey(), w.ta_of(lq5, *p3), 1 << 34);
                                    if w.exec(m, &[i], &[&lk]).await.ok() {
                                        for amt in [1000u64, 1_000_000] {
                                            let i = w.ix_liquidate_x(lq5, lev.acct, ca, db, lk.pubkey(), amt, None);
                                            let o = w.exec(m, &[i], &[&lk]).await;
                                            if o.ok() {
                                                m.r.count("C16.liquidations_by_holder_of_a_third_bank_only");
                                                break;
                                            }
                                            // the same call with the liquidator's observation accounts in
                                            // the order in which the positions are appended (held bank,
                                            // debt bank, collateral bank) instead of the sorted order
                                            let mut rem = w.mint_prefix(db);
                                            let mut lq_acc = w.bank_risk_metas(*p3);
                                            lq_acc.extend(w.bank_risk_metas(db));
                                            lq_acc.extend(w.bank_risk_metas(ca));
                                            let le_acc = w.risk_metas(lev.acct, None, None);
                                            let (n_le, n_lq) = (le_acc.len() as u8, lq_acc.len() as u8);
                                            rem.extend(lq_acc);
                                            rem.extend(le_acc);
                                            let gk5 = w.groups[g].key;
                                            let i = ix::liquidate(gk5, w.banks[ca].key, w.banks[db].key, w.accts[lq5].key, lk.pubkey(), w.accts[lev.acct].key, w.token_program_of_bank(db), amt, n_le, n_lq, rem);
                                            let o = w.exec(m, &[i], &[&lk]).await;
                                            m.r.count(if o.ok() { "C16.liquidations_with_observation_accounts_in_append_order_accepted" } else { "C16.liquidations_with_observation_accounts_in_append_order_refused" });
                                            if o.ok() {
                                                break;
                                            }
                                        }
                                    }
                                }
                            }
                            if only_ca {
                                for d in [None, Some(ca), Some(db)] {
                                    let i = w.ix_liquidate_x(lq2, lev.acct, ca, db, lk.pubkey(), storm::pick(&mut r, &[1u64, 1000]), d);
                                    let o = w.exec(m, &[i], &[&lk]).await;
                                    if o.ok() {
                                        m.r.count("C16.liquidations_by_holder_of_collateral_bank_only");
                                    }
                                }
                            }
                            scen::restore_price(&mut w, ca, saved);
                            m.r.count("C16.fresh_liquidator_scenarios");
                        }
                    }
                }
            }
            if k % 500 == 100 && matches!(a.prop.as_str(), "C01" | "C03") {
                // forced deleverage by the risk admin (partial and whole-debt repayments on a bank
                // that is not flagged for token-less repayment)
                w.refresh_oracles();
                let g = s.g;
                let nb = w.banks.len();
                let cands: Vec<usize> = (0..nb).filter(|b| scen::usable_collateral(&w, *b)).collect();
                let dbs: Vec<usize> = (0..nb).filter(|b| w.bank(*b).config.operational_state == marginfi_type_crate::types::BankOperationalState::Operational && w.bank(*b).config.asset_tag <= 1).collect();
                if !cands.is_empty() && dbs.len() > 1 {
                    let ca = storm::pick(&mut r, &cands);
                    let db = storm::pick(&mut r, &dbs);
                    if ca != db {
                        if let Some(lev) = scen::setup_leveraged(&mut w, m, &mut r, g, s.liquidator, ca, db, 0.5).await {
                            scen::deleverage(&mut w, m, &mut r, &lev, g).await;
                        }
                    }
                }
            }
            if k % 500 == 250 && a.prop == "C17" {
                w.refresh_oracles();
                scen::dust_debt_then_deposit_over_cap(&mut w, m, &mut r, s.g, s.liquidator).await;
            }
            if k == 1200 && matches!(a.prop.as_str(), "C02" | "C16" | "ALL") {
                w.refresh_oracles();
                scen::slot_saturation(&mut w, m, &mut r, s.g, s.liquidator).await;
            }
            if k % 500 == 50 && matches!(a.prop.as_str(), "C02" | "ALL") {
                w.refresh_oracles();
                scen::close_bank_cycle(&mut w, m, &mut r, s.g, s.liquidator).await;
            }
            if k % 500 == 350 && matches!(a.prop.as_str(), "C16" | "C01" | "C06") {
                // an account goes bankrupt (disabled), its owner moves it to a new address and tries to
                // act with it there: the disabled status follows the positions
                w.refresh_oracles();
                let g = s.g;
                let nb = w.banks.len();
                let cands: Vec<usize> = (0..nb).filter(|b| scen::usable_collateral(&w, *b)).collect();
                let dbs: Vec<usize> = (0..nb).filter(|b| w.bank(*b).config.operational_state == marginfi_type_crate::types::BankOperationalState::Operational && w.bank(*b).config.asset_tag <= 1).collect();
                if !cands.is_empty() && dbs.len() > 1 {
                    let ca = storm::pick(&mut r, &cands);
                    let db = storm::pick(&mut r, &dbs);
                    if ca != db {
                        if let Some(lev) = scen::setup_leveraged(&mut w, m, &mut r, g, s.liquidator, ca, db, 0.9).await {
                            scen::bankruptcy(&mut w, m, &mut r, &lev, g).await;
                            m.r.count("C16.bankruptcy_and_move_scenarios");
                        }
                    }
                }
            }
            if k == 300 && matches!(a.prop.as_str(), "C02" | "C01" | "C06" | "C16") && (world_no % 2 == 0 || a.prop == "C02" || a.prop == "C16") {
                // a bank is wiped out by bad debt half-way through (ledger / solvency exception / accrual on a dead bank)
                w.refresh_oracles();
                let lender = s.liquidator;
                let _ = scen::wipeout(&mut w, m, &mut r, s.g, lender).await;
            }
            s.step(&mut w, m).await;
            if t0.elapsed() >= a.budget {
                break;
            }
        }
        m.r.add("storm.steps", s.steps);
        m.r.add("storm.accepted_transactions", s.accepted);
        m.r.add("storm.worlds", 1);
        world_no += 1;
    }
}

/// Directed scenarios (leveraged borrower -> price shock -> liquidation / receivership /
/// bankruptcy) interleaved with storm steps so that the surrounding state stays diverse.
async fn run_scen(a: &Args, m: &mut mon::Mon) {
    use rand::Rng;
    let t0 = Instant::now();
    let mut world_no = 0u64;
    while t0.elapsed() < a.budget {
        let seed = subseed(a, world_no);
        let mut r = storm::rng(seed);
        let c04 = a.prop == "C04";
        let cfg = storm::StormCfg { n_banks: if c04 { r.gen_range(5..=8) } else { r.gen_range(3..=5) }, n_users: 2, program_fees: r.gen_bool(0.6), magnitude: 1, with_staked: c04 && r.gen_bool(0.4), n_isolated: if c04 { 2 } else { 1 }, emode: c04 || r.gen_bool(0.3), n_venue: 0 };
        let (mut w, mut s) = storm::Storm::build(seed, cfg).await;
        let g = s.g;
        let lq = s.liquidator;
        let rounds = if a.tier == "thorough" { 40 } else { 12 };
        if a.prop == "C05" {
            scen::flat_liquidation(&mut w, m, &mut r, g, lq).await;
            scen::emode_liquidator(&mut w, m, &mut r, g, lq).await;
        }
        for _ in 0..rounds {
            if t0.elapsed() >= a.budget {
                break;
            }
            for _ in 0..r.gen_range(0..30) {
                s.step(&mut w, m).await;
            }
            w.refresh_oracles();
            let nb = w.banks.len();
            let cands: Vec<usize> = (0..nb).filter(|b| scen::usable_collateral(&w, *b)).collect();
            if cands.is_empty() {
                break;
            }
            let ca = storm::pick(&mut r, &cands);
            let dbs: Vec<usize> = (0..nb).filter(|b| *b != ca && w.bank(*b).config.operational_state == marginfi_type_crate::types::BankOperationalState::Operational).collect();
            if dbs.is_empty() {
                break;
            }
            let mut db = storm::pick(&mut r, &dbs);
            let mut ca = ca;
            if a.prop == "C04" {
                // staked collateral (valued from the SOL price and the pool's redeemable stake) against
                // a SOL-class debt
                let staked: Vec<usize> = (0..nb).filter(|b| matches!(w.banks[*b].oracle, world::OracleD::Staked { .. }) && w.bank(*b).config.operational_state == marginfi_type_crate::types::BankOperationalState::Operational).collect();
                let sol: Vec<usize> = (0..nb).filter(|b| w.bank(*b).config.asset_tag == 1 && w.bank(*b).config.operational_state == marginfi_type_crate::types::BankOperationalState::Operational).collect();
                if !staked.is_empty() && !sol.is_empty() && r.gen_bool(0.35) {
                    ca = storm::pick(&mut r, &staked);
                    db = storm::pick(&mut r, &sol);
                    m.r.count("scen.staked_collateral_rounds");
                } else if r.gen_bool(0.7) {
                    scen::portfolio(&mut w, m, &mut r, g, lq).await;
                    continue;
                }
            }
            let frac = storm::pick(&mut r, &[1.0f64, 0.999, 0.95, 0.7, 0.3]);
            let lev = match scen::setup_leveraged(&mut w, m, &mut r, g, lq, ca, db, frac).await {
                Some(l) => l,
                None => {
                    m.r.count("scen.setup_failed");
                    continue;
                }
            };
            match a.prop.as_str() {
                "C05" => scen::liquidation(&mut w, m, &mut r, &lev, lq).await,
                "C09" => {
                    // hostile oracle conditions around valuation-consuming instructions
                    scen::oracle_faults(&mut w, m, &mut r, &lev, lq, g).await
                }
                "C07" => {
                    if r.gen_bool(0.5) {
                        // the account owes in a second bank as well: settling one debt disables the
                        // account although it still owes elsewhere
                        let others: Vec<usize> = (0..nb).filter(|b| *b != lev.ca && *b != lev.db && w.banks[*b].venue.is_none() && w.bank(*b).config.asset_tag <= 1 && w.bank(*b).config.risk_tier == marginfi_type_crate::types::RiskTier::Collateral && w.bank(*b).config.operational_state == marginfi_type_crate::types::BankOperationalState::Operational).collect();
                        if !others.is_empty() && w.bank(lev.db).config.risk_tier == marginfi_type_crate::types::RiskTier::Collateral {
                            use solana_sdk::signer::Signer as _;
                            let db2 = storm::pick(&mut r, &others);
                            let lk = w.auth_of(lq);
                            let i = w.ix_deposit(lq, db2, lk.pubkey(), w.ta_of(lq, db2), 1 << 24, None);
                            let _ = w.exec(m, &[i], &[&lk]).await;
                            let auth = w.auth_of(lev.acct);
                            let mut second = false;
                            for amt in [100_000u64, 1000, 10] {
                                let i = w.ix_borrow(lev.acct, db2, auth.pubkey(), w.ta_of(lev.acct, db2), amt);
                                if w.exec(m, &[i], &[&auth]).await.ok() {
                                    second = true;
                                    break;
                                }
                            }
                            m.r.count(if second { "scen.bankruptcy_of_account_with_second_debt" } else { "scen.second_debt_not_possible" });
                        }
                    }
                    scen::bankruptcy(&mut w, m, &mut r, &lev, g).await;
                    if r.gen_bool(0.15) {
                        scen::wipeout(&mut w, m, &mut r, g, lq).await;
                    }
                }
                "C10" => {
                    let ru = w.accts[lq].user;
                    if r.gen_bool(0.25) {
                        // rewards inside the bracket (claimed by the receiver, by the co-signing owner,
                        // settled by anybody): the bracket admits withdraw and repay only
                        let mut ad = admin::Admin { g, emint: None, steps: 0 };
                        ad.emissions_in_receivership(&mut w, m, &mut r, &lev, ru).await;
                    }
                    scen::receivership(&mut w, m, &mut r, &lev, ru).await
                }
                _ => {
                    if r.gen_bool(0.4) {
                        scen::reduce_only_probe(&mut w, m, &mut r, &lev, g).await;
                    }
                    // C04: also locate the withdraw boundary of the collateral
                    let auth = w.auth_of(lev.acct);
                    let (acct, ca) = (lev.acct, lev.ca);
                    let ta = w.ta_of(acct, ca);
                    let ak = { use solana_sdk::signature::Signer; auth.pubkey() };
                    let hi = s.position(&w, acct, ca).0;
                    let mx = scen::bisect_max(&mut w, m, &[&auth], hi, |w, x| vec![w.ix_withdraw(acct, ca, ak, ta, x, None)]).await;
                    if let Some(x) = mx {
                        m.r.count("scen.withdraw_boundary_found");
                        let i = w.ix_withdraw(acct, ca, ak, ta, x, None);
                        let _ = w.exec(m, &[i], &[&auth]).await;
                    }
                    if r.gen_bool(0.5) {
                        scen::age_boundary(&mut w, m, &lev).await;
                    }
                    match r.gen_range(0..3) {
                        0 => scen::liquidation(&mut w, m, &mut r, &lev, lq).await,
                        _ => {}
                    }
                }
            }
        }
        m.r.add("storm.steps", s.steps);
        m.r.add("storm.worlds", 1);
        world_no += 1;
    }
}

/// Administrative workload (C12 / C13 / C19 and the attribution part of C08): admin instructions
/// with hostile arguments by entitled and non-entitled signers, interleaved with user activity,
/// plus the directed staked-settings, deleverage and wipe-out scenarios.
async fn run_admin(a: &Args, m: &mut mon::Mon) {
    use rand::Rng;
    let t0 = Instant::now();
    let mut world_no = 0u64;
    while t0.elapsed() < a.budget {
        let seed = subseed(a, world_no);
        let mut r = storm::rng(seed);
        let cfg = storm::StormCfg { n_banks: r.gen_range(3..=5), n_users: 3, program_fees: r.gen_bool(0.7), magnitude: 1, with_staked: false, n_isolated: 1, emode: false, n_venue: 0 };
        let (mut w, mut s) = storm::Storm::build(seed, cfg).await;
        let g = s.g;
        // C19 worlds take the identity probes too (every other world): who may re-point a fee
        // destination or draw a fee vault down is judged by that check's own monitors
        if a.prop == "C08" || (a.prop == "C19" && world_no % 2 == 1) {
            w.enable_impostor().await;
        }
        let mut ad = admin::Admin { g, emint: None, steps: 0 };
        let rounds = if a.tier == "thorough" { 3000 } else { 700 };
        let mut staked_done = false;
        for k in 0..rounds {
            if t0.elapsed() >= a.budget {
                break;
            }
            match r.gen_range(0..100) {
                0..=49 => s.step(&mut w, m).await,
                50..=89 => {
                    ad.step(&mut w, m, &mut r).await;
                }
                90..=94 => ad.emissions_user(&mut w, m, &mut r).await,
                _ => {}
            }
            if (k == 100 || (k > 100 && r.gen_bool(0.002))) && matches!(a.prop.as_str(), "C12" | "C13") && !staked_done {
                staked_done = true;
                admin::staked_flow(&mut w, m, &mut r, g).await;
            }
            if k % 150 == 149 && matches!(a.prop.as_str(), "C12" | "C13" | "C19" | "C08") {
                w.refresh_oracles();
                let nb = w.banks.len();
                let cands: Vec<usize> = (0..nb).filter(|b| scen::usable_collateral(&w, *b)).collect();
                let dbs: Vec<usize> = (0..nb).filter(|b| w.bank(*b).config.operational_state == marginfi_type_crate::types::BankOperationalState::Operational && w.bank(*b).config.asset_tag <= 1).collect();
                if !cands.is_empty() && dbs.len() > 1 {
                    let ca = storm::pick(&mut r, &cands);
                    let db = storm::pick(&mut r, &dbs);
                    if ca != db {
                        if let Some(lev) = scen::setup_leveraged(&mut w, m, &mut r, g, s.liquidator, ca, db, 0.9).await {
                            if a.prop == "C19" || a.prop == "C08" {
                                let ru = w.accts[s.liquidator].user;
                                ad.emissions_in_receivership(&mut w, m, &mut r, &lev, ru).await;
                            }
                            if a.prop == "C12" {
                                scen::whale_deleverage(&mut w, m, &mut r, g, s.liquidator, ca, db).await;
                                scen::scale_price_any(&mut w, ca, 0.7).await;
                                scen::deleverage(&mut w, m, &mut r, &lev, g).await;
                                if r.gen_bool(0.4) {
                                    scen::sunset(&mut w, m, &mut r, &lev, g, s.liquidator).await;
                                }
                            }
                        }
                    }
                }
            }
            if k % 100 == 60 && a.prop == "C18" {
                admin::legacy_curve_migration(&mut w, m, &mut r, g).await;
            }
            if k % 200 == 150 && a.prop == "C08" {
                w.refresh_oracles();
                scen::tokenless_stranger(&mut w, m, &mut r, g, s.liquidator).await;
            }
            if k % 120 == 90 && a.prop == "C19" {
                admin::fee_wallet_rotation(&mut w, m, &mut r, g).await;
            }
            if k == 400 && a.prop == "C13" {
                scen::wipeout(&mut w, m, &mut r, g, s.liquidator).await;
            }
            if k % 200 == 120 && a.prop == "C13" {
                w.refresh_oracles();
                scen::emode_overlap(&mut w, m, &mut r, g, s.liquidator).await;
            }
        }
        m.r.add("storm.steps", s.steps);
        m.r.add("admin.steps", ad.steps);
        m.r.add("storm.worlds", 1);
        world_no += 1;
    }
}

/// Pass-through (venue) workload: worlds with Kamino banks served by the stateful venue stand-in.
/// Storm steps (venue deposits / withdrawals / yield / slot progress / rounding faults) are
/// interleaved with directed probes: integration-cap saturation, deposit-withdraw round trips,
/// borrow boundaries against venue collateral (fresh and stale reserve), liquidation of it.
async fn run_venue(a: &Args, m: &mut mon::Mon) {
    use rand::Rng;
    use solana_sdk::signature::Signer;
    let t0 = Instant::now();
    let mut world_no = 0u64;
    while t0.elapsed() < a.budget {
        let seed = subseed(a, world_no);
        let mut r = storm::rng(seed);
        let cfg = storm::StormCfg { n_banks: r.gen_range(2..=3), n_users: 3, program_fees: r.gen_bool(0.5), magnitude: storm::pick(&mut r, &[0u8, 1, 1, 1]), with_staked: false, n_isolated: 0, emode: false, n_venue: storm::pick(&mut r, &[2usize, 4, 10, 10]) };
        let (mut w, mut s) = storm::Storm::build(seed, cfg).await;
        let g = s.g;
        let lq = s.liquidator;
        let kbanks: Vec<usize> = (0..w.banks.len()).filter(|b| w.banks[*b].venue.is_some()).collect();
        let rounds = if a.tier == "thorough" { 60 } else { 16 };
        for _ in 0..rounds {
            if t0.elapsed() >= a.budget {
                break;
            }
            for _ in 0..r.gen_range(10..60) {
                s.step(&mut w, m).await;
            }
            venue::KAMINO_FAULT.store(0, std::sync::atomic::Ordering::Relaxed);
            venue::SOLEND_FAULT.store(0, std::sync::atomic::Ordering::Relaxed);
            w.venue_autorefresh = true;
            w.refresh_oracles();
            let branch = if matches!(a.prop.as_str(), "C04" | "C05") { 3 } else { r.gen_range(0..4) };
            match branch {
                0 => {
                    // integration-cap saturation: one account enters every venue bank in turn
                    let acct = r.gen_range(0..w.accts.len());
                    let auth = w.auth_of(acct);
                    let mut order = kbanks.clone();
                    for i in (1..order.len()).rev() {
                        order.swap(i, r.gen_range(0..=i));
                    }
                    let mut accepted = 0u64;
                    for b in order {
                        let ta = w.ta_of(acct, b);
                        let i = w.ix_venue_deposit(acct, b, auth.pubkey(), ta, storm::pick(&mut r, &[1000u64, 1_000_000, 5]));
                        if w.exec(m, &[i], &[&auth]).await.ok() {
                            accepted += 1;
                        }
                    }
                    let n = w.acct(acct).lending_account.balances.iter().filter(|b| b.active != 0 && b.bank_asset_tag >= 3).count();
                    m.r.max("venue.max_integration_positions_of_one_account", n as f64);
                    m.r.add("venue.cap_probe_deposits_accepted", accepted);
                    m.r.count("venue.cap_probes");
                    if n == 8 && kbanks.len() > 8 {
                        m.r.count("venue.cap_probes_saturated_at_8");
                    }
                }
                1 => {
                    // deposit -> withdraw-all round trip at the current venue rate
                    let acct = r.gen_range(0..w.accts.len());
                    let b = storm::pick(&mut r, &kbanks);
                    let auth = w.auth_of(acct);
                    let ta = w.ta_of(acct, b);
                    if s.position(&w, acct, b).0 == 0 {
                        let t_before = w.token(&ta);
                        let base = storm::pick(&mut r, &[1000u64, 1_000_000, 1 << 30]);
                        let amt = storm::amount_near(&mut r, base).min(t_before);
                        let i = w.ix_venue_deposit(acct, b, auth.pubkey(), ta, amt);
                        if amt > 0 && w.exec(m, &[i], &[&auth]).await.ok() {
                            // drip: a few withdrawals of the smallest amounts first (the place where
                            // a conversion that rounds a tiny amount to "nothing burnt" would pay out)
                            for _ in 0..r.gen_range(0..4) {
                                let tiny = storm::pick(&mut r, &[1u64, 1, 2, 3]);
                                let i = w.ix_venue_withdraw(acct, b, auth.pubkey(), ta, tiny, None);
                                if w.exec(m, &[i], &[&auth]).await.ok() {
                                    m.r.count("C20.chain_round_trip_drip_withdrawals_accepted");
                                }
                            }
                            let i = w.ix_venue_withdraw(acct, b, auth.pubkey(), ta, 0, Some(true));
                            if w.exec(m, &[i], &[&auth]).await.ok() {
                                let t_after = w.token(&ta);
                                m.r.eval();
                                m.r.count("C20.chain_round_trips");
                                m.r.max("C20.chain_round_trip_max_loss_units", (t_before as f64) - (t_after as f64));
                                if t_after > t_before {
                                    m.r.violate("C20", "C20/round-trip/deposit-then-withdraw-all-returned-more", format!("bank {}: deposited {} and got back {} more than was put in", w.banks[b].key, amt, t_after - t_before));
                                }
                            }
                        }
                    }
                }
                _ => {
                    // venue collateral backing a loan: borrow boundary with a fresh reserve, then
                    // with a reserve that was not refreshed in the current slot
                    let cands: Vec<usize> = kbanks.iter().cloned().filter(|b| scen::usable_collateral_any(&w, *b)).collect();
                    let dbs: Vec<usize> = (0..w.banks.len()).filter(|b| w.banks[*b].venue.is_none() && w.bank(*b).config.operational_state == marginfi_type_crate::types::BankOperationalState::Operational).collect();
                    if cands.is_empty() || dbs.is_empty() {
                        continue;
                    }
                    let (ca, db) = (storm::pick(&mut r, &cands), storm::pick(&mut r, &dbs));
                    let frac = storm::pick(&mut r, &[1.0f64, 0.999, 0.9, 0.5]);
                    if let Some(lev) = scen::setup_leveraged(&mut w, m, &mut r, g, lq, ca, db, frac).await {
                        m.r.count("venue.leveraged_on_venue_collateral");
                        let auth = w.auth_of(lev.acct);
                        let ak = auth.pubkey();
                        // withdraw boundary of the venue collateral
                        let ta = w.ta_of(lev.acct, ca);
                        let hi = s.position(&w, lev.acct, ca).0;
                        let acct = lev.acct;
                        if let Some(x) = scen::bisect_max(&mut w, m, &[&auth], hi, |w, x| vec![w.ix_venue_withdraw(acct, ca, ak, ta, x, None)]).await {
                            m.r.count("venue.withdraw_boundary_found");
                            let _ = x;
                        }
                        // the reserve goes stale: anything that needs its price must now fail
                        let slot = w.chain.clock.slot + 1;
                        w.chain.set_clock_slot(slot);
                        w.chain.advance(1); // Drift markets go stale by the second, reserves by the slot
                        w.venue_autorefresh = false;
                        w.refresh_oracles();
                        let tb = w.ta_of(acct, db);
                        let i = w.ix_borrow(acct, db, ak, tb, 1);
                        let o = w.probe(m, &[i], &[&auth]).await;
                        m.r.count(if o.ok() { "venue.stale_reserve_borrow_accepted" } else { "venue.stale_reserve_borrow_rejected" });
                        let i = w.ix_venue_withdraw(acct, ca, ak, ta, 1, None);
                        let o = w.probe(m, &[i], &[&auth]).await;
                        m.r.count(if o.ok() { "venue.stale_reserve_withdraw_accepted" } else { "venue.stale_reserve_withdraw_rejected" });
                        // ... also when the price account itself is older than the venue's last refresh
                        // (staleness is measured against the current slot / second, not against the price)
                        if let world::OracleD::Venue { oracle, .. } = w.banks[ca].oracle.clone() {
                            if let Some(p) = w.pyth.get(&oracle).cloned() {
                                let now = w.chain.now();
                                w.set_pyth(&oracle, world::PythPx { publish_time: now - storm::pick(&mut r, &[2i64, 5, 20]), ..p });
                                let i = w.ix_borrow(acct, db, ak, tb, 1);
                                let o = w.probe(m, &[i], &[&auth]).await;
                                m.r.count(if o.ok() { "venue.stale_reserve_older_price_borrow_accepted" } else { "venue.stale_reserve_older_price_borrow_rejected" });
                                let i = w.ix_venue_withdraw(acct, ca, ak, ta, 1, None);
                                let o = w.probe(m, &[i], &[&auth]).await;
                                m.r.count(if o.ok() { "venue.stale_reserve_older_price_withdraw_accepted" } else { "venue.stale_reserve_older_price_withdraw_rejected" });
                            }
                        }
                        w.venue_autorefresh = true;
                        w.refresh_oracles();
                        if r.gen_bool(0.5) || a.prop == "C05" {
                            m.r.count("venue.liquidations_of_venue_collateral_attempted");
                            scen::liquidation(&mut w, m, &mut r, &lev, lq).await;
                        }
                    }
                }
            }
        }
        m.r.add("storm.steps", s.steps);
        m.r.add("storm.accepted_transactions", s.accepted);
        m.r.add("storm.worlds", 1);
        m.r.add("venue.kamino_standin_calls", venue::KAMINO_CALLS.swap(0, std::sync::atomic::Ordering::Relaxed));
        m.r.add("venue.solend_standin_calls", venue::SOLEND_CALLS.swap(0, std::sync::atomic::Ordering::Relaxed));
        m.r.add("venue.drift_standin_calls", venue::DRIFT_CALLS.swap(0, std::sync::atomic::Ordering::Relaxed));
        world_no += 1;
    }
}

/// C15 on chain: the three pause handlers driven through long random sequences of pause orders
/// (by the fee admin and by strangers), admin and permissionless unpauses, propagations and clock
/// steps at the 30 minute / 24 hour boundaries +-1 second.
async fn run_pause_chain(a: &Args, m: &mut mon::Mon) {
    use rand::Rng;
    use solana_sdk::signature::Signer;
    let t0 = Instant::now();
    let mut world_no = 0u64;
    while t0.elapsed() < a.budget {
        let seed = subseed(a, world_no);
        let mut r = storm::rng(seed);
        let mut w = world::World::new(seed, 1_700_000_000, world::FeeCfg::default()).await;
        let g = w.add_group().await;
        let gk = w.groups[g].key;
        let mut fa = world::clone_kp(&w.fee_admin);
        // a second key the fee admin controls: the role is handed back and forth between the two
        let mut fb = w.next_kp();
        let u = w.add_user(0).await;
        let stranger = w.user_kp(u);
        // a small market whose users feel the pause: a depositor who also owes a little
        let (mc, md) = (w.add_mint(6, world::TokKind::Classic).await, w.add_mint(6, world::TokKind::Classic).await);
        let now = w.chain.now();
        let ca = w.add_bank_pyth(g, mc, world::default_bank_cfg(), world::PythPx::simple(1_000_000, -6, now)).await.expect("bank");
        let db = w.add_bank_pyth(g, md, world::default_bank_cfg(), world::PythPx::simple(1_000_000, -6, now)).await.expect("bank");
        w.create_ata(w.fee_wallet.pubkey(), mc).await;
        w.create_ata(w.fee_wallet.pubkey(), md).await;
        let uu = w.add_user(1 << 40).await;
        let acct = w.add_account(g, uu).await;
        let auth = w.auth_of(acct);
        {
            let i = w.ix_deposit(acct, ca, auth.pubkey(), w.ta_of(acct, ca), 1u64 << 34, None);
            let o = w.exec(m, &[i], &[&auth]).await;
            assert!(o.ok(), "pause-chain market: deposit failed: {}", o.err_string());
            // somebody else lends what the user borrows
            let uu2 = w.add_user(1 << 40).await;
            let acct2 = w.add_account(g, uu2).await;
            let auth2 = w.auth_of(acct2);
            let i = w.ix_deposit(acct2, db, auth2.pubkey(), w.ta_of(acct2, db), 1 << 34, None);
            let o = w.exec(m, &[i], &[&auth2]).await;
            assert!(o.ok(), "pause-chain market: lender's deposit failed: {}", o.err_string());
        }
        let i = w.ix_borrow(acct, db, auth.pubkey(), w.ta_of(acct, db), 1 << 20);
        let o = w.exec(m, &[i], &[&auth]).await;
        assert!(o.ok(), "pause-chain market: borrow failed: {}", o.err_string());
        let steps = if a.tier == "thorough" { 4000 } else { 600 };
        for _ in 0..steps {
            if t0.elapsed() >= a.budget {
                break;
            }
            match r.gen_range(0..11) {
                10 => {
                    // "whatever the global fee admin does": the admin role moves to the other key,
                    // every other setting of the fee state stays as it is
                    use vcommon::state::fee_state_of;
                    if let Some(fs) = w.shadow.get(&ix::fee_state_key()).and_then(|a| fee_state_of(&a.data)) {
                        let i = ix::edit_fee_state(fa.pubkey(), fb.pubkey(), fs.global_fee_wallet, fs.bank_init_flat_sol_fee, fs.liquidation_flat_sol_fee, fs.program_fee_fixed, fs.program_fee_rate, fs.liquidation_max_fee);
                        let o = w.exec(m, &[i], &[&fa]).await;
                        if o.ok() {
                            std::mem::swap(&mut fa, &mut fb);
                            m.r.count("C15.chain_admin_handovers");
                        }
                    }
                }
                0..=2 => {
                    let s = if r.gen_bool(0.9) { world::clone_kp(&fa) } else { world::clone_kp(&stranger) };
                    let _ = w.exec(m, &[ix::panic_pause(s.pubkey())], &[&s]).await;
                }
                3..=5 => {
                    let dt = storm::pick(&mut r, &[0i64, 1, 1, 599, 1799, 1800, 1801, 3599, 3600, 3601, 43_200, 82_800, 84_599, 84_600, 84_601, 86_399, 86_400, 86_401, 90_000]);
                    w.chain.advance(dt);
                }
                6 => {
                    let s = if r.gen_bool(0.9) { world::clone_kp(&fa) } else { world::clone_kp(&stranger) };
                    let _ = w.exec(m, &[ix::panic_unpause(s.pubkey())], &[&s]).await;
                }
                7 | 8 => {
                    let _ = w.exec(m, &[ix::panic_unpause_permissionless()], &[]).await;
                }
                _ => {
                    let _ = w.exec(m, &[ix::propagate_fee(gk)], &[]).await;
                }
            }
            // the users of the market: every gated instruction, simulated (a refusal as "paused"
            // is judged against the pause the group's own cache records)
            if r.gen_bool(0.5) {
                w.refresh_oracles();
                let ak = auth.pubkey();
                let ixs = [
                    w.ix_deposit(acct, ca, ak, w.ta_of(acct, ca), 1000, None),
                    w.ix_withdraw(acct, ca, ak, w.ta_of(acct, ca), 1000, None),
                    w.ix_borrow(acct, db, ak, w.ta_of(acct, db), 1000),
                    w.ix_repay(acct, db, ak, w.ta_of(acct, db), 1000, None),
                ];
                for i in ixs {
                    let o = w.probe(m, &[i], &[&auth]).await;
                    m.r.count(if o.ok() { "C15.chain_user_probes_accepted" } else { "C15.chain_user_probes_refused" });
                }
            }
        }
        m.r.add("pause_chain.worlds", 1);
        world_no += 1;
    }
}

/// Matrices over twin groups (C08: signer x substitution; C14: bank state x pause timing).
async fn run_matrix(a: &Args, m: &mut mon::Mon) {
    use rand::Rng;
    let t0 = Instant::now();
    let mut world_no = 0u64;
    while t0.elapsed() < a.budget {
        let seed = subseed(a, world_no);
        let mut r = storm::rng(seed);
        let (mut w, t) = matrix::build_twin_v(seed, &mut r, true).await;
        if a.prop == "C08" {
            w.enable_impostor().await;
            matrix::run_c08(&mut w, m, &mut r, &t).await;
        } else {
            // the wipe-out (killed-bank cells) comes first in every other world so that it is
            // reached even when the machine is loaded
            let first = world_no % 2 == 1;
            if first {
                let lender = t.liquidator0;
                scen::wipeout(&mut w, m, &mut r, t.g0, lender).await;
            }
            matrix::run_c14(&mut w, m, &mut r, &t).await;
            if !first && t0.elapsed() < a.budget {
                let lender = t.liquidator0;
                scen::wipeout(&mut w, m, &mut r, t.g0, lender).await;
            }
        }
        m.r.add("matrix.worlds", 1);
        world_no += 1;
    }
}

/// Transaction-shape enumeration for the bracket properties.
async fn run_shapes(a: &Args, m: &mut mon::Mon) {
    use rand::Rng;
    let t0 = Instant::now();
    let mut world_no = 0u64;
    let thorough = a.tier == "thorough";
    while t0.elapsed() < a.budget {
        let seed = subseed(a, world_no);
        let mut r = storm::rng(seed);
        let (mut w, t) = matrix::build_twin(seed, &mut r).await;
        if a.prop == "C11" {
            // first world of shard 0 enumerates exhaustively; the others sample longer shapes
            let ex = if world_no == 0 && a.shard == 0 { if thorough { 4 } else { 3 } } else { 2 };
            shapes::run_c11(&mut w, m, &mut r, &t, if thorough { 7 } else { 6 }, ex, if thorough { 6000 } else { 1500 }).await;
        } else {
            let ex = if world_no == 0 && a.shard <= 2 { if thorough { 4 } else { 3 } } else { 2 };
            let with_record = (a.shard + world_no) % 2 == 0;
            shapes::run_c10(&mut w, m, &mut r, &t, if thorough { 7 } else { 6 }, ex, if thorough { 6000 } else { 1500 }, with_record).await;
        }
        m.r.add("shapes.worlds", 1);
        world_no += 1;
    }
}

#[tokio::main(flavor = "current_thread")]
async fn main() {
    if std::env::var("RUST_LOG").is_err() {
        std::env::set_var("RUST_LOG", "off");
    }
    // program panics are caught by the runtime wrapper; keep them quiet, but show harness panics
    std::panic::set_hook(Box::new(|i| {
        let loc = i.location().map(|l| format!("{}:{}", l.file(), l.line())).unwrap_or_default();
        let msg = i.payload().downcast_ref::<&str>().map(|s| s.to_string()).or_else(|| i.payload().downcast_ref::<String>().cloned()).unwrap_or_default();
        // first frame that belongs to the program under test (symbol names survive without debug
        // info). Symbolising a backtrace costs milliseconds, so it is done once per panic location
        // and message (the frame does not change between occurrences).
        static FRAMES: std::sync::Mutex<Option<std::collections::HashMap<String, String>>> = std::sync::Mutex::new(None);
        let key = format!("{}|{}", loc, msg.chars().take(40).collect::<String>());
        let mut guard = FRAMES.lock().unwrap();
        let map = guard.get_or_insert_with(Default::default);
        let frame = match map.get(&key) {
            Some(f) => f.clone(),
            None => {
                let bt = std::backtrace::Backtrace::force_capture().to_string();
                let f = bt.lines().map(|l| l.trim()).find(|l| (l.contains("marginfi::") || l.contains("marginfi_type_crate::") || l.contains("_mocks::")) && !l.contains("rig1::")).map(|l| l.splitn(2, ": ").nth(1).unwrap_or(l).to_string()).unwrap_or_default();
                map.insert(key, f.clone());
                f
            }
        };
        drop(guard);
        let short_loc = loc.rsplit("/registry/src/").next().map(|x| x.splitn(2, '/').nth(1).unwrap_or(x).to_string()).unwrap_or(loc.clone());
        let short_msg: String = msg.chars().take(60).collect();
        *tap::LAST_PANIC.lock().unwrap() = Some(format!("{} | {} | {}", short_msg, short_loc, frame));
        if std::env::var("VERIF_ALL_PANICS").is_ok() || loc.contains("/verif/") || loc.starts_with("rig") || loc.starts_with("vcommon") {
            eprintln!("HARNESS PANIC: {}", i);
        }
    }));
    assert_eq!(ix::MFI, marginfi::ID);
    let a = parse_args();
    let t0 = Instant::now();
    let on: Vec<&'static str> = match a.prop.as_str() {
        "C01" => vec!["C01"],
        "C02" => vec!["C02"],
        "C03" => vec!["C03"],
        "C06" => vec!["C06"],
        "C16" => vec!["C16"],
        "C17" => vec!["C17"],
        "C04" => vec!["C04"],
        "C05" => vec!["C05"],
        "C07" => vec!["C07"],
        "C10" => vec!["C10"],
        "C09" => vec!["C09", "C04", "C05", "C07", "C10"],
        "C08" => vec!["C08"],
        "C12" => vec!["C12"],
        "C13" => vec!["C13"],
        "C14" => vec!["C14"],
        "C19" => vec!["C19"],
        "C11" => vec!["C11"],
        "C18" => vec!["C18"],
        "C15" => vec!["C15"],
        "C20" => vec!["C20", "C16", "C04", "C05", "C02"],
        "ALL" => vec!["C01", "C02", "C03", "C06", "C16", "C17", "C04", "C05", "C07", "C10", "C11"],
        _ => vec![],
    };
    let mut m = mon::Mon::new(&a.prop, &on);
    if a.mode == "venue" && !m.on.contains("C20") {
        m.on.insert("C20");
    }
    // The engines stop by themselves when the budget is used up. A soft limit well beyond it guards
    // against a request that never returns (the banks server polls for a status the runtime never
    // records, or the machine is overloaded): the engine is dropped with that request in flight and
    // everything judged up to then is reported (a transaction in flight has not been judged).
    let soft = a.budget + std::cmp::max(a.budget, Duration::from_secs(120));
    let finished = {
        let engine = async {
            match a.prop.as_str() {
                _ if a.mode == "venue" => run_venue(&a, &mut m).await,
                "C20" => run_venue(&a, &mut m).await,
                "C01" | "C02" | "C03" | "C06" | "C16" | "C17" | "ALL" => run_storm(&a, &mut m).await,
                "C11" => {
                    if a.shard % 2 == 0 {
                        run_shapes(&a, &mut m).await
                    } else {
                        run_storm(&a, &mut m).await
                    }
                }
                "C10" => {
                    if a.shard % 2 == 0 {
                        run_shapes(&a, &mut m).await
                    } else {
                        run_scen(&a, &mut m).await
                    }
                }
                "C04" | "C05" | "C07" | "C09" => run_scen(&a, &mut m).await,
                "C12" | "C13" | "C18" | "C19" => run_admin(&a, &mut m).await,
                "C15" => run_pause_chain(&a, &mut m).await,
                "C08" | "C14" => {
                    if a.shard % 2 == 0 {
                        run_matrix(&a, &mut m).await
                    } else if a.prop == "C08" {
                        run_admin(&a, &mut m).await
                    } else {
                        run_storm(&a, &mut m).await
                    }
                }
                p => {
                    eprintln!("unknown property {}", p);
                    std::process::exit(3);
                }
            }
        };
        tokio::time::timeout(soft, engine).await.is_ok()
    };
    if !finished {
        m.r.count("harness.workers_stopped_at_soft_time_limit");
        m.r.note("worker stopped at the soft time limit with a request in flight; observations up to then are reported");
    }
    for (k, n) in m.ix_seen.iter() {
        m.r.add(&format!("ix_ok/{}", k.name()), *n);
    }
    let mut rej: Vec<_> = m.rejects.iter().collect();
    rej.sort();
    for ((k, c), n) in rej {
        m.r.add(&format!("ix_rejected/{}/{}", k.name(), c), *n);
    }
    let mut ps: Vec<_> = m.panic_sites.iter().collect();
    ps.sort();
    for ((k, site), n) in ps {
        m.r.add(&format!("program_panic/{}/{}", k.name(), site), *n);
    }
    m.r.add("tx_committed", m.tx_committed);
    m.r.add("tx_rejected", m.tx_rejected);
    m.r.add("instructions_inside_flashloan_or_receivership", m.ix_in_bracket);
    let mut j = m.r.to_json();
    j["wall_s"] = json!(t0.elapsed().as_secs_f64());
    j["seed"] = json!(a.seed);
    j["shard"] = json!(a.shard);
    j["tier"] = json!(a.tier);
    std::fs::write(&a.out, serde_json::to_string(&j).unwrap()).expect("write result");
}
