//! Monitors of the administrative / gating family: C08 attribution, C12 least privilege and
//! frozen settings, C13 configuration coherence, C14 operational-state and pause gating,
//! C19 fees and emissions.
use crate::kinds::Kind;
use crate::mon::{arg_u64, err, IxInfo, Mon, MFI};
use crate::num::*;
use crate::state::*;
use crate::world::World;
use marginfi_type_crate::types::*;
use num_traits::{Signed, Zero};
use serde_json::json;
use solana_sdk::pubkey::Pubkey;
use std::mem::offset_of;

pub const FLAG_FREEZE: u64 = 1 << 3;

/// (name, offset, len) of the leaf fields of `Bank` (after the 8-byte discriminator is stripped).
pub fn bank_fields() -> Vec<(&'static str, usize, usize)> {
    let c = offset_of!(Bank, config);
    let sz = std::mem::size_of::<WrappedI80F48>();
    let mut v = vec![
        ("mint", offset_of!(Bank, mint), 32),
        ("mint_decimals", offset_of!(Bank, mint_decimals), 1),
        ("group", offset_of!(Bank, group), 32),
        ("asset_share_value", offset_of!(Bank, asset_share_value), sz),
        ("liability_share_value", offset_of!(Bank, liability_share_value), sz),
        ("liquidity_vault", offset_of!(Bank, liquidity_vault), 34),
        ("insurance_vault", offset_of!(Bank, insurance_vault), 34),
        ("collected_insurance_fees_outstanding", offset_of!(Bank, collected_insurance_fees_outstanding), sz),
        ("fee_vault", offset_of!(Bank, fee_vault), 34),
        ("collected_group_fees_outstanding", offset_of!(Bank, collected_group_fees_outstanding), sz),
        ("total_liability_shares", offset_of!(Bank, total_liability_shares), sz),
        ("total_asset_shares", offset_of!(Bank, total_asset_shares), sz),
        ("last_update", offset_of!(Bank, last_update), 8),
        ("flags", offset_of!(Bank, flags), 8),
        ("emissions_rate", offset_of!(Bank, emissions_rate), 8),
        ("emissions_remaining", offset_of!(Bank, emissions_remaining), sz),
        ("emissions_mint", offset_of!(Bank, emissions_mint), 32),
        ("collected_program_fees_outstanding", offset_of!(Bank, collected_program_fees_outstanding), sz),
        ("emode", offset_of!(Bank, emode), std::mem::size_of::<EmodeSettings>()),
        ("fees_destination_account", offset_of!(Bank, fees_destination_account), 32),
        ("cache", offset_of!(Bank, cache), std::mem::size_of::<BankCache>()),
        ("lending_position_count", offset_of!(Bank, lending_position_count), 4),
        ("borrowing_position_count", offset_of!(Bank, borrowing_position_count), 4),
        ("integration_accounts", offset_of!(Bank, integration_acc_1), 96),
    ];
    let cf: Vec<(&'static str, usize, usize)> = vec![
        ("config.asset_weight_init", offset_of!(BankConfig, asset_weight_init), sz),
        ("config.asset_weight_maint", offset_of!(BankConfig, asset_weight_maint), sz),
        ("config.liability_weight_init", offset_of!(BankConfig, liability_weight_init), sz),
        ("config.liability_weight_maint", offset_of!(BankConfig, liability_weight_maint), sz),
        ("config.deposit_limit", offset_of!(BankConfig, deposit_limit), 8),
        ("config.interest_rate_config", offset_of!(BankConfig, interest_rate_config), std::mem::size_of::<InterestRateConfig>()),
        ("config.operational_state", offset_of!(BankConfig, operational_state), 1),
        ("config.oracle_setup", offset_of!(BankConfig, oracle_setup), 1),
        ("config.oracle_keys", offset_of!(BankConfig, oracle_keys), 160),
        ("config.borrow_limit", offset_of!(BankConfig, borrow_limit), 8),
        ("config.risk_tier", offset_of!(BankConfig, risk_tier), 1),
        ("config.asset_tag", offset_of!(BankConfig, asset_tag), 1),
        ("config.config_flags", offset_of!(BankConfig, config_flags), 1),
        ("config.total_asset_value_init_limit", offset_of!(BankConfig, total_asset_value_init_limit), 8),
        ("config.oracle_max_age", offset_of!(BankConfig, oracle_max_age), 2),
        ("config.oracle_max_confidence", offset_of!(BankConfig, oracle_max_confidence), 4),
        ("config.fixed_price", offset_of!(BankConfig, fixed_price), sz),
    ];
    for (n, o, l) in cf {
        v.push((n, c + o, l));
    }
    v
}

/// names of the fields whose bytes differ between two bank images ("other" = padding etc.)
pub fn bank_diff(a: &Bank, b: &Bank) -> Vec<&'static str> {
    let (x, y) = (bytemuck::bytes_of(a), bytemuck::bytes_of(b));
    let fields = bank_fields();
    let mut out: Vec<&'static str> = vec![];
    for i in 0..x.len() {
        if x[i] != y[i] {
            let name = fields.iter().find(|(_, o, l)| i >= *o && i < *o + *l).map(|f| f.0).unwrap_or("other");
            if !out.contains(&name) {
                out.push(name);
            }
        }
    }
    out
}

const FROZEN_PROTECTED: &[&str] = &[
    "config.asset_weight_init",
    "config.asset_weight_maint",
    "config.liability_weight_init",
    "config.liability_weight_maint",
    "config.interest_rate_config",
    "config.operational_state",
    "config.oracle_setup",
    "config.oracle_keys",
    "config.risk_tier",
    "config.total_asset_value_init_limit",
    "config.oracle_max_age",
    "config.oracle_max_confidence",
    "config.fixed_price",
];

fn allowed_fields(kind: Kind) -> Option<&'static [&'static str]> {
    Some(match kind {
        Kind::ConfigureBankInterestOnly => &["config.interest_rate_config"],
        Kind::ConfigureBankLimitsOnly => &["config.deposit_limit", "config.borrow_limit", "config.total_asset_value_init_limit"],
        Kind::ConfigureBankEmode | Kind::CloneEmode => &["emode"],
        Kind::SetupEmissions | Kind::UpdateEmissionsParameters => &["flags", "emissions_rate", "emissions_remaining", "emissions_mint"],
        Kind::ForceTokenlessRepayComplete => &["flags"],
        Kind::PurgeDelevBalance => &["total_asset_shares", "lending_position_count"],
        Kind::WriteBankMetadata | Kind::InitBankMetadata | Kind::StartDeleverage | Kind::EndDeleverage => &[],
        _ => return None,
    })
}

fn role_of(kind: Kind) -> Option<&'static str> {
    Some(match kind {
        Kind::GroupConfigure | Kind::AddBank | Kind::AddBankWithSeed | Kind::CloneBank | Kind::ConfigureBank | Kind::ConfigureBankOracle | Kind::SetFixedOraclePrice | Kind::WithdrawFees | Kind::WithdrawInsurance | Kind::UpdateFeesDestination | Kind::CloseBank | Kind::InitStakedSettings | Kind::EditStakedSettings | Kind::ConfigureDelevLimit | Kind::SetFreeze | Kind::AddBankKamino | Kind::AddBankDrift | Kind::AddBankSolend => "admin",
        Kind::ConfigureBankInterestOnly => "curve",
        Kind::ConfigureBankLimitsOnly => "limit",
        Kind::ConfigureBankEmode => "emode",
        Kind::CloneEmode => "admin|emode",
        Kind::SetupEmissions | Kind::UpdateEmissionsParameters => "emissions",
        Kind::WriteBankMetadata => "metadata",
        Kind::ForceTokenlessRepayComplete | Kind::PurgeDelevBalance | Kind::StartDeleverage | Kind::EndDeleverage => "risk",
        Kind::EditFeeState | Kind::ConfigGroupFee | Kind::PanicPause | Kind::PanicUnpause => "fee_admin",
        _ => return None,
    })
}

/// (positions on the asset side, positions on the liability side) of `bank` among the accounts of an instruction
fn side_counts(accts: &[(Pubkey, Option<MarginfiAccount>, Option<MarginfiAccount>)], bank: &Pubkey) -> (usize, usize) {
    let mut a = 0;
    let mut l = 0;
    for (_, p, _) in accts {
        if let Some(p) = p {
            for b in p.lending_account.balances.iter().filter(|b| b.active != 0 && &b.bank_pk == bank) {
                if w_(&b.liability_shares) >= one() {
                    l += 1;
                } else if w_(&b.asset_shares) >= one() {
                    a += 1;
                }
            }
        }
    }
    (a, l)
}

fn bank_bytes<T: bytemuck::Pod>(x: &T) -> &[u8] {
    bytemuck::bytes_of(x)
}

impl Mon {
    /// What an accepted configuration instruction was asked to do is what it did: an option that
    /// was sent is applied as sent, a flag that was not mentioned keeps its value, a role that was
    /// named gets exactly the named key. (The entitlement of later signers rests on this.)
    fn config_fidelity(&mut self, v: &IxView, info: &IxInfo) {
        use anchor_lang::AnchorDeserialize;
        let data = &v.ev.data;
        if data.len() < 8 {
            return;
        }
        match info.kind {
            Kind::ConfigureBank => {
                let args = match marginfi::instruction::LendingPoolConfigureBank::deserialize(&mut &data[8..]) {
                    Ok(a) => a,
                    Err(_) => return,
                };
                let o = args.bank_config_opt;
                for (bk, pre, post) in &info.banks {
                    let (pre, post) = match (pre, post) {
                        (Some(a), Some(b)) => (a, b),
                        _ => continue,
                    };
                    if pre.flags & (1 << 3) != 0 {
                        continue; // frozen: only the limits are taken (judged by the frozen-field monitor)
                    }
                    self.r.eval();
                    self.r.count("fidelity.configure_bank_requests_compared");
                    let asked: [(&str, u64, Option<bool>, &[&str]); 3] = [("permissionless-bad-debt-settlement", 1 << 2, o.permissionless_bad_debt_settlement, &["C07", "C12"]), ("freeze-settings", 1 << 3, o.freeze_settings, &["C12"]), ("tokenless-repayments-allowed", 1 << 5, o.tokenless_repayments_allowed, &["C12"])];
                    for (name, bit, req, props) in asked {
                        let (was, is) = (pre.flags & bit != 0, post.flags & bit != 0);
                        let want = req.unwrap_or(was);
                        if is != want {
                            for p in props {
                                self.r.violate(p, &format!("{}/ConfigureBank/flag-{}-differs-from-request", p, name), format!("bank {}: flag was {}, request {:?}, now {}", bk, was, req, is));
                            }
                        }
                    }
                }
            }
            Kind::GroupConfigure => {
                let a = match marginfi::instruction::MarginfiGroupConfigure::deserialize(&mut &data[8..]) {
                    Ok(a) => a,
                    Err(_) => return,
                };
                let gk = match v.ev.pre.first() {
                    Some(s) => s.key,
                    None => return,
                };
                let g = match v.post(&gk).and_then(group_of) {
                    Some(g) => g,
                    None => return,
                };
                self.r.eval();
                self.r.count("fidelity.group_configure_requests_compared");
                let roles = [("admin", a.new_admin, g.admin), ("emode-admin", a.new_emode_admin, g.emode_admin), ("curve-admin", a.new_curve_admin, g.delegate_curve_admin), ("limit-admin", a.new_limit_admin, g.delegate_limit_admin), ("emissions-admin", a.new_emissions_admin, g.delegate_emissions_admin), ("metadata-admin", a.new_metadata_admin, g.metadata_admin), ("risk-admin", a.new_risk_admin, g.risk_admin)];
                for (name, want, got) in roles {
                    if want != got {
                        self.r.violate("C08", &format!("C08/GroupConfigure/{}-not-set-as-requested", name), format!("group {}: requested {} but the role is held by {}", gk, want, got));
                    }
                }
            }
            _ => {}
        }
    }

    /// C18 on chain: whatever interest configuration an instruction leaves behind on a bank must be
    /// a curve that is defined and non-decreasing from the zero-utilisation rate through the
    /// configured points (strictly increasing utilisation) to the full-utilisation rate.
    fn c18_chain(&mut self, info: &IxInfo) {
        let writes = matches!(info.kind, Kind::AddBank | Kind::AddBankWithSeed | Kind::AddBankPermissionless | Kind::CloneBank | Kind::ConfigureBank | Kind::ConfigureBankInterestOnly | Kind::MigrateCurve | Kind::AddBankKamino | Kind::AddBankDrift | Kind::AddBankSolend);
        if !writes {
            return;
        }
        for (bk, pre, post) in &info.banks {
            let post = match post {
                Some(b) => b,
                None => continue,
            };
            let c = &post.config.interest_rate_config;
            if let Some(p) = pre {
                if bank_bytes(&p.config.interest_rate_config) == bank_bytes(c) {
                    continue;
                }
            }
            if c.curve_type != 1 {
                continue;
            }
            self.r.eval();
            self.r.count(&format!("C18.accepted_interest_configs/{}", info.kind.name()));
            // a migrated legacy curve is the same curve: nothing at no utilisation, the plateau rate at
            // the optimal utilisation, the maximum rate at full utilisation (up to the 32-bit grid of
            // the new representation; legacy rates above the representable 1000 % are not judged)
            if info.kind == Kind::MigrateCurve {
                if let Some(p) = pre {
                    let l = &p.config.interest_rate_config;
                    if l.curve_type == 0 {
                        let (opt, plat, max) = (w_(&l.optimal_utilization_rate), w_(&l.plateau_interest_rate), w_(&l.max_interest_rate));
                        if max <= ri(10) && plat <= ri(10) {
                            self.r.count("C18.legacy_migrations_compared");
                            let m32 = ru(u32::MAX as u128);
                            let used: Vec<(u32, u32)> = c.points.iter().filter(|q| q.util != 0).map(|q| (q.util, q.rate)).collect();
                            let grid = rq(1, 1i128 << 31);
                            let ok = used.len() == 1
                                && c.zero_util_rate == 0
                                && abs(&(ru(used[0].0 as u128) / &m32 - &opt)) <= grid
                                && abs(&(ru(used[0].1 as u128) * ri(10) / &m32 - &plat)) <= &grid * ri(10)
                                && abs(&(ru(c.hundred_util_rate as u128) * ri(10) / &m32 - &max)) <= &grid * ri(10);
                            if !ok {
                                self.r.violate("C18", "C18/MigrateCurve/migrated-curve-differs-from-the-legacy-curve", format!("bank {}: legacy (optimal {}, plateau {}, max {}) -> zero {} points {:?} hundred {}", bk, show(&opt), show(&plat), show(&max), c.zero_util_rate, used, c.hundred_util_rate));
                            }
                        }
                    }
                }
            }
            let used: Vec<(u32, u32)> = c.points.iter().filter(|p| p.util != 0).map(|p| (p.util, p.rate)).collect();
            self.r.distinct(&("c18-chain", info.kind.name(), used.len(), c.zero_util_rate == 0, c.hundred_util_rate == u32::MAX));
            let mut prev = (0u32, c.zero_util_rate);
            let mut bad: Option<String> = None;
            for (i, (u, r)) in used.iter().enumerate() {
                if (i > 0 && *u <= prev.0) || *r < prev.1 {
                    bad = Some(format!("point {} (util {}, rate {}) after (util {}, rate {})", i, u, r, prev.0, prev.1));
                    break;
                }
                prev = (*u, *r);
            }
            if bad.is_none() && c.hundred_util_rate < prev.1 {
                bad = Some(format!("full-utilisation rate {} below the last rate {}", c.hundred_util_rate, prev.1));
            }
            // a used point after padding is skipped by the reference (and by the evaluator): a hole
            let mut seen_pad = false;
            for p in c.points.iter() {
                if p.util == 0 {
                    seen_pad = true;
                } else if seen_pad {
                    bad = Some("configured point after padding".into());
                }
            }
            if let Some(why) = bad {
                self.r.violate("C18", &format!("C18/{}/accepted-curve-not-usable-or-decreasing", info.kind.name()), format!("bank {}: {} (zero {}, hundred {}, points {:?})", bk, why, c.zero_util_rate, c.hundred_util_rate, used));
            }
        }
    }

    /// C15 on chain: the three pause handlers, judged on the global fee state before / after.
    fn c15_chain(&mut self, v: &IxView, info: &IxInfo) {
        if !matches!(info.kind, Kind::PanicPause | Kind::PanicUnpause | Kind::PanicUnpausePermissionless) {
            return;
        }
        let fk = crate::ix::fee_state_key();
        let (p, q) = match (v.pre(&fk).and_then(fee_state_of), v.post(&fk).and_then(fee_state_of)) {
            (Some(a), Some(b)) => (a.panic_state, b.panic_state),
            _ => return,
        };
        let t = info.now;
        let until = |s: &PanicState| if s.pause_flags & 1 != 0 { s.pause_start_timestamp + 1800 } else { i64::MIN };
        self.r.eval();
        self.r.count(&format!("C15.chain_accepted/{}", info.kind.name()));
        self.r.distinct(&("c15-chain", info.kind.name(), p.pause_flags & 1, p.daily_pause_count.min(4), p.consecutive_pause_count.min(3), (t - p.pause_start_timestamp).clamp(-3601, 3601) / 600, (t - p.last_daily_reset_timestamp).clamp(0, 90_000) / 21_600));
        match info.kind {
            Kind::PanicPause => {
                // an expired pause counts as over when the new one is ordered
                let old_until = if p.pause_flags & 1 != 0 && t - p.pause_start_timestamp >= 1800 { t } else { until(&p).max(t) };
                let nu = until(&q);
                let reset_changed = q.last_daily_reset_timestamp != p.last_daily_reset_timestamp;
                self.c15_succ = if reset_changed { 1 } else { self.c15_succ.saturating_add(1) };
                if q.pause_flags & 1 == 0 {
                    self.r.violate("C15", "C15/chain/pause-accepted-but-flag-not-set", format!("at t={}", t));
                }
                if nu - old_until > 1800 {
                    self.r.violate("C15", "C15/chain/pause-pushed-forward-by-more-than-30-minutes", format!("t={} start {} -> {}", t, p.pause_start_timestamp, q.pause_start_timestamp));
                }
                if nu - t > 3600 {
                    self.r.violate("C15", "C15/chain/pause-scheduled-more-than-60-minutes-ahead", format!("t={} start {} -> {}", t, p.pause_start_timestamp, q.pause_start_timestamp));
                }
                if self.c15_succ > 3 {
                    self.r.violate("C15", "C15/chain/more-than-three-pauses-between-daily-resets", format!("t={} daily count {} -> {} last reset {}", t, p.daily_pause_count, q.daily_pause_count, q.last_daily_reset_timestamp));
                }
                if reset_changed && p.last_daily_reset_timestamp != 0 && q.last_daily_reset_timestamp - p.last_daily_reset_timestamp < 86_400 {
                    self.r.violate("C15", "C15/chain/daily-resets-less-than-24h-apart", format!("{} -> {}", p.last_daily_reset_timestamp, q.last_daily_reset_timestamp));
                }
                self.r.max("C15.chain_max_seconds_paused_ahead", (nu - t) as f64);
            }
            Kind::PanicUnpause | Kind::PanicUnpausePermissionless => {
                if q.pause_flags & 1 != 0 {
                    self.r.violate("C15", &format!("C15/chain/{}-accepted-but-flag-still-set", info.kind.name()), format!("t={}", t));
                }
                if info.kind == Kind::PanicUnpausePermissionless && p.pause_flags & 1 != 0 && t - p.pause_start_timestamp < 1800 {
                    self.r.violate("C15", "C15/chain/permissionless-unpause-before-expiry", format!("t={} start {}", t, p.pause_start_timestamp));
                }
            }
            _ => {}
        }
    }
    /// C15 on chain, rejections: unpausing must not fail while a pause flag is set (the admin's at
    /// any time, anyone's once the pause has run out).
    pub fn c15_reject(&mut self, w: &World, ixs: &[solana_sdk::instruction::Instruction], failing: usize, code: u32) {
        let ixn = match ixs.get(failing) {
            Some(i) if i.program_id == MFI => i,
            _ => return,
        };
        let kind = Kind::of(&ixn.data);
        if code == err::PROTOCOL_PAUSED {
            // a user instruction refused as paused: the pause recorded in the group's own cache must
            // still be running (nobody has to act for an expired pause to stop blocking users)
            let now = w.chain.now();
            for mt in &ixn.accounts {
                if let Some(g) = w.shadow.get(&mt.pubkey).filter(|a| a.owner == MFI).and_then(|a| group_of(&a.data)) {
                    let c = g.panic_state_cache;
                    let running = c.pause_flags & 1 != 0 && (now < c.pause_start_timestamp || now - c.pause_start_timestamp < 1800);
                    self.r.eval();
                    self.r.count(&format!("C15.chain_user_instruction_refused_as_paused/{}", kind.name()));
                    if !running {
                        self.r.violate("C15", &format!("C15/chain/{}/expired-pause-still-blocking-users", kind.name()), format!("group {}: cache flags {} start {} now {}", mt.pubkey, c.pause_flags, c.pause_start_timestamp, now));
                    }
                    break;
                }
            }
            return;
        }
        if !matches!(kind, Kind::PanicUnpause | Kind::PanicUnpausePermissionless) {
            return;
        }
        let fs = match w.shadow.get(&crate::ix::fee_state_key()).and_then(|a| fee_state_of(&a.data)) {
            Some(f) => f,
            None => return,
        };
        let p = fs.panic_state;
        let t = w.chain.now();
        self.r.eval();
        self.r.count(&format!("C15.chain_rejected/{}/{}", kind.name(), code));
        let flag = p.pause_flags & 1 != 0;
        let signed_by_admin = ixn.accounts.iter().any(|m| m.is_signer && m.pubkey == fs.global_fee_admin);
        if kind == Kind::PanicUnpause && flag && signed_by_admin {
            self.r.violate("C15", "C15/chain/admin-unpause-failed-while-pause-flag-set", format!("t={} start {} error {}", t, p.pause_start_timestamp, code));
        }
        if kind == Kind::PanicUnpausePermissionless && flag && t - p.pause_start_timestamp >= 1800 {
            self.r.violate("C15", "C15/chain/permissionless-unpause-failed-after-expiry", format!("t={} start {} error {}", t, p.pause_start_timestamp, code));
        }
    }

    pub fn admin_on_ix(&mut self, w: &World, v: &IxView, info: &IxInfo) {
        self.config_fidelity(v, info);
        if self.r.is("C15") {
            self.c15_chain(v, info);
        }
        if self.r.is("C18") {
            self.c18_chain(info);
        }
        if self.r.is("C12") {
            self.c12(w, v, info);
        }
        if self.r.is("C13") {
            self.c13(w, v, info);
        }
        if self.r.is("C14") {
            self.c14_ix(w, v, info);
        }
        if self.r.is("C08") {
            self.c08_ix(w, v, info);
        }
        // (the payout rule of the rewards is also an authorization rule: C08 runs the same monitor and
        // takes the one verdict that speaks about who may move an account's rewards)
        if self.r.is("C19") || self.r.is("C08") {
            self.c19_ix(w, v, info);
        }
    }

    /// The group whose roles decide: the group the touched bank / account belongs to (not whichever
    /// group account the caller chose to present), else the group account presented.
    fn group_for(&self, v: &IxView, info: &IxInfo) -> Option<MarginfiGroup> {
        for (_, p, q) in &info.banks {
            if let Some(b) = p.as_ref().or(q.as_ref()) {
                if let Some(g) = v.pre(&b.group).and_then(group_of) {
                    return Some(g);
                }
            }
        }
        for (_, p, q) in &info.accts {
            if let Some(a) = p.as_ref().or(q.as_ref()) {
                if let Some(g) = v.pre(&a.group).and_then(group_of) {
                    return Some(g);
                }
            }
        }
        for s in v.ev.pre.iter() {
            if s.owner == MFI {
                if let Some(g) = group_of(&s.data) {
                    return Some(g);
                }
            }
        }
        None
    }

    // ------------------------------------------------------------------ C12
    fn c12(&mut self, w: &World, v: &IxView, info: &IxInfo) {
        // (a) frozen settings: whatever the instruction, protected fields and the freeze bit stay
        for (bk, pre, post) in &info.banks {
            let (pre, post) = match (pre, post) {
                (Some(a), Some(b)) => (a, b),
                _ => continue,
            };
            let diff = bank_diff(pre, post);
            if diff.is_empty() {
                continue;
            }
            if pre.flags & FLAG_FREEZE != 0 {
                self.r.eval();
                self.r.count(&format!("C12.instructions_on_frozen_bank/{}", info.kind.name()));
                self.r.distinct(&("frozen", info.kind.name(), diff.clone()));
                for f in &diff {
                    let killed_by_bankruptcy = *f == "config.operational_state" && info.kind == Kind::HandleBankruptcy;
                    if FROZEN_PROTECTED.contains(f) && !killed_by_bankruptcy {
                        self.r.violate("C12", &format!("C12/{}/frozen-bank-field-changed/{}", info.kind.name(), f), format!("bank {}: {} changed although settings are frozen", bk, f));
                    }
                }
                if post.flags & FLAG_FREEZE == 0 {
                    self.r.violate("C12", &format!("C12/{}/freeze-lifted", info.kind.name()), format!("bank {}: flags {:#b} -> {:#b}", bk, pre.flags, post.flags));
                }
            }
            // (b) delegated roles only touch their remit
            if let Some(allowed) = allowed_fields(info.kind) {
                self.r.eval();
                self.r.count(&format!("C12.delegated_instructions/{}", info.kind.name()));
                self.r.distinct(&("mask", info.kind.name(), diff.clone()));
                for f in &diff {
                    if !allowed.contains(f) {
                        self.r.violate("C12", &format!("C12/{}/field-outside-remit/{}", info.kind.name(), f), format!("bank {}: {} changed by {:?}", bk, f, info.kind));
                    }
                }
                if info.kind == Kind::ForceTokenlessRepayComplete {
                    // the risk admin may mark the wind-down complete only on a bank the group admin
                    // opted into token-less repayment
                    self.r.count(if pre.flags & (1 << 5) != 0 { "C12.force_complete_on_opted_in_bank" } else { "C12.force_complete_on_bank_not_opted_in" });
                    if post.flags & (1 << 6) != 0 && pre.flags & (1 << 6) == 0 && pre.flags & (1 << 5) == 0 {
                        self.r.violate("C12", "C12/ForceTokenlessRepayComplete/completion-flag-set-on-a-bank-not-opted-in", format!("bank {}: flags {:#b} -> {:#b}", bk, pre.flags, post.flags));
                    }
                }
                if diff.contains(&"flags") {
                    let mask: u64 = match info.kind {
                        Kind::SetupEmissions | Kind::UpdateEmissionsParameters => 0b11,
                        Kind::ForceTokenlessRepayComplete => 1 << 6,
                        _ => 0,
                    };
                    if (pre.flags ^ post.flags) & !mask != 0 {
                        self.r.violate("C12", &format!("C12/{}/flags-outside-remit", info.kind.name()), format!("bank {}: flags {:#b} -> {:#b} (allowed mask {:#b})", bk, pre.flags, post.flags, mask));
                    }
                }
                self.r.sample_kind(info.kind.name(), json!({"bank": bk.to_string(), "changed_fields": diff, "frozen": pre.flags & FLAG_FREEZE != 0}));
            }
        }
        // a delegated role reaches the banks of its own group only: the metadata of a bank is written
        // by the metadata admin of the group the bank belongs to (whatever group account was presented)
        if info.kind == Kind::WriteBankMetadata {
            if let Some((bk, Some(b), _)) = info.banks.first().map(|(k, p, q)| (k, p.as_ref(), q)) {
                if let Some(g) = v.pre(&b.group).and_then(group_of) {
                    self.r.eval();
                    self.r.count("C12.bank_metadata_writes_judged");
                    if !info.signers.contains(&g.metadata_admin) {
                        self.r.violate("C12", "C12/WriteBankMetadata/written-by-somebody-who-is-not-the-metadata-admin-of-the-bank's-group", format!("bank {} of group {}: signers {:?}, that group's metadata admin is {}", bk, b.group, info.signers, g.metadata_admin));
                    }
                }
            }
        }
        // delegated instructions never touch user balances (purge: only the purged deposit)
        if allowed_fields(info.kind).is_some() && !matches!(info.kind, Kind::StartDeleverage | Kind::EndDeleverage) {
            for (ak, ap, aq) in &info.accts {
                if let (Some(p), Some(q)) = (ap, aq) {
                    if p.lending_account != q.lending_account && info.kind != Kind::PurgeDelevBalance {
                        self.r.violate("C12", &format!("C12/{}/user-balances-changed", info.kind.name()), format!("account {}", ak));
                    }
                }
            }
        }
        // (c) deleverage daily limit. The program's day is a tumbling window that opens with the
        // first forced withdrawal at least 24 h after the previous opening - and setting the limit
        // re-opens it at the time of the instruction while keeping the amount already counted (the
        // group admin's instruction, `configure_deleverage_withdrawal_limit`); the reference window
        // follows both.
        if info.kind == Kind::ConfigureDelevLimit {
            if let Some(gs) = v.ev.pre.iter().find(|s| s.owner == MFI && group_of(&s.data).is_some()) {
                let st = self.delev.entry(gs.key).or_insert((0i64, 0u64));
                st.0 = info.now;
                self.r.count("C12.deleverage_window_reopened_by_limit_configuration");
            }
        }
        if info.kind == Kind::Withdraw {
            if let Some((_, Some(ap), _)) = info.accts.first() {
                if ap.account_flags & ACCOUNT_IN_DELEVERAGE != 0 {
                    self.c12_deleverage_withdraw(w, v, info);
                }
            }
        }
    }

    fn c12_deleverage_withdraw(&mut self, w: &World, v: &IxView, info: &IxInfo) {
        let (bk, _bp, bq) = match info.banks.first() {
            Some((k, Some(p), Some(q))) => (k, p, q),
            _ => return,
        };
        let gk = bq.group;
        let (gp, gq) = match (v.pre(&gk).and_then(group_of), v.post(&gk).and_then(group_of)) {
            (Some(a), Some(b)) => (a, b),
            _ => return,
        };
        self.r.eval();
        self.r.count("C12.deleverage_withdrawals");
        let limit = gq.deleverage_withdraw_window_cache.daily_limit;
        // tokens that left the vault, valued at the low-biased spot price of the presented oracle
        let bi = match w.bank_by_key(bk) {
            Some(i) => i,
            None => return,
        };
        let lv = w.banks[bi].k.lv;
        let out = match (v.pre(&lv).and_then(token_amount), v.post(&lv).and_then(token_amount)) {
            (Some(a), Some(b)) => a.saturating_sub(b),
            _ => return,
        };
        let mut ors = vec![];
        for k in crate::mon_risk::oracle_keys_pub(bq) {
            match v.ev.pre_of(&k) {
                Some(s) => ors.push(crate::refm::OracleIn { key: k, owner: s.owner, data: &s.data[..] }),
                None => ors.push(crate::refm::OracleIn { key: k, owner: Pubkey::default(), data: &[] }),
            }
        }
        let px = match crate::refm::ref_price(bq, &ors, info.now) {
            Ok(p) => p,
            Err(e) => {
                self.r.violate("C12", "C12/Withdraw/deleverage-withdraw-with-unusable-price", format!("{:?}", e));
                return;
            }
        };
        let usd = ru(out as u128) * px.low(false).v / pow10(balance_decimals(bq));
        let whole = to_u64_floor(&usd).unwrap_or(u64::MAX);
        // reference window
        let st = self.delev.entry(gk).or_insert((0i64, 0u64));
        if info.now - st.0 >= 86_400 {
            *st = (info.now, 0);
        }
        st.1 = st.1.saturating_add(whole);
        let (win_start, total) = *st;
        self.r.max("C12.max_daily_deleverage_withdrawn_usd", total as f64);
        self.r.distinct(&("delev", limit.min(3), (total as f64 / (limit.max(1) as f64) * 4.0) as u64));
        // allow one dollar of rounding slack per withdrawal observed in the window (price band)
        // the limit and the program's counter are whole dollars in 32 bits: a window total beyond
        // that range is represented by its maximum (so a limit of u32::MAX cannot be exceeded)
        let total_repr = total.min(u32::MAX as u64);
        if limit != 0 && total_repr > limit as u64 + 1 {
            self.r.violate("C12", "C12/Withdraw/deleverage-daily-limit-exceeded", format!("group {}: whole-dollar withdrawals in the window starting {} sum to {} > limit {} (program counter {} -> {})", gk, win_start, total, limit, gp.deleverage_withdraw_window_cache.withdrawn_today, gq.deleverage_withdraw_window_cache.withdrawn_today));
        }
    }

    // ------------------------------------------------------------------ C13
    fn c13(&mut self, w: &World, v: &IxView, info: &IxInfo) {
        let _ = w;
        let writes_config = matches!(
            info.kind,
            Kind::AddBank | Kind::AddBankWithSeed | Kind::AddBankPermissionless | Kind::CloneBank | Kind::ConfigureBank | Kind::ConfigureBankInterestOnly | Kind::ConfigureBankLimitsOnly | Kind::ConfigureBankEmode | Kind::CloneEmode | Kind::PropagateStakedSettings | Kind::ConfigureBankOracle | Kind::SetFixedOraclePrice | Kind::AddBankKamino | Kind::AddBankDrift | Kind::AddBankSolend
        );
        for (bk, pre, post) in &info.banks {
            let post = match post {
                Some(b) => b,
                None => continue,
            };
            // killed state is entered only by bankruptcy and never left
            let killed = |b: &Bank| b.config.operational_state == BankOperationalState::KilledByBankruptcy;
            let was_killed = pre.as_ref().map(killed).unwrap_or(false);
            if was_killed && !killed(post) {
                self.r.violate("C13", &format!("C13/{}/bank-taken-out-of-killed-state", info.kind.name()), format!("bank {}", bk));
            }
            if !was_killed && killed(post) && info.kind != Kind::HandleBankruptcy {
                self.r.violate("C13", &format!("C13/{}/bank-put-into-killed-state", info.kind.name()), format!("bank {}", bk));
            }
            if !writes_config || !v.ev.pre_of(bk).map(|s| s.is_writable).unwrap_or(false) {
                continue;
            }
            // for clone_emode only the destination is written
            if let Some(p) = pre {
                if bytemuck::bytes_of(p) == bytemuck::bytes_of(post) && info.kind != Kind::ConfigureBank {
                    continue;
                }
            }
            self.r.eval();
            self.r.count(&format!("C13.accepted_config_writes/{}", info.kind.name()));
            let c = &post.config;
            let (ai, am, li, lm) = (w_(&c.asset_weight_init), w_(&c.asset_weight_maint), w_(&c.liability_weight_init), w_(&c.liability_weight_maint));
            let mut bad = vec![];
            if ai < zero() || ai > one() {
                bad.push("asset-init-weight-outside-0-1");
            }
            if ai > am {
                bad.push("asset-init-above-maint");
            }
            if am > ri(2) {
                bad.push("asset-maint-above-2");
            }
            if lm < one() {
                bad.push("liability-maint-below-1");
            }
            if lm > li {
                bad.push("liability-maint-above-init");
            }
            if c.risk_tier == RiskTier::Isolated && (!ai.is_zero() || !am.is_zero()) {
                bad.push("isolated-with-asset-weight");
            }
            if c.oracle_max_age < 10 {
                bad.push("oracle-max-age-below-minimum");
            }
            for b in bad {
                self.r.violate("C13", &format!("C13/{}/{}", info.kind.name(), b), format!("bank {}: weights {} {} {} {} tier {:?} max_age {}", bk, show(&ai), show(&am), show(&li), show(&lm), c.risk_tier, c.oracle_max_age));
            }
            // e-mode entries against THIS bank's liability weights and the group's caps
            // e-mode entries are judged when they (or the liability weights they are measured
            // against) are written: the caps are the group's caps at that acceptance time
            let touched = match pre {
                None => true,
                Some(p) => {
                    let d = bank_diff(p, post);
                    d.contains(&"emode") || d.contains(&"config.liability_weight_init") || d.contains(&"config.liability_weight_maint")
                }
            };
            if touched && matches!(info.kind, Kind::ConfigureBank | Kind::ConfigureBankEmode | Kind::CloneEmode) {
                let g = match v.pre(&post.group).and_then(group_of) {
                    Some(g) => g,
                    None => continue,
                };
                let cap_i = ru(g.emode_max_init_leverage as u128) * ri(100) / crate::refm::u32max();
                let cap_m = ru(g.emode_max_maint_leverage as u128) * ri(100) / crate::refm::u32max();
                let slack = rq(1, 1 << 40);
                let mut n = 0;
                for e in post.emode.emode_config.entries.iter().filter(|e| e.collateral_bank_emode_tag != 0) {
                    n += 1;
                    let (ei, em) = (w_(&e.asset_weight_init), w_(&e.asset_weight_maint));
                    let mut eb = vec![];
                    if ei > em {
                        eb.push("emode-init-above-maint".to_string());
                    }
                    if ei < zero() {
                        eb.push("emode-negative-weight".to_string());
                    }
                    for (cw, lw, cap, nm) in [(&ei, &li, &cap_i, "init"), (&em, &lm, &cap_m, "maint")] {
                        if cw >= lw {
                            eb.push(format!("emode-{}-weight-not-below-liability-weight", nm));
                        } else {
                            let lev = one() / (one() - cw / lw);
                            if lev > cap + &slack * cap {
                                eb.push(format!("emode-{}-leverage-above-group-cap", nm));
                            }
                            self.r.max("C13.max_emode_leverage_over_cap", to_f64(&(&lev / cap)));
                        }
                    }
                    for b in eb {
                        self.r.violate("C13", &format!("C13/{}/{}", info.kind.name(), b), format!("bank {}: entry tag {} init {} maint {} vs liability weights {} {} caps {} {}", bk, e.collateral_bank_emode_tag, show(&ei), show(&em), show(&li), show(&lm), show(&cap_i), show(&cap_m)));
                    }
                }
                self.r.distinct(&("emode", info.kind.name(), n, to_f64(&li) as i64, to_f64(&lm) as i64));
            }
            self.r.distinct(&("cfg", info.kind.name(), (to_f64(&ai) * 4.0) as i64, (to_f64(&am) * 4.0) as i64, (to_f64(&li) * 4.0) as i64, c.risk_tier as u8, c.operational_state as u8));
            self.r.sample_kind(info.kind.name(), json!({"bank": bk.to_string(), "asset_weights": [show(&ai), show(&am)], "liability_weights": [show(&li), show(&lm)], "risk_tier": c.risk_tier as u8, "oracle_max_age": c.oracle_max_age}));
        }
    }

    // ------------------------------------------------------------------ C14
    fn c14_ix(&mut self, w: &World, v: &IxView, info: &IxInfo) {
        if info.kind == Kind::PropagateFeeState {
            // the group learns the pause from the global fee state: what it records must be that state
            let fs = v.pre(&crate::ix::fee_state_key()).and_then(fee_state_of);
            for s in v.ev.post.iter().filter(|s| s.owner == MFI) {
                if let (Some(g), Some(fs)) = (group_of(&s.data), fs.as_ref()) {
                    self.r.eval();
                    self.r.count("C14.propagations");
                    let ps = fs.panic_state;
                    let c = g.panic_state_cache;
                    if (c.pause_flags & 1) != (ps.pause_flags & 1) || ((ps.pause_flags & 1) != 0 && c.pause_start_timestamp != ps.pause_start_timestamp) {
                        self.r.violate("C14", "C14/PropagateFeeState/group-cache-differs-from-global-pause-state", format!("group {}: global flags {} start {} but cached flags {} start {}", s.key, ps.pause_flags, ps.pause_start_timestamp, c.pause_flags, c.pause_start_timestamp));
                    }
                    if ps.pause_flags & 1 != 0 {
                        self.pause_window.insert(s.key, (info.now, ps.pause_start_timestamp + 1800));
                    } else {
                        self.pause_window.remove(&s.key);
                    }
                    self.r.distinct(&("propagate", ps.pause_flags & 1, (ps.pause_start_timestamp - info.now).clamp(-1801, 1801)));
                }
            }
        }
        let _ = (w, v);
        let financial = matches!(info.kind, Kind::Deposit | Kind::Withdraw | Kind::Borrow | Kind::Repay | Kind::Liquidate | Kind::HandleBankruptcy | Kind::KaminoDeposit | Kind::KaminoWithdraw | Kind::SolendDeposit | Kind::SolendWithdraw | Kind::DriftDeposit | Kind::DriftWithdraw);
        if !financial {
            return;
        }
        let n = if info.kind == Kind::Liquidate { 2 } else { 1 };
        for (bk, pre, _post) in info.banks.iter().take(n) {
            let pre = match pre {
                Some(p) => p,
                None => continue,
            };
            self.r.eval();
            let st = pre.config.operational_state;
            self.r.count(&format!("C14.accepted/{}/{:?}", info.kind.name(), st));
            self.r.distinct(&("state", info.kind.name(), st as u8));
            let bad = match st {
                BankOperationalState::Paused => true,
                BankOperationalState::KilledByBankruptcy => true,
                BankOperationalState::ReduceOnly => matches!(info.kind, Kind::Deposit | Kind::Borrow | Kind::KaminoDeposit | Kind::SolendDeposit | Kind::DriftDeposit),
                BankOperationalState::Operational => false,
            };
            if bad {
                self.r.violate("C14", &format!("C14/{}/accepted-on-{:?}-bank", info.kind.name(), st), format!("bank {}", bk));
            }
        }
    }

    /// Behavioural pause oracle: while the pause recorded in a group's own cache is in force, no
    /// committed transaction moves tokens of, or changes non-dust positions in, that group.
    pub fn c14_commit(&mut self, w: &World, pre: &Shadow) {
        let now = w.chain.now();
        for g in &w.groups {
            let gp = match pre.get(&g.key).or_else(|| w.shadow.get(&g.key)).and_then(|a| group_of(&a.data)) {
                Some(x) => x,
                None => continue,
            };
            let c = gp.panic_state_cache;
            // in force for the group: announced by a propagation and not yet run out (window taken
            // from the global state at propagation time), or recorded in the group's own cache
            let by_window = self.pause_window.get(&g.key).map(|(from, until)| now >= *from && now < *until).unwrap_or(false);
            let by_cache = c.pause_flags & 1 != 0 && now >= c.pause_start_timestamp && now - c.pause_start_timestamp < 1800;
            if !(by_window || by_cache) {
                continue;
            }
            self.r.eval();
            self.r.count("C14.commits_during_pause_window");
            for (k, a0) in pre.iter() {
                let a1 = match w.shadow.get(k) {
                    Some(a) => a,
                    None => continue,
                };
                // vaults of this group's banks
                if let Some(bd) = w.banks.iter().find(|b| w.groups[b.group].key == g.key && (&b.k.lv == k || &b.k.iv == k || &b.k.fv == k)) {
                    if token_amount(&a0.data) != token_amount(&a1.data) {
                        self.r.violate("C14", "C14/commit/vault-moved-during-protocol-pause", format!("bank {} vault {}: {:?} -> {:?}", bd.key, k, token_amount(&a0.data), token_amount(&a1.data)));
                    }
                }
                if a0.owner == MFI {
                    if let (Some(p), Some(q)) = (acct_of(&a0.data), acct_of(&a1.data)) {
                        if p.group == g.key {
                            for (bp, bq) in p.lending_account.balances.iter().zip(q.lending_account.balances.iter()) {
                                let d = (wbits(&bp.asset_shares) - wbits(&bq.asset_shares)).abs().max((wbits(&bp.liability_shares) - wbits(&bq.liability_shares)).abs());
                                if bits_to_rat(d) >= one() && bp.bank_pk == bq.bank_pk {
                                    self.r.violate("C14", "C14/commit/position-changed-during-protocol-pause", format!("account {} bank {}", k, bp.bank_pk));
                                }
                            }
                        }
                    }
                }
            }
        }
    }

    /// A rejection with ProtocolPaused must coincide with a pause in force in the group's cache.
    pub fn c14_reject(&mut self, w: &World, ixs: &[solana_sdk::instruction::Instruction], code: u32, failing: usize) {
        if code != err::PROTOCOL_PAUSED {
            return;
        }
        self.r.eval();
        self.r.count("C14.rejected_protocol_paused");
        let now = w.chain.now();
        let ix = &ixs[failing];
        for m in &ix.accounts {
            if let Some(g) = w.shadow.get(&m.pubkey).filter(|a| a.owner == MFI).and_then(|a| group_of(&a.data)) {
                let c = g.panic_state_cache;
                let in_force = c.pause_flags & 1 != 0 && (now < c.pause_start_timestamp || now - c.pause_start_timestamp < 1800);
                self.r.distinct(&("paused-reject", Kind::of(&ix.data).name(), (now - c.pause_start_timestamp).clamp(-2, 1802)));
                if !in_force {
                    self.r.violate("C14", &format!("C14/{}/rejected-as-paused-although-pause-expired-or-absent", Kind::of(&ix.data).name()), format!("group {}: cache flags {} start {} now {}", m.pubkey, c.pause_flags, c.pause_start_timestamp, now));
                }
                return;
            }
        }
    }

    // ------------------------------------------------------------------ C08 (attribution)
    fn c08_ix(&mut self, w: &World, v: &IxView, info: &IxInfo) {
        let _ = w;
        let g = self.group_for(v, info);
        if matches!(info.kind, Kind::StartLiquidation | Kind::StartDeleverage) {
            if let Some((k, _, _)) = info.accts.first() {
                self.rcv_started_in_tx.insert(*k);
            }
        }
        // role-signed administrative instructions
        if let Some(role) = role_of(info.kind) {
            self.r.eval();
            self.r.count(&format!("C08.admin_instructions_accepted/{}", info.kind.name()));
            let ok = match (role, &g) {
                ("fee_admin", _) => w.shadow.get(&crate::ix::fee_state_key()).and_then(|a| fee_state_of(&a.data)).map(|f| info.signers.contains(&f.global_fee_admin)).unwrap_or(false),
                ("admin", Some(g)) => info.signers.contains(&g.admin),
                ("curve", Some(g)) => info.signers.contains(&g.delegate_curve_admin),
                ("limit", Some(g)) => info.signers.contains(&g.delegate_limit_admin),
                ("emode", Some(g)) => info.signers.contains(&g.emode_admin),
                ("admin|emode", Some(g)) => info.signers.contains(&g.admin) || info.signers.contains(&g.emode_admin),
                ("emissions", Some(g)) => info.signers.contains(&g.delegate_emissions_admin),
                ("metadata", Some(g)) => info.signers.contains(&g.metadata_admin),
                ("risk", Some(g)) => info.signers.contains(&g.risk_admin),
                _ => true,
            };
            // an instruction of a delegated role must not have the effect of the group admin's
            // instruction: bank flags outside the two emissions bits belong to the group admin
            if matches!(info.kind, Kind::SetupEmissions | Kind::UpdateEmissionsParameters) {
                for (bk, pre, post) in &info.banks {
                    if let (Some(pre), Some(post), Some(g)) = (pre, post, &g) {
                        if (pre.flags ^ post.flags) & !0b11 != 0 && !info.signers.contains(&g.admin) {
                            self.r.violate("C08", &format!("C08/{}/admin-only-bank-flags-changed-without-admin-signature", info.kind.name()), format!("bank {}: flags {:#b} -> {:#b}", bk, pre.flags, post.flags));
                        }
                    }
                }
            }
            self.r.distinct(&("role", info.kind.name(), role));
            if !ok {
                self.r.violate("C08", &format!("C08/{}/accepted-without-{}-signature", info.kind.name(), role), format!("signers {:?}", info.signers));
            }
        }
        // ... and the converse, by effect: the settings of a bank change only through the
        // administrative instructions (whose signer was just judged). An instruction that names no
        // role - user instructions, permissionless cranks - leaves every setting as it was, apart
        // from the consequences the program documents (a wipe-out shuts the bank, the staked-bank
        // settings are propagated from the group's settings account, a legacy curve is migrated,
        // the last repayment of a bank being wound down marks the wind-down complete).
        if role_of(info.kind).is_none() && !matches!(info.kind, Kind::AddBankPermissionless | Kind::CloneBank) {
            const SETTINGS: &[&str] = &["mint", "mint_decimals", "group", "liquidity_vault", "insurance_vault", "fee_vault", "flags", "emissions_rate", "emissions_mint", "emode", "fees_destination_account", "integration_accounts", "config.deposit_limit", "config.borrow_limit", "config.asset_tag", "config.config_flags"];
            for (bk, pre, post) in &info.banks {
                let (pre, post) = match (pre, post) {
                    (Some(a), Some(b)) => (a, b),
                    _ => continue,
                };
                let diff = bank_diff(pre, post);
                if diff.is_empty() {
                    continue;
                }
                self.r.count("C08.bank_writes_by_instructions_without_a_role");
                for f in &diff {
                    if !(SETTINGS.contains(f) || FROZEN_PROTECTED.contains(f)) {
                        continue;
                    }
                    let sanctioned = match info.kind {
                        Kind::HandleBankruptcy => *f == "config.operational_state" && post.config.operational_state == BankOperationalState::KilledByBankruptcy,
                        Kind::PropagateStakedSettings => matches!(*f, "config.asset_weight_init" | "config.asset_weight_maint" | "config.deposit_limit" | "config.total_asset_value_init_limit" | "config.oracle_keys" | "config.oracle_max_age" | "config.risk_tier"),
                        Kind::MigrateCurve => *f == "config.interest_rate_config",
                        Kind::Repay => *f == "flags" && (pre.flags ^ post.flags) == 1 << 6 && pre.flags & (1 << 5) != 0,
                        _ => false,
                    };
                    if !sanctioned {
                        self.r.violate("C08", &format!("C08/{}/bank-setting-changed-by-an-instruction-without-a-role/{}", info.kind.name(), f), format!("bank {}: {} changed; signers {:?}", bk, f, info.signers));
                    }
                }
            }
        }
        // balances / funds of an account change only with an entitled signature
        for (i, (ak, ap, aq)) in info.accts.iter().enumerate() {
            let (p, q) = match (ap, aq) {
                (Some(p), Some(q)) => (p, q),
                (Some(p), None) => {
                    // closed: authority must have signed
                    if !info.signers.contains(&p.authority) {
                        self.r.violate("C08", &format!("C08/{}/account-closed-without-authority", info.kind.name()), format!("account {}", ak));
                    }
                    continue;
                }
                _ => continue,
            };
            let shares_changed = p.lending_account.balances.iter().zip(q.lending_account.balances.iter()).any(|(x, y)| x.asset_shares != y.asset_shares || x.liability_shares != y.liability_shares || x.bank_pk != y.bank_pk || x.active != y.active);
            let meta_changed = p.authority != q.authority || p.group != q.group || p.emissions_destination_account != q.emissions_destination_account || (p.account_flags ^ q.account_flags) & (ACCOUNT_DISABLED | ACCOUNT_FROZEN) != 0;
            if !shares_changed && !meta_changed {
                continue;
            }
            self.r.eval();
            let auth_signed = info.signers.contains(&p.authority);
            let admin_signed = g.as_ref().map(|g| info.signers.contains(&g.admin)).unwrap_or(false);
            let risk_signed = g.as_ref().map(|g| info.signers.contains(&g.risk_admin)).unwrap_or(false);
            let frozen = p.account_flags & ACCOUNT_FROZEN != 0;
            let u_rule = if frozen { admin_signed } else { auth_signed };
            // "strictly inside an active receivership": the bracket was opened in this very transaction
            let in_rcv = p.account_flags & ACCOUNT_IN_RECEIVERSHIP != 0 && self.rcv_started_in_tx.contains(ak);
            if p.account_flags & ACCOUNT_IN_RECEIVERSHIP != 0 && !self.rcv_started_in_tx.contains(ak) {
                self.r.count("C08.receivership_marker_present_without_start_in_this_transaction");
            }
            let (ok, rule) = match info.kind {
                Kind::Deposit | Kind::Borrow | Kind::CloseBalance | Kind::WithdrawEmissions | Kind::TransferAccount | Kind::TransferAccountPda | Kind::KaminoDeposit | Kind::DriftDeposit | Kind::SolendDeposit => (u_rule, "authority-or-admin-if-frozen"),
                Kind::Withdraw | Kind::Repay | Kind::KaminoWithdraw | Kind::DriftWithdraw | Kind::SolendWithdraw => (u_rule || in_rcv, "authority-admin-if-frozen-or-receivership"),
                Kind::Liquidate => {
                    if i == 0 {
                        (u_rule, "liquidator-authority")
                    } else {
                        (true, "liquidation-of-qualifying-account")
                    }
                }
                Kind::HandleBankruptcy => (true, "bankruptcy-of-qualifying-account"),
                Kind::StartFlashloan | Kind::EndFlashloan | Kind::UpdateEmissionsDestination | Kind::CloseAccount => (auth_signed, "authority"),
                Kind::SetFreeze => (admin_signed, "group-admin"),
                Kind::PurgeDelevBalance => (risk_signed, "risk-admin"),
                Kind::StartLiquidation | Kind::EndLiquidation | Kind::StartDeleverage | Kind::EndDeleverage | Kind::SettleEmissions | Kind::PulseHealth | Kind::WithdrawEmissionsPermissionless | Kind::InitLiqRecord => (!shares_changed && !meta_changed, "no-balance-change-expected"),
                Kind::AccountInit | Kind::AccountInitPda => (true, "new-account"),
                _ => (false, "unexpected-instruction-changed-an-account"),
            };
            // writing a debt off without tokens is an administrative act of the risk admin (on a bank
            // the group admin opted in): a repayment that lowers the debt while nothing reaches the
            // bank's vault must carry the risk admin's signature, receivership or not
            if info.kind == Kind::Repay && i == 0 {
                if let Some((bk, Some(_), Some(_))) = info.banks.first().map(|(k, a, b)| (k, a.as_ref(), b.as_ref())) {
                    if let Some(bi) = w.bank_by_key(bk) {
                        let lv = w.banks[bi].k.lv;
                        let lsh = |a: &MarginfiAccount| a.lending_account.balances.iter().find(|b| b.active != 0 && &b.bank_pk == bk).map(|b| wbits(&b.liability_shares)).unwrap_or(0);
                        let (pl, ql) = (lsh(p), lsh(q));
                        if let (Some(v0), Some(v1)) = (v.pre(&lv).and_then(token_amount), v.post(&lv).and_then(token_amount)) {
                            if ql < pl && bits_to_rat(pl - ql) >= one() && v1 <= v0 {
                                self.r.count("C08.debts_lowered_without_tokens");
                                if !risk_signed {
                                    self.r.violate("C08", "C08/Repay/debt-written-off-without-tokens-and-without-the-risk-admin", format!("account {}: liability shares {} -> {} in bank {}, vault {} -> {}, signers {:?}", ak, pl, ql, bk, v0, v1, info.signers));
                                }
                            }
                        }
                    }
                }
            }
            self.r.count(&format!("C08.attributed/{}", rule));
            self.r.distinct(&("attr", info.kind.name(), rule, frozen, in_rcv));
            if !ok {
                self.r.violate("C08", &format!("C08/{}/balances-changed-without-entitled-signer", info.kind.name()), format!("account {} (authority {}, frozen {}, in receivership {}): rule {} signers {:?}", ak, p.authority, frozen, in_rcv, rule, info.signers));
            }
        }
    }

    // ------------------------------------------------------------------ C19
    fn c19_ix(&mut self, w: &World, v: &IxView, info: &IxInfo) {
        // who may draw down fee / insurance vaults
        for (bk, pre, _post) in &info.banks {
            let pre = match pre {
                Some(p) => p,
                None => continue,
            };
            let bi = match w.bank_by_key(bk) {
                Some(i) => i,
                None => continue,
            };
            let k = w.banks[bi].k;
            // the bank's own group, whether or not the caller presented it
            let g = v.pre(&pre.group).and_then(group_of).or_else(|| w.shadow.get(&pre.group).and_then(|a| group_of(&a.data)));
            let admin_signed = g.as_ref().map(|g| info.signers.contains(&g.admin)).unwrap_or(false);
            if info.kind == Kind::UpdateFeesDestination {
                if let Some(post) = _post {
                    if post.fees_destination_account != pre.fees_destination_account {
                        self.r.eval();
                        self.r.count("C19.fees_destination_changes");
                        if !admin_signed {
                            self.r.violate("C19", "C19/UpdateFeesDestination/destination-of-permissionless-fee-withdrawals-changed-without-the-bank's-group-admin", format!("bank {}: {} -> {} signers {:?}", bk, pre.fees_destination_account, post.fees_destination_account, info.signers));
                        }
                    }
                }
            }
            for (name, vault) in [("fee", k.fv), ("insurance", k.iv)] {
                if let (Some(a), Some(b)) = (v.pre(&vault).and_then(token_amount), v.post(&vault).and_then(token_amount)) {
                    if b < a {
                        self.r.eval();
                        self.r.count(&format!("C19.{}_vault_drawdowns/{}", name, info.kind.name()));
                        let ok = match (name, info.kind) {
                            (_, Kind::WithdrawFees) | (_, Kind::WithdrawInsurance) => admin_signed,
                            ("fee", Kind::WithdrawFeesPermissionless) => {
                                // into the token account the admin fixed as destination, nowhere else
                                // (a Token-2022 transfer fee may keep the whole amount as withheld fee, so
                                // "the destination gained" is not required - "nobody else gained" is)
                                let dst = pre.fees_destination_account;
                                let others_gained = v.ev.pre.iter().any(|s| s.key != dst && s.key != vault && token_amount(&s.data).map(|a0| v.post(&s.key).and_then(token_amount).unwrap_or(0) > a0).unwrap_or(false));
                                pre.fees_destination_account != Pubkey::default() && v.ev.pre_of(&dst).is_some() && !others_gained
                            }
                            ("insurance", Kind::HandleBankruptcy) => true,
                            _ => false,
                        };
                        if !ok {
                            self.r.violate("C19", &format!("C19/{}/{}-vault-drawn-down-by-unentitled-path", info.kind.name(), name), format!("bank {}: {} -> {} signers {:?}", bk, a, b, info.signers));
                        }
                    }
                }
            }
        }
        match info.kind {
            Kind::CollectFees => self.c19_collect(w, v, info),
            _ => {}
        }
        self.c19_emissions(w, v, info);
    }

    fn c19_collect(&mut self, w: &World, v: &IxView, info: &IxInfo) {
        let (bk, bp, bq) = match info.banks.first() {
            Some((k, Some(p), Some(q))) => (k, p, q),
            _ => return,
        };
        let bi = match w.bank_by_key(bk) {
            Some(i) => i,
            None => return,
        };
        let k = w.banks[bi].k;
        let m = w.mint_of_bank(bi);
        let fs = match w.shadow.get(&crate::ix::fee_state_key()).and_then(|a| fee_state_of(&a.data)) {
            Some(f) => f,
            None => return,
        };
        let fee_ata = crate::ix::ata(&fs.global_fee_wallet, &m.key, &m.program());
        let amt = |key: &Pubkey, post: bool| -> Option<i128> { (if post { v.post(key) } else { v.pre(key) }).and_then(token_amount).map(|x| x as i128) };
        let (lv0, lv1) = match (amt(&k.lv, false), amt(&k.lv, true)) {
            (Some(a), Some(b)) => (a, b),
            _ => return,
        };
        self.r.eval();
        self.r.count("C19.collections");
        let (qp, qq) = (BankQ::of(bp), BankQ::of(bq));
        // bucket reductions = amounts sent (sender side)
        let t = [&qp.f_ins - &qq.f_ins, &qp.f_grp - &qq.f_grp, &qp.f_prog - &qq.f_prog];
        let fl = [floor(&qp.f_ins), floor(&qp.f_grp), floor(&qp.f_prog)];
        let names = ["insurance", "group", "program"];
        let dests = [k.iv, k.fv, fee_ata];
        let mut total = zero();
        let mut clamp = false;
        for i in 0..3 {
            total += &t[i];
            if t[i].is_negative() || t[i] != floor(&t[i]) {
                self.r.violate("C19", &format!("C19/CollectFees/{}-bucket-not-reduced-by-whole-tokens", names[i]), format!("bank {}: bucket {} -> reduced by {}", bk, show(&[&qp.f_ins, &qp.f_grp, &qp.f_prog][i]), show(&t[i])));
            }
            if t[i] > fl[i] {
                self.r.violate("C19", &format!("C19/CollectFees/{}-more-than-whole-part-of-bucket", names[i]), format!("bank {}: moved {} bucket {}", bk, show(&t[i]), show(&fl[i])));
            }
            if t[i] < fl[i] {
                clamp = true;
            }
            // destination received what was sent (minus a possible token-2022 transfer fee)
            if let (Some(d0), Some(d1)) = (amt(&dests[i], false), amt(&dests[i], true)) {
                let got = ri(d1 - d0);
                if got > t[i] || got < zero() {
                    self.r.violate("C19", &format!("C19/CollectFees/{}-destination-received-more-than-sent", names[i]), format!("sent {} received {}", show(&t[i]), show(&got)));
                }
                if !matches!(m.kind, crate::world::TokKind::T22Fee { .. }) && got != t[i] {
                    self.r.violate("C19", &format!("C19/CollectFees/{}-did-not-reach-its-destination", names[i]), format!("sent {} received {} at {}", show(&t[i]), show(&got), dests[i]));
                }
            } else if t[i].is_positive() {
                self.r.violate("C19", &format!("C19/CollectFees/{}-destination-not-the-designated-account", names[i]), format!("expected destination {} not among the instruction's accounts", dests[i]));
            }
        }
        let out = ri(lv0 - lv1);
        if out != total {
            self.r.violate("C19", "C19/CollectFees/liquidity-vault-outflow-differs-from-bucket-reductions", format!("bank {}: vault paid {} buckets reduced by {}", bk, show(&out), show(&total)));
        }
        if clamp && lv1 > 0 {
            self.r.violate("C19", "C19/CollectFees/bucket-left-uncollected-although-liquidity-remained", format!("bank {}: vault left {} buckets {:?} moved {:?}", bk, lv1, fl.iter().map(show).collect::<Vec<_>>(), t.iter().map(show).collect::<Vec<_>>()));
        }
        self.r.count(if clamp { "C19.collections_limited_by_liquidity" } else { "C19.collections_in_full" });
        self.r.distinct(&("collect", clamp, fl.iter().map(|x| x.is_positive()).collect::<Vec<_>>(), qp.f_ins != floor(&qp.f_ins), matches!(m.kind, crate::world::TokKind::T22Fee { .. })));
        self.r.sample_kind("CollectFees", json!({"bank": bk.to_string(), "buckets": [show(&qp.f_ins), show(&qp.f_grp), show(&qp.f_prog)], "moved": [show(&t[0]), show(&t[1]), show(&t[2])], "vault_before": lv0, "vault_after": lv1}));
    }

    fn c19_emissions(&mut self, w: &World, v: &IxView, info: &IxInfo) {
        for (bk, bp, bq) in &info.banks {
            let (bp, bq) = match (bp, bq) {
                (Some(a), Some(b)) => (a, b),
                _ => continue,
            };
            if bq.emissions_mint == Pubkey::default() {
                continue;
            }
            let rem0 = w_(&bp.emissions_remaining);
            let rem1 = w_(&bq.emissions_remaining);
            // credits to positions in this instruction
            let mut credited = zero();
            let mut bound = zero();
            let mut low_bound = zero();
            let mut low_n = 0u32;
            let mut closed_any = false;
            for (_ak, ap, aq) in &info.accts {
                if let (Some(p), Some(q)) = (ap, aq) {
                    for (x, y) in p.lending_account.balances.iter().zip(q.lending_account.balances.iter()) {
                        if x.active != 0 && &x.bank_pk == bk {
                            // the same position (sorting may move it: match by bank key in q)
                            let _ = y;
                            let yq = match q.lending_account.balances.iter().find(|b| b.active != 0 && &b.bank_pk == bk) {
                                Some(b) => b,
                                None => {
                                    // position closed by this instruction: its sub-unit credit remainder is abandoned
                                    self.r.count("C19.positions_closed_with_emission_remainder_skipped");
                                    closed_any = true;
                                    continue;
                                }
                            };
                            // the position's emissions clock is stamped whenever the position is
                            // settled or changed, whichever side it is on (time spent on a side
                            // that earns nothing must not be paid for later)
                            let touched = matches!(info.kind, Kind::SettleEmissions | Kind::WithdrawEmissions | Kind::WithdrawEmissionsPermissionless) || w_(&yq.asset_shares) != w_(&x.asset_shares) || w_(&yq.liability_shares) != w_(&x.liability_shares);
                            if touched && info.kind != Kind::TransferAccount && info.kind != Kind::TransferAccountPda && info.kind != Kind::HandleBankruptcy {
                                self.r.count("C19.emission_clock_stamps_checked");
                                if yq.last_update != info.now as u64 {
                                    self.r.violate("C19", &format!("C19/{}/emissions-clock-not-stamped", info.kind.name()), format!("bank {}: position last_update {} -> {} at time {}", bk, x.last_update, yq.last_update, info.now));
                                }
                            }
                            let d = w_(&yq.emissions_outstanding) - w_(&x.emissions_outstanding);
                            credited += &d;
                            // proportional bound: amount * dt * rate / (year * 10^dec)
                            let dt = if x.last_update < 1681989983 { 0 } else { (info.now as u64).saturating_sub(x.last_update) };
                            let (qa, ql) = (w_(&x.asset_shares) * w_(&bq.asset_share_value), w_(&x.liability_shares) * w_(&bq.liability_share_value));
                            let amt = rmax(&qa, &ql);
                            bound += amt * ru(dt as u128) * ru(bq.emissions_rate as u128) / (ri(31_536_000) * pow10(balance_decimals(bq)));
                            // lower bound: a position whose emission clock was moved to now was
                            // claimed for; if its side earns emissions it must have been credited
                            // in proportion to its size (at the smaller of the share values seen)
                            let claimed = yq.last_update == info.now as u64 && x.last_update >= 1681989983 && x.last_update < info.now as u64;
                            let side_liab = w_(&x.liability_shares) >= one();
                            let side_asset = !side_liab && w_(&x.asset_shares) >= one();
                            let earns = (side_liab && bp.flags & 1 != 0 && bq.flags & 1 != 0) || (side_asset && bp.flags & 2 != 0 && bq.flags & 2 != 0);
                            if claimed && earns && bp.emissions_rate == bq.emissions_rate {
                                let sv = |b: &Bank| if side_liab { w_(&b.liability_share_value) } else { w_(&b.asset_share_value) };
                                let shares = if side_liab { w_(&x.liability_shares) } else { w_(&x.asset_shares) };
                                let low_amt = shares * if sv(bp) < sv(bq) { sv(bp) } else { sv(bq) };
                                let rate = ru(bq.emissions_rate as u128);
                                let exact = low_amt * ru(dt as u128) * &rate / (ri(31_536_000) * pow10(balance_decimals(bq)));
                                // the program truncates amount/10^dec and the division by the year on the 2^-48 grid before multiplying by the rate
                                low_bound += exact - (&rate * ri(4) + ri(8)) * ulp();
                                low_n += 1;
                            }
                        }
                    }
                }
            }
            let ev = crate::ix::emissions_vault(bk, &bq.emissions_mint);
            let paid = match (v.pre(&ev).and_then(token_amount), v.post(&ev).and_then(token_amount)) {
                (Some(a), Some(b)) => ri(a as i128 - b as i128),
                _ => zero(),
            };
            if credited.is_zero() && paid.is_zero() && rem0 == rem1 {
                continue;
            }
            self.r.eval();
            self.r.count(&format!("C19.emission_events/{}", info.kind.name()));
            if rem1.is_negative() {
                self.r.violate("C19", &format!("C19/{}/emissions-credited-beyond-remaining", info.kind.name()), format!("bank {}: remaining {} -> {}", bk, show(&rem0), show(&rem1)));
            }
            if !matches!(info.kind, Kind::SetupEmissions | Kind::UpdateEmissionsParameters) && !closed_any {
                // remaining falls by exactly what positions were credited (+ what was paid out of credits)
                let newly = &credited + &paid; // paid tokens come out of outstanding credits
                let drop = &rem0 - &rem1;
                if abs(&(&drop - &newly)) > ulp() * ri(8) && paid.is_zero() {
                    self.r.violate("C19", &format!("C19/{}/emissions-remaining-not-reduced-by-credits", info.kind.name()), format!("bank {}: remaining fell {} credits {}", bk, show(&drop), show(&credited)));
                }
                let tol = (&bound + one()) * rq(1, 1_000_000) + ulp() * ri(64);
                if drop > &bound + &tol {
                    self.r.violate("C19", &format!("C19/{}/emissions-credit-above-proportional-amount", info.kind.name()), format!("bank {}: credited {} bound {} (rate {})", bk, show(&drop), show(&bound), bq.emissions_rate));
                }
                // ... and not less: while the bank's budget is not exhausted (remaining > 0 afterwards
                // means no claim was capped) every claimed-for earning position got its proportional share
                if low_n > 0 && rem1.is_positive() {
                    self.r.count("C19.emission_lower_bounds_checked");
                    if side_counts(&info.accts, bk).1 > 0 {
                        self.r.count("C19.emission_lower_bounds_checked_borrow_side");
                    }
                    let tol = (&low_bound + one()) * rq(1, 1_000_000);
                    // credits that were paid out in the same instruction left `outstanding` again
                    if &newly + &tol < low_bound {
                        self.r.violate("C19", &format!("C19/{}/emissions-credit-below-proportional-amount", info.kind.name()), format!("bank {}: credited {} but size x time x rate gives at least {} (rate {}, {} position(s))", bk, show(&newly), show(&low_bound), bq.emissions_rate, low_n));
                    }
                }
                self.r.distinct(&("emis", info.kind.name(), drop.is_positive(), paid.is_positive()));
            }
            if paid.is_positive() {
                let ok = match info.kind {
                    Kind::WithdrawEmissions => info.accts.first().and_then(|(_, p, _)| p.as_ref()).map(|p| info.signers.contains(&p.authority) || p.account_flags & ACCOUNT_FROZEN != 0).unwrap_or(false),
                    Kind::WithdrawEmissionsPermissionless => {
                        let m_prog = v.ev.pre.iter().find(|s| s.key == spl_token::ID || s.key == anchor_spl::token_2022::ID).map(|s| s.key).unwrap_or(spl_token::ID);
                        info.accts.first().and_then(|(_, p, _)| p.as_ref()).map(|p| {
                            let dst = crate::ix::ata(&p.emissions_destination_account, &bq.emissions_mint, &m_prog);
                            // with a transfer fee a small payout may be withheld entirely: the payout must
                            // be addressed to the registered destination and nobody else may gain
                            let evault = crate::ix::emissions_vault(bk, &bq.emissions_mint);
                            let others_gained = v.ev.pre.iter().any(|s| s.key != dst && s.key != evault && token_amount(&s.data).map(|a0| v.post(&s.key).and_then(token_amount).unwrap_or(0) > a0).unwrap_or(false));
                            p.emissions_destination_account != Pubkey::default() && v.ev.pre_of(&dst).is_some() && !others_gained
                        }).unwrap_or(false)
                    }
                    _ => false,
                };
                self.r.count("C19.emission_payouts");
                if !ok {
                    self.r.violate("C19", &format!("C19/{}/emissions-paid-to-unentitled-destination", info.kind.name()), format!("bank {}: {} paid", bk, show(&paid)));
                    self.r.violate("C08", &format!("C08/{}/rewards-moved-out-without-the-authority's-signature-or-its-registered-destination", info.kind.name()), format!("bank {}: {} paid; signers {:?}", bk, show(&paid), info.signers));
                }
            }
        }
    }

    /// vault of every emitting bank covers remaining + outstanding credits
    pub fn c19_commit(&mut self, w: &World) {
        for bd in &w.banks {
            let b = match w.shadow.get(&bd.key).and_then(|a| bank_of(&a.data)) {
                Some(b) => b,
                None => continue,
            };
            if b.emissions_mint == Pubkey::default() {
                continue;
            }
            let ev = crate::ix::emissions_vault(&bd.key, &b.emissions_mint);
            let have = match w.shadow.get(&ev).and_then(|a| token_amount(&a.data)) {
                Some(x) => x,
                None => continue,
            };
            let mut owed = w_(&b.emissions_remaining);
            for (_k, a) in w.shadow.iter().filter(|(_, a)| a.owner == MFI) {
                if let Some(acc) = acct_of(&a.data) {
                    for bal in acc.lending_account.balances.iter().filter(|x| x.active != 0 && x.bank_pk == bd.key) {
                        owed += w_(&bal.emissions_outstanding);
                    }
                }
            }
            self.r.eval();
            if ru(have as u128) + one() < owed {
                self.r.violate("C19", "C19/commit/emissions-vault-below-remaining-plus-outstanding", format!("bank {}: vault {} owed {}", bd.key, have, show(&owed)));
            }
        }
    }
}

fn w_(x: &WrappedI80F48) -> Rat {
    w(x)
}
