//! Administrative workload: every admin instruction with boundary / hostile arguments, signed by
//! the entitled role or by somebody else, on frozen and unfrozen banks, interleaved with user
//! activity. Feeds the C08 / C12 / C13 / C14 / C19 monitors.
use crate::chain::TxOut;
use crate::ix;
use crate::mon::Mon;
use crate::num::*;
use crate::state::*;
use crate::storm::{pick, Storm, R};
use crate::world::*;
use fixed::types::I80F48;
use marginfi_type_crate::types::*;
use rand::Rng;
use solana_sdk::pubkey::Pubkey;
use solana_sdk::signature::{Keypair, Signer};

pub fn rand_weight(r: &mut R) -> WrappedI80F48 {
    match r.gen_range(0..16) {
        0 => wi(-0.1),
        1 => wi(0.0),
        2 => wi(0.3),
        3 => wi(0.5),
        4 => wi(0.8),
        5 => wi(0.95),
        6 => wi(1.0),
        7 => wbitsv((1i128 << 48) + 1),
        8 => wi(1.2),
        9 => wi(2.0),
        10 => wbitsv((2i128 << 48) + 1),
        11 => wi(5.0),
        12 => wi(1e6),
        13 => wbitsv((1i128 << 48) - 1),
        _ => wi(r.gen_range(0.0..2.2)),
    }
}
pub fn rand_u64(r: &mut R) -> u64 {
    match r.gen_range(0..8) {
        0 => 0,
        1 => 1,
        2 => u64::MAX,
        3 => u64::MAX - 1,
        4 => 1 << r.gen_range(0..64),
        _ => r.gen::<u64>() >> r.gen_range(0..64),
    }
}
pub fn rand_flags(r: &mut R) -> u64 {
    match r.gen_range(0..8) {
        0 => 0,
        1 => u64::MAX,
        2 => 1,
        3 => 2,
        4 => 3,
        5 => 1u64 << r.gen_range(0..64),
        6 => 0b1111_1111,
        _ => r.gen::<u64>(),
    }
}
macro_rules! opt {
    ($r:expr, $p:expr, $v:expr) => {{
        let __v = $v;
        if $r.gen_bool($p) {
            Some(__v)
        } else {
            None
        }
    }};
}

pub fn rand_interest_opt(r: &mut R) -> InterestRateConfigOpt {
    let mut o = InterestRateConfigOpt::default();
    let fee = |r: &mut R| wi(pick(r, &[0.0, 0.001, 0.01, 0.1, 0.5, 3.0, -0.01]));
    o.insurance_fee_fixed_apr = opt!(r, 0.3, fee(r));
    o.insurance_ir_fee = opt!(r, 0.3, fee(r));
    o.protocol_fixed_fee_apr = opt!(r, 0.3, fee(r));
    o.protocol_ir_fee = opt!(r, 0.3, fee(r));
    o.protocol_origination_fee = opt!(r, 0.3, wi(pick(r, &[0.0, 0.001, 0.05])));
    let z = r.gen::<u32>() >> r.gen_range(0..32);
    let h = z.saturating_add(r.gen::<u32>() >> r.gen_range(0..32));
    o.zero_util_rate = opt!(r, 0.5, z);
    o.hundred_util_rate = opt!(r, 0.5, if r.gen_bool(0.9) { h } else { z / 2 });
    if r.gen_bool(0.5) {
        let n = r.gen_range(0..=5usize);
        let mut us: Vec<u32> = (0..n).map(|_| r.gen::<u32>().max(1)).collect();
        us.sort();
        us.dedup();
        let mut rs: Vec<u32> = (0..us.len()).map(|_| if h > z { r.gen_range(z..=h) } else { z }).collect();
        if r.gen_bool(0.85) {
            rs.sort();
        }
        let pts: Vec<RatePoint> = us.iter().zip(rs.iter()).map(|(u, x)| RatePoint::new(*u, *x)).collect();
        o.points = Some(make_points(&pts));
    }
    o
}

pub fn rand_bank_opt(r: &mut R) -> BankConfigOpt {
    let mut o = BankConfigOpt::default();
    o.asset_weight_init = opt!(r, 0.35, rand_weight(r));
    o.asset_weight_maint = opt!(r, 0.35, rand_weight(r));
    o.liability_weight_init = opt!(r, 0.35, rand_weight(r));
    o.liability_weight_maint = opt!(r, 0.35, rand_weight(r));
    o.deposit_limit = opt!(r, 0.3, rand_u64(r));
    o.borrow_limit = opt!(r, 0.3, rand_u64(r));
    o.operational_state = opt!(r, 0.3, pick(r, &[BankOperationalState::Operational, BankOperationalState::Operational, BankOperationalState::Paused, BankOperationalState::ReduceOnly, BankOperationalState::KilledByBankruptcy]));
    o.interest_rate_config = opt!(r, 0.2, rand_interest_opt(r));
    o.risk_tier = opt!(r, 0.15, pick(r, &[RiskTier::Collateral, RiskTier::Isolated]));
    o.asset_tag = opt!(r, 0.05, pick(r, &[0u8, 1]));
    o.total_asset_value_init_limit = opt!(r, 0.2, rand_u64(r));
    o.oracle_max_confidence = opt!(r, 0.2, r.gen::<u32>());
    o.oracle_max_age = opt!(r, 0.2, pick(r, &[0u16, 9, 10, 60, 65535]));
    o.permissionless_bad_debt_settlement = opt!(r, 0.15, r.gen_bool(0.5));
    o.freeze_settings = opt!(r, 0.12, r.gen_bool(0.7));
    o.tokenless_repayments_allowed = opt!(r, 0.03, r.gen_bool(0.5));
    o
}

/// A creation-time configuration: the default one with several fields replaced by boundary /
/// hostile values (most requests stay acceptable; some must be refused).
pub fn rand_bank_compact(r: &mut R) -> BankConfigCompact {
    let mut c = default_bank_cfg();
    let o = rand_bank_opt(r);
    if let Some(x) = o.asset_weight_init {
        c.asset_weight_init = x;
    }
    if let Some(x) = o.asset_weight_maint {
        c.asset_weight_maint = x;
    }
    if let Some(x) = o.liability_weight_init {
        c.liability_weight_init = x;
    }
    if let Some(x) = o.liability_weight_maint {
        c.liability_weight_maint = x;
    }
    if let Some(x) = o.deposit_limit {
        c.deposit_limit = x;
    }
    if let Some(x) = o.borrow_limit {
        c.borrow_limit = x;
    }
    if let Some(x) = o.operational_state {
        c.operational_state = x;
    }
    if let Some(x) = o.risk_tier {
        c.risk_tier = x;
        if x == RiskTier::Isolated && r.gen_bool(0.6) {
            c.asset_weight_init = wi(0.0);
            c.asset_weight_maint = wi(0.0);
        }
    }
    if let Some(x) = o.total_asset_value_init_limit {
        c.total_asset_value_init_limit = x;
    }
    if let Some(x) = o.oracle_max_confidence {
        c.oracle_max_confidence = x;
    }
    if let Some(x) = o.oracle_max_age {
        c.oracle_max_age = x;
    }
    if r.gen_bool(0.4) {
        let i = rand_interest_opt(r);
        let k = &mut c.interest_rate_config;
        if let Some(x) = i.insurance_fee_fixed_apr {
            k.insurance_fee_fixed_apr = x;
        }
        if let Some(x) = i.insurance_ir_fee {
            k.insurance_ir_fee = x;
        }
        if let Some(x) = i.protocol_fixed_fee_apr {
            k.protocol_fixed_fee_apr = x;
        }
        if let Some(x) = i.protocol_ir_fee {
            k.protocol_ir_fee = x;
        }
        if let Some(x) = i.protocol_origination_fee {
            k.protocol_origination_fee = x;
        }
        if let Some(x) = i.zero_util_rate {
            k.zero_util_rate = x;
        }
        if let Some(x) = i.hundred_util_rate {
            k.hundred_util_rate = x;
        }
        if let Some(x) = i.points {
            k.points = x;
        }
    }
    if r.gen_bool(0.05) {
        c.asset_tag = pick(r, &[1u8, 2, 3, 4, 5, 9]);
    }
    if r.gen_bool(0.05) {
        c.config_flags = r.gen::<u8>();
    }
    c
}

pub fn rand_emode_entries(r: &mut R) -> [EmodeEntry; MAX_EMODE_ENTRIES] {
    let z: WrappedI80F48 = I80F48::ZERO.into();
    let mut e = [EmodeEntry { collateral_bank_emode_tag: 0, flags: 0, pad0: [0; 5], asset_weight_init: z, asset_weight_maint: z }; MAX_EMODE_ENTRIES];
    let n = r.gen_range(0..=4usize);
    for i in 0..n {
        let init = pick(r, &[0.0f64, 0.5, 0.8, 0.9, 0.95, 0.99, 1.0, 1.05, 1.1, 1.3]);
        let maint = if r.gen_bool(0.9) { init + pick(r, &[0.0, 0.01, 0.05, 0.2]) } else { init - 0.05 };
        e[i] = EmodeEntry { collateral_bank_emode_tag: pick(r, &[1u16, 2, 3, 7, 7, 9]), flags: pick(r, &[0u8, 0, 1]), pad0: [0; 5], asset_weight_init: wi(init), asset_weight_maint: wi(maint) };
    }
    e
}

pub struct Admin {
    pub g: usize,
    pub emint: Option<usize>,
    pub steps: u64,
}

impl Admin {
    /// every identity that can sign: (name, keypair)
    pub fn identities(w: &World, g: usize) -> Vec<(&'static str, Keypair)> {
        let gd = &w.groups[g];
        let mut v = vec![
            ("admin", clone_kp(&gd.admin)),
            ("emode", clone_kp(&gd.emode)),
            ("curve", clone_kp(&gd.curve)),
            ("limit", clone_kp(&gd.limit)),
            ("emissions", clone_kp(&gd.emissions)),
            ("metadata", clone_kp(&gd.metadata)),
            ("risk", clone_kp(&gd.risk)),
            ("fee_admin", clone_kp(&w.fee_admin)),
            ("stranger", w.user_kp(0)),
        ];
        if w.groups.len() > 1 {
            v.push(("other_group_admin", clone_kp(&w.groups[1 - g.min(1)].admin)));
        }
        v
    }
    fn signer_for(&self, w: &World, r: &mut R, role: &str) -> Keypair {
        let ids = Admin::identities(w, self.g);
        if r.gen_bool(0.8) {
            ids.into_iter().find(|(n, _)| *n == role).map(|x| x.1).unwrap()
        } else {
            let i = r.gen_range(0..ids.len());
            ids.into_iter().nth(i).unwrap().1
        }
    }

    pub async fn step(&mut self, w: &mut World, m: &mut Mon, r: &mut R) -> Option<TxOut> {
        self.steps += 1;
        let gk = w.groups[self.g].key;
        let banks: Vec<usize> = (0..w.banks.len()).filter(|b| w.banks[*b].group == self.g).collect();
        let b = pick(r, &banks);
        let bk = w.banks[b].key;
        if r.gen_bool(0.04) {
            return Some(self.create_bank(w, m, r).await);
        }
        let roll = r.gen_range(0..100);
        let out = match roll {
            0..=17 => {
                let s = self.signer_for(w, r, "admin");
                let i = ix::configure_bank(gk, s.pubkey(), bk, rand_bank_opt(r));
                w.exec(m, &[i], &[&s]).await
            }
            18..=27 => {
                let s = self.signer_for(w, r, "curve");
                let i = ix::configure_bank_interest(gk, s.pubkey(), bk, rand_interest_opt(r));
                w.exec(m, &[i], &[&s]).await
            }
            28..=37 => {
                let s = self.signer_for(w, r, "limit");
                let i = ix::configure_bank_limits(gk, s.pubkey(), bk, opt!(r, 0.6, rand_u64(r)), opt!(r, 0.6, rand_u64(r)), opt!(r, 0.5, rand_u64(r)));
                w.exec(m, &[i], &[&s]).await
            }
            38..=47 => {
                let s = self.signer_for(w, r, "emode");
                let i = ix::configure_bank_emode(gk, s.pubkey(), bk, pick(r, &[0u16, 1, 2, 7, 9]), rand_emode_entries(r));
                w.exec(m, &[i], &[&s]).await
            }
            48..=53 => {
                let s = if r.gen_bool(0.5) { self.signer_for(w, r, "admin") } else { self.signer_for(w, r, "emode") };
                let b2 = pick(r, &banks);
                let i = ix::clone_emode(gk, s.pubkey(), bk, w.banks[b2].key);
                w.exec(m, &[i], &[&s]).await
            }
            54..=63 => self.emissions(w, m, r, b).await,
            64..=66 => {
                let s = self.signer_for(w, r, "risk");
                let i = ix::force_tokenless_complete(gk, s.pubkey(), bk);
                w.exec(m, &[i], &[&s]).await
            }
            67..=70 => {
                let s = self.signer_for(w, r, "admin");
                let caps = [None, Some(wi(1.5)), Some(wi(15.0)), Some(wi(20.0)), Some(wi(99.0)), Some(wi(100.0)), Some(wi(2.0))];
                let (ci, cm) = (pick(r, &caps), pick(r, &caps));
                if r.gen_bool(0.3) {
                    // role rotation: two delegated roles are handed to one shared key (or revoked to
                    // the default key) in a single call, then the original keys are put back
                    let orig = w.groups[self.g].roles();
                    let mut rot = orig;
                    let shared = pick(r, &[Pubkey::default(), w.user_kp(0).pubkey(), orig.emode, orig.metadata, orig.risk]);
                    for _ in 0..2 {
                        match r.gen_range(0..6) {
                            0 => rot.emode = shared,
                            1 => rot.curve = shared,
                            2 => rot.limit = shared,
                            3 => rot.emissions = shared,
                            4 => rot.metadata = shared,
                            _ => rot.risk = shared,
                        }
                    }
                    let i = ix::group_configure(gk, s.pubkey(), rot, ci, cm);
                    let o = w.exec(m, &[i], &[&s]).await;
                    if o.ok() {
                        let admin = clone_kp(&w.groups[self.g].admin);
                        let i = ix::group_configure(gk, admin.pubkey(), orig, None, None);
                        let back = w.exec(m, &[i], &[&admin]).await;
                        assert!(back.ok(), "roles could not be restored: {}", back.err_string());
                        m.r.count("admin.role_rotations");
                    }
                    return Some(o);
                }
                let i = ix::group_configure(gk, s.pubkey(), w.groups[self.g].roles(), ci, cm);
                w.exec(m, &[i], &[&s]).await
            }
            71..=74 => {
                let s = self.signer_for(w, r, "admin");
                let i = ix::set_fixed_price(gk, s.pubkey(), bk, pick(r, &[wi(0.0), wi(1.0), wi(-1.0), wi(12345.678)]));
                let o = w.exec(m, &[i], &[&s]).await;
                if o.ok() {
                    w.banks[b].oracle = OracleD::Fixed;
                }
                o
            }
            75..=78 => {
                // (re)point the bank at a fresh pyth oracle
                let s = self.signer_for(w, r, "admin");
                let ok = w.next_kp().pubkey();
                let now = w.chain.now();
                w.set_pyth(&ok, PythPx::simple(pick(r, &[1_000_000i64, 25_000_000, 150_000_000]), -6, now));
                let i = ix::configure_bank_oracle(gk, s.pubkey(), bk, 3, ok, vec![ix::ro(ok)]);
                let o = w.exec(m, &[i], &[&s]).await;
                if o.ok() {
                    w.banks[b].oracle = OracleD::Pyth(ok);
                }
                o
            }
            79..=82 => {
                let s = self.signer_for(w, r, "metadata");
                let p = w.chain.payer.pubkey();
                let has = w.shadow.contains_key(&ix::metadata_key(&bk));
                if !has {
                    let i0 = ix::init_bank_metadata(bk, p);
                    let _ = w.exec(m, &[i0], &[]).await;
                }
                let mut s = s;
                let mut gk_used = gk;
                if r.gen_bool(0.25) {
                    // the metadata admin of another group names its own group next to this group's
                    // bank and that bank's metadata account
                    if w.groups.len() < 2 {
                        w.add_group().await;
                    }
                    let og = (self.g + 1) % w.groups.len();
                    s = clone_kp(&w.groups[og].metadata);
                    gk_used = w.groups[og].key;
                    m.r.count("admin.bank_metadata_write_by_foreign_group_metadata_admin");
                }
                let i = ix::write_bank_metadata(gk_used, bk, s.pubkey(), opt!(r, 0.7, b"TICK".to_vec()), opt!(r, 0.7, vec![b'x'; r.gen_range(0..40)]));
                w.exec(m, &[i], &[&s]).await
            }
            83..=88 => {
                let s = self.signer_for(w, r, "admin");
                let mint = w.banks[b].mint;
                let dst = w.users[0].tas[mint];
                let amt = pick(r, &[0u64, 1, 1000, u64::MAX]);
                let prog = w.token_program_of_bank(b);
                let i = if r.gen_bool(0.5) { ix::withdraw_fees(gk, s.pubkey(), bk, dst, prog, amt, w.mint_prefix(b)) } else { ix::withdraw_insurance(gk, s.pubkey(), bk, dst, prog, amt, w.mint_prefix(b)) };
                w.exec(m, &[i], &[&s]).await
            }
            89..=91 => {
                let mut s = self.signer_for(w, r, "admin");
                // the destination is a token account of the bank's mint
                let mint = w.banks[b].mint;
                let mut dest = w.users[0].tas[mint];
                let mut gk_used = gk;
                if r.gen_bool(0.25) {
                    // the admin of another group names its own group next to this group's bank
                    if w.groups.len() < 2 {
                        w.add_group().await;
                    }
                    let og = (self.g + 1) % w.groups.len();
                    s = clone_kp(&w.groups[og].admin);
                    gk_used = w.groups[og].key;
                    dest = w.users[1].tas[mint];
                    m.r.count("admin.fees_destination_update_by_foreign_group_admin");
                }
                let i = ix::update_fees_destination(gk_used, s.pubkey(), bk, dest);
                let o = w.exec(m, &[i], &[&s]).await;
                let prog = w.token_program_of_bank(b);
                // anybody may then move fees - into the fixed destination only
                let to = if r.gen_bool(0.8) { w.bank(b).fees_destination_account } else { w.users[2 % w.users.len()].tas[mint] };
                let i = ix::withdraw_fees_permissionless(gk, bk, to, prog, pick(r, &[1u64, 100, u64::MAX]), w.mint_prefix(b));
                let _ = w.exec(m, &[i], &[]).await;
                o
            }
            92..=95 => {
                let s = self.signer_for(w, r, "admin");
                let a = r.gen_range(0..w.accts.len());
                let i = ix::set_freeze(gk, w.accts[a].key, s.pubkey(), r.gen_bool(0.6));
                w.exec(m, &[i], &[&s]).await
            }
            _ => {
                let s = self.signer_for(w, r, "admin");
                let i = ix::configure_delev_limit(gk, s.pubkey(), pick(r, &[0u32, 1, 100, 10_000, u32::MAX]));
                w.exec(m, &[i], &[&s]).await
            }
        };
        Some(out)
    }

    /// Bank creation through the monitored path: both ordinary variants with boundary / hostile
    /// configurations, signed by the group admin or by somebody else. An accepted bank is real (it
    /// stays on chain) but does not join the world's bank list: nobody ever enters it.
    async fn create_bank(&mut self, w: &mut World, m: &mut Mon, r: &mut R) -> TxOut {
        let gk = w.groups[self.g].key;
        let s = self.signer_for(w, r, "admin");
        let p = w.chain.payer.pubkey();
        let fw = w.fee_wallet.pubkey();
        let mint = r.gen_range(0..w.mints.len());
        let (mkey, prog) = (w.mints[mint].key, w.mints[mint].program());
        let cfg = rand_bank_compact(r);
        if r.gen_bool(0.3) && matches!(w.mints[mint].kind, TokKind::Classic | TokKind::T22) && w.mints[mint].decimals <= 9 {
            // the three pass-through creation instructions, through the world's own set-up path
            // (venue accounts planted, creation journalled for the monitors), signed by `s`
            let now = w.chain.now();
            let px = PythPx::simple(1_000_000, -6, now);
            let seed = 800_000 + self.steps;
            let st = cfg.operational_state;
            let (ai, am) = (cfg.asset_weight_init, cfg.asset_weight_maint);
            w.create_as = Some(clone_kp(&s));
            let n0 = w.banks.len();
            let res = match r.gen_range(0..3) {
                0 => {
                    let mut c = marginfi::state::kamino::KaminoConfigCompact::default();
                    c.asset_weight_init = ai;
                    c.asset_weight_maint = am;
                    c.operational_state = st;
                    c.risk_tier = cfg.risk_tier;
                    c.deposit_limit = cfg.deposit_limit;
                    c.oracle_max_age = cfg.oracle_max_age;
                    c.total_asset_value_init_limit = cfg.total_asset_value_init_limit;
                    w.add_bank_kamino(self.g, mint, c, px, 1_000_000, 1_000_000, seed).await
                }
                1 => {
                    let mut c = marginfi::state::solend::SolendConfigCompact::default();
                    c.asset_weight_init = ai;
                    c.asset_weight_maint = am;
                    c.operational_state = st;
                    c.risk_tier = cfg.risk_tier;
                    c.deposit_limit = cfg.deposit_limit;
                    c.oracle_max_age = cfg.oracle_max_age;
                    c.total_asset_value_init_limit = cfg.total_asset_value_init_limit;
                    w.add_bank_solend(self.g, mint, c, px, 1_000_000, 1_000_000, seed).await
                }
                _ => {
                    let mut c = marginfi::state::drift::DriftConfigCompact::default();
                    c.asset_weight_init = ai;
                    c.asset_weight_maint = am;
                    c.operational_state = st;
                    c.risk_tier = cfg.risk_tier;
                    c.deposit_limit = cfg.deposit_limit;
                    c.oracle_max_age = cfg.oracle_max_age;
                    c.total_asset_value_init_limit = cfg.total_asset_value_init_limit;
                    w.add_bank_drift(self.g, mint, c, px, 10_512_345_678, 3, seed).await
                }
            };
            w.create_as = None;
            // the new bank stays on chain but out of the world's bank list: nobody ever enters it
            while w.banks.len() > n0 {
                w.banks.pop();
            }
            m.r.count(if res.is_ok() { "admin.venue_bank_creations_accepted" } else { "admin.venue_bank_creations_rejected" });
            // judge it now (the journal is read at the next monitored execution)
            let out = w.exec(m, &[w.ix_accrue(0)], &[]).await;
            return match res {
                Ok(_) => out,
                Err(o) => o,
            };
        }
        let out = if r.gen_bool(0.5) {
            let nb = w.next_kp();
            let i = ix::add_bank(gk, s.pubkey(), p, fw, mkey, nb.pubkey(), prog, cfg);
            w.exec(m, &[i], &[&s, &nb]).await
        } else {
            let seed = 700_000 + self.steps;
            let (i, _) = ix::add_bank_with_seed(gk, s.pubkey(), p, fw, mkey, seed, prog, cfg);
            w.exec(m, &[i], &[&s]).await
        };
        m.r.count(if out.ok() { "admin.bank_creations_accepted" } else { "admin.bank_creations_rejected" });
        out
    }

    async fn emissions(&mut self, w: &mut World, m: &mut Mon, r: &mut R, b: usize) -> TxOut {
        let gk = w.groups[self.g].key;
        let bk = w.banks[b].key;
        if self.emint.is_none() {
            // the rewards token is an ordinary SPL mint, a Token-2022 mint, or one with a transfer fee
            // (what reaches the emissions vault is then less than what the funder sent)
            let kind = match r.gen_range(0..4) {
                0 | 1 => TokKind::Classic,
                2 => TokKind::T22,
                _ => TokKind::T22Fee { bps: pick(r, &[100u16, 500, 5000]), max: pick(r, &[5000u64, u64::MAX]) },
            };
            self.emint = Some(w.add_mint(6, kind).await);
        }
        let em = self.emint.unwrap();
        let emk = w.mints[em].key;
        let eprog = w.mints[em].program();
        let s = self.signer_for(w, r, "emissions");
        // funding account owned by the signer
        let fund = w.new_token_account(em, s.pubkey(), 1_000_000_000_000).await;
        let bank = w.bank(b);
        if bank.emissions_mint == Pubkey::default() {
            let flags = if r.gen_bool(0.6) { pick(r, &[1u64, 2, 3, 0]) } else { rand_flags(r) };
            let i = ix::setup_emissions(gk, s.pubkey(), bk, emk, fund, eprog, flags, pick(r, &[0u64, 1, 1000, 1_000_000, u64::MAX >> 20]), pick(r, &[0u64, 1000, 1_000_000_000]));
            w.exec(m, &[i], &[&s]).await
        } else {
            let flags = opt!(r, 0.6, if r.gen_bool(0.5) { pick(r, &[0u64, 1, 2, 3]) } else { rand_flags(r) });
            let i = ix::update_emissions(gk, s.pubkey(), bk, bank.emissions_mint, fund, eprog, flags, opt!(r, 0.5, pick(r, &[0u64, 1, 1000, 1_000_000])), opt!(r, 0.4, pick(r, &[1u64, 1000, 1_000_000])));
            w.exec(m, &[i], &[&s]).await
        }
    }

    /// A liquidator takes an unhealthy account into receivership and, inside the bracket, tries to
    /// collect the account's accrued rewards into its own token account (rewards may be paid only to
    /// the destination chosen by the account's authority).
    pub async fn emissions_in_receivership(&mut self, w: &mut World, m: &mut Mon, r: &mut R, lev: &crate::scen::Lev, receiver_user: usize) {
        use crate::scen::*;
        for _ in 0..4 {
            if w.bank(lev.ca).emissions_mint == Pubkey::default() || w.bank(lev.ca).emissions_rate == 0 {
                let _ = self.emissions(w, m, r, lev.ca).await;
            }
        }
        let bank = w.bank(lev.ca);
        let em = match w.mints.iter().position(|mm| mm.key == bank.emissions_mint) {
            Some(x) if bank.emissions_mint != Pubkey::default() => x,
            _ => {
                m.r.count("admin.emissions_in_receivership_not_possible");
                return;
            }
        };
        w.chain.advance(pick(r, &[3600i64, 86_400, 30 * 86_400]));
        w.refresh_oracles();
        let le = lev.acct;
        let rk = w.user_kp(receiver_user);
        let tas = w.users[receiver_user].tas.clone();
        let with_init = !w.shadow.contains_key(&ix::liq_record_key(&w.accts[le].key));
        let saved = save_price(w, lev.ca);
        let mut crashes = 0;
        let mut startable = false;
        for _ in 0..8 {
            let ixs = receivership_ixs(w, le, &rk, None, None, with_init, &tas);
            if w.probe(m, &ixs, &[&rk]).await.ok() {
                startable = true;
                break;
            }
            scale_price_any(w, lev.ca, 0.5).await;
            crashes += 1;
        }
        m.r.count(if startable { "admin.emissions_in_receivership_rounds" } else { "admin.emissions_in_receivership_account_never_liquidatable" });
        if startable {
            let gk = w.groups[w.accts[le].group].key;
            let dst = tas[em];
            let mut ixs = receivership_ixs(w, le, &rk, None, None, with_init, &tas);
            let end = ixs.len() - 1;
            ixs.insert(end, ix::withdraw_emissions(gk, w.accts[le].key, rk.pubkey(), w.banks[lev.ca].key, bank.emissions_mint, dst, w.mints[em].program()));
            let o = w.exec(m, &ixs, &[&rk]).await;
            m.r.count(if o.ok() { "admin.emissions_in_receivership_accepted" } else { "admin.emissions_in_receivership_refused" });
            // the account's owner co-signs and claims its own rewards inside the receiver's bracket
            // (to its own token account): still not a withdraw or repay - the bracket admits nothing else
            {
                let owner = w.auth_of(le);
                let own_dst = w.users[w.accts[le].user].tas[em];
                let mut ixs = receivership_ixs(w, le, &rk, None, None, !w.shadow.contains_key(&ix::liq_record_key(&w.accts[le].key)), &tas);
                let end = ixs.len() - 1;
                ixs.insert(end, ix::withdraw_emissions(gk, w.accts[le].key, owner.pubkey(), w.banks[lev.ca].key, bank.emissions_mint, own_dst, w.mints[em].program()));
                let o = if owner.pubkey() == rk.pubkey() { w.exec(m, &ixs, &[&rk]).await } else { w.exec(m, &ixs, &[&rk, &owner]).await };
                m.r.count(if o.ok() { "admin.owner_claims_rewards_inside_receivership_accepted" } else { "admin.owner_claims_rewards_inside_receivership_refused" });
            }
            // the same, settling first (permissionless) so that the rewards are on the books
            let mut ixs = receivership_ixs(w, le, &rk, None, None, !w.shadow.contains_key(&ix::liq_record_key(&w.accts[le].key)), &tas);
            let end = ixs.len() - 1;
            ixs.insert(end, ix::settle_emissions(w.accts[le].key, w.banks[lev.ca].key));
            let o = w.exec(m, &ixs, &[&rk]).await;
            m.r.count(if o.ok() { "admin.settle_in_receivership_accepted" } else { "admin.settle_in_receivership_refused" });
        }
        match saved {
            SavedPx::None => scale_price_any(w, lev.ca, 2f64.powi(crashes)).await,
            sp => restore_price(w, lev.ca, sp),
        }
    }

    /// user side of emissions: settle / withdraw to own account / register destination
    pub async fn emissions_user(&mut self, w: &mut World, m: &mut Mon, r: &mut R) {
        let a = r.gen_range(0..w.accts.len());
        let acc = w.acct(a);
        let gk = w.groups[w.accts[a].group].key;
        for bal in acc.lending_account.balances.iter().filter(|b| b.active != 0) {
            let bi = match w.bank_by_key(&bal.bank_pk) {
                Some(b) => b,
                None => continue,
            };
            let bank = w.bank(bi);
            if bank.emissions_mint == Pubkey::default() {
                continue;
            }
            let em = match w.mints.iter().position(|mm| mm.key == bank.emissions_mint) {
                Some(x) => x,
                None => continue,
            };
            let auth = if r.gen_bool(0.85) { w.auth_of(a) } else { w.user_kp(0) };
            match r.gen_range(0..4) {
                0 => {
                    let i = ix::settle_emissions(w.accts[a].key, bal.bank_pk);
                    let _ = w.exec(m, &[i], &[]).await;
                }
                1 => {
                    let u = w.accts[a].user;
                    let dst = w.users[u].tas[em];
                    let i = ix::withdraw_emissions(gk, w.accts[a].key, auth.pubkey(), bal.bank_pk, bank.emissions_mint, dst, w.mints[em].program());
                    let _ = w.exec(m, &[i], &[&auth]).await;
                }
                2 => {
                    let dest = w.user_kp(w.accts[a].user).pubkey();
                    let i = ix::update_emissions_destination(w.accts[a].key, auth.pubkey(), dest);
                    let _ = w.exec(m, &[i], &[&auth]).await;
                    let _ = w.create_ata(dest, em).await;
                }
                _ => {
                    let dest = acc.emissions_destination_account;
                    if dest == Pubkey::default() {
                        // no destination chosen: make sure the token account an attacker would name
                        // (the associated account of the all-zero wallet) exists
                        let _ = w.create_ata(dest, em).await;
                    }
                    let dst = if r.gen_bool(0.8) { ix::ata(&dest, &bank.emissions_mint, &w.mints[em].program()) } else { w.users[0].tas[em] };
                    let i = ix::withdraw_emissions_permissionless(gk, w.accts[a].key, bal.bank_pk, bank.emissions_mint, dst, w.mints[em].program());
                    let _ = w.exec(m, &[i], &[]).await;
                }
            }
        }
    }
}

/// A bank as banks were before the seven-point curve: its stored interest configuration is rewritten
/// (account bytes) to the legacy three-point form, interest accrues on it for a while, then anybody
/// migrates it. The C18 monitor judges the migrated curve (usable, and the same curve: zero at no
/// utilisation, the plateau rate at the optimal utilisation, the maximum rate at full utilisation).
pub async fn legacy_curve_migration(w: &mut World, m: &mut Mon, r: &mut R, g: usize) {
    let banks: Vec<usize> = (0..w.banks.len()).filter(|b| w.banks[*b].group == g && w.banks[*b].venue.is_none()).collect();
    if banks.is_empty() {
        return;
    }
    let b = pick(r, &banks);
    let bk = w.banks[b].key;
    let acc = match w.shadow.get(&bk) {
        Some(a) => a.clone(),
        None => return,
    };
    let mut data = acc.data.clone();
    {
        let bank: &mut Bank = bytemuck::from_bytes_mut(&mut data[8..8 + std::mem::size_of::<Bank>()]);
        let c = &mut bank.config.interest_rate_config;
        let opt = pick(r, &[0.05f64, 0.5, 0.8, 0.85, 0.999]);
        let plateau = pick(r, &[0.0001f64, 0.05, 0.1, 1.0, 3.0]);
        let max = plateau * pick(r, &[1.0001f64, 2.0, 3.0]) + pick(r, &[0.0f64, 0.5, 5.0]);
        c.optimal_utilization_rate = wi(opt);
        c.plateau_interest_rate = wi(plateau);
        c.max_interest_rate = wi(max.min(9.99));
        c.zero_util_rate = 0;
        c.hundred_util_rate = 0;
        c.points = make_points(&[]);
        c.curve_type = INTEREST_CURVE_LEGACY;
    }
    w.plant(&bk, solana_sdk::account::Account { lamports: acc.lamports, data, owner: acc.owner, executable: false, rent_epoch: 0 });
    m.r.count("admin.legacy_curve_banks_planted");
    for _ in 0..r.gen_range(0..3) {
        w.chain.advance(pick(r, &[60i64, 86_400]));
        w.refresh_oracles();
        let i = w.ix_accrue(b);
        let _ = w.exec(m, &[i], &[]).await;
    }
    let o = w.exec(m, &[ix::migrate_curve(bk)], &[]).await;
    m.r.count(if o.ok() { "admin.legacy_curve_migrations_accepted" } else { "admin.legacy_curve_migrations_refused" });
    // a second migration changes nothing
    let _ = w.exec(m, &[ix::migrate_curve(bk)], &[]).await;
    let i = w.ix_accrue(b);
    let _ = w.exec(m, &[i], &[]).await;
}

/// The global fee admin moves the program's fee wallet and nobody tells the groups (their cached
/// copy of the fee state still names the old wallet): fee collection must pay the program's share
/// to the token account of the wallet the fee state names now, and to no other. The wallet is put
/// back (and propagated) afterwards.
pub async fn fee_wallet_rotation(w: &mut World, m: &mut Mon, r: &mut R, g: usize) {
    let fa = clone_kp(&w.fee_admin);
    let fs = match w.shadow.get(&ix::fee_state_key()).and_then(|a| fee_state_of(&a.data)) {
        Some(f) => f,
        None => return,
    };
    let old_wallet = fs.global_fee_wallet;
    let new_wallet = w.next_kp().pubkey();
    let banks: Vec<usize> = (0..w.banks.len()).filter(|b| w.banks[*b].group == g && w.banks[*b].venue.is_none()).collect();
    if banks.is_empty() {
        return;
    }
    // prefer banks that owe the program at least one whole token
    let owing: Vec<usize> = banks.iter().cloned().filter(|b| BankQ::of(&w.bank(*b)).f_prog >= one()).collect();
    let i = ix::edit_fee_state(fa.pubkey(), fs.global_fee_admin, new_wallet, fs.bank_init_flat_sol_fee, fs.liquidation_flat_sol_fee, fs.program_fee_fixed, fs.program_fee_rate, fs.liquidation_max_fee);
    if !w.exec(m, &[i], &[&fa]).await.ok() {
        m.r.count("admin.fee_wallet_rotation_refused");
        return;
    }
    m.r.count("admin.fee_wallet_rotations");
    for _ in 0..3 {
        let b = if !owing.is_empty() && r.gen_bool(0.8) { pick(r, &owing) } else { pick(r, &banks) };
        let mint = w.banks[b].mint;
        w.create_ata(new_wallet, mint).await;
        let (mk, prog) = (w.mints[mint].key, w.mints[mint].program());
        let gk = w.groups[g].key;
        // first towards the wallet the groups still remember, then towards the one in force
        for wallet in [old_wallet, new_wallet] {
            let i = ix::collect_fees(gk, w.banks[b].key, ix::ata(&wallet, &mk, &prog), prog, w.mint_prefix(b));
            let o = w.exec(m, &[i], &[]).await;
            m.r.count(&format!("admin.collect_after_wallet_rotation/{}/{}", if wallet == old_wallet { "old-wallet" } else { "new-wallet" }, if o.ok() { "accepted" } else { "refused" }));
        }
    }
    let i = ix::edit_fee_state(fa.pubkey(), fs.global_fee_admin, old_wallet, fs.bank_init_flat_sol_fee, fs.liquidation_flat_sol_fee, fs.program_fee_fixed, fs.program_fee_rate, fs.liquidation_max_fee);
    let back = w.exec(m, &[i], &[&fa]).await;
    assert!(back.ok(), "fee wallet could not be restored: {}", back.err_string());
    for gi in 0..w.groups.len() {
        let _ = w.exec(m, &[ix::propagate_fee(w.groups[gi].key)], &[]).await;
    }
}

/// Staked-collateral flow: settings init/edit by the admin, permissionless bank creation over
/// planted single-pool accounts, freeze, permissionless propagation.
pub async fn staked_flow(w: &mut World, m: &mut Mon, r: &mut R, g: usize) -> Option<usize> {
    let gk = w.groups[g].key;
    let admin = clone_kp(&w.groups[g].admin);
    let p = w.chain.payer.pubkey();
    let sol_oracle = w.next_kp().pubkey();
    let now = w.chain.now();
    w.set_pyth(&sol_oracle, PythPx::simple(150_000_000, -6, now));
    let ss = ix::staked_settings_key(&gk);
    if !w.shadow.contains_key(&ss) {
        let s = marginfi::instructions::StakedSettingsConfig { oracle: sol_oracle, asset_weight_init: wi(0.8), asset_weight_maint: wi(0.9), deposit_limit: u64::MAX, total_asset_value_init_limit: 0, oracle_max_age: 600, risk_tier: RiskTier::Collateral };
        let i = ix::init_staked_settings(gk, admin.pubkey(), p, s);
        let o = w.exec(m, &[i], &[&admin]).await;
        if !o.ok() {
            return None;
        }
        w.refresh(&[ss]).await;
    }
    let oracle = staked_settings_of(&w.shadow.get(&ss)?.data)?.oracle;
    // keep the settings oracle fresh
    if let Some(px) = w.pyth.get(&oracle).cloned() {
        w.set_pyth(&oracle, PythPx { publish_time: now, ..px });
    }
    let b = match w.add_staked_bank(g, oracle, 101_000_000_000, 0).await {
        Ok(b) => b,
        Err(_) => return None,
    };
    // the creating instruction was sent raw; show its post-state to the monitors through a no-op configure
    let i = ix::configure_bank(gk, admin.pubkey(), w.banks[b].key, BankConfigOpt::default());
    let _ = w.exec(m, &[i], &[&admin]).await;
    for round in 0..r.gen_range(2..6) {
        if round == 1 || r.gen_bool(0.4) {
            let mut opt = BankConfigOpt::default();
            opt.freeze_settings = Some(true);
            let i = ix::configure_bank(gk, admin.pubkey(), w.banks[b].key, opt);
            let _ = w.exec(m, &[i], &[&admin]).await;
        }
        // now and then the settings move to a new SOL price feed (what an admin does when it rotates
        // the feed for all staked banks)
        let new_feed = if r.gen_bool(0.4) {
            let k = w.next_kp().pubkey();
            let now = w.chain.now();
            w.set_pyth(&k, PythPx::simple(150_000_000, -6, now));
            Some(k)
        } else {
            None
        };
        let edit = marginfi::instructions::StakedSettingsEditConfig {
            oracle: new_feed,
            asset_weight_init: if r.gen_bool(0.6) { Some(rand_weight(r)) } else { None },
            asset_weight_maint: if r.gen_bool(0.6) { Some(rand_weight(r)) } else { None },
            deposit_limit: if r.gen_bool(0.5) { Some(rand_u64(r)) } else { None },
            total_asset_value_init_limit: if r.gen_bool(0.5) { Some(rand_u64(r)) } else { None },
            oracle_max_age: if r.gen_bool(0.3) { Some(pick(r, &[0u16, 10, 60, 600])) } else { None },
            risk_tier: if r.gen_bool(0.2) { Some(pick(r, &[RiskTier::Collateral, RiskTier::Isolated])) } else { None },
        };
        let s = if r.gen_bool(0.85) { clone_kp(&admin) } else { w.user_kp(0) };
        let i = ix::edit_staked_settings(gk, s.pubkey(), edit);
        let _ = w.exec(m, &[i], &[&s]).await;
        // the caller presents the feed the settings name now, and (when that is refused) the one the
        // bank still uses
        let cur = staked_settings_of(&w.shadow.get(&ss).map(|a| a.data.clone()).unwrap_or_default()).map(|s| s.oracle).unwrap_or(oracle);
        let bank_feed = w.bank(b).config.oracle_keys[0];
        let mut o = w.exec(m, &[ix::propagate_staked_settings(gk, w.banks[b].key, vec![ix::ro(cur)])], &[]).await;
        if !o.ok() && bank_feed != cur {
            o = w.exec(m, &[ix::propagate_staked_settings(gk, w.banks[b].key, vec![ix::ro(bank_feed)])], &[]).await;
        }
        if new_feed.is_some() {
            m.r.count(if o.ok() { "scen.staked_propagate_after_feed_rotation_accepted" } else { "scen.staked_propagate_after_feed_rotation_rejected" });
        }
        if o.ok() {
            // keep the world's notion of the bank's price accounts in step with the bank
            let kf = w.bank(b).config.oracle_keys[0];
            if let OracleD::Staked { lst_mint, sol_pool, .. } = w.banks[b].oracle.clone() {
                w.banks[b].oracle = OracleD::Staked { oracle: kf, lst_mint, sol_pool };
            }
        }
        m.r.count(if o.ok() { "scen.staked_propagate_accepted" } else { "scen.staked_propagate_rejected" });
    }
    Some(b)
}
