//! Instruction kinds by Anchor discriminator (taken from the generated instruction structs).
use anchor_lang::Discriminator;
use marginfi::instruction as mi;

macro_rules! kinds {
    ($( $var:ident => $ty:ident ),* $(,)?) => {
        #[derive(Clone, Copy, Debug, PartialEq, Eq, Hash, PartialOrd, Ord)]
        pub enum Kind { $( $var, )* Unknown }
        impl Kind {
            pub fn of(data: &[u8]) -> Kind {
                if data.len() < 8 { return Kind::Unknown; }
                let d = &data[..8];
                $( if d == <mi::$ty as Discriminator>::DISCRIMINATOR { return Kind::$var; } )*
                Kind::Unknown
            }
            pub fn discr(&self) -> [u8; 8] {
                let mut o = [0u8; 8];
                match self {
                    $( Kind::$var => o.copy_from_slice(<mi::$ty as Discriminator>::DISCRIMINATOR), )*
                    Kind::Unknown => {}
                }
                o
            }
            pub fn name(&self) -> &'static str {
                match self { $( Kind::$var => stringify!($var), )* Kind::Unknown => "Unknown" }
            }
            pub fn all() -> Vec<Kind> { vec![ $( Kind::$var, )* ] }
        }
    };
}

kinds! {
    GroupInit => MarginfiGroupInitialize,
    GroupConfigure => MarginfiGroupConfigure,
    AddBank => LendingPoolAddBank,
    AddBankWithSeed => LendingPoolAddBankWithSeed,
    CloneBank => LendingPoolCloneBank,
    AddBankPermissionless => LendingPoolAddBankPermissionless,
    ConfigureBank => LendingPoolConfigureBank,
    ConfigureBankInterestOnly => LendingPoolConfigureBankInterestOnly,
    ConfigureBankLimitsOnly => LendingPoolConfigureBankLimitsOnly,
    ForceTokenlessRepayComplete => LendingPoolForceTokenlessRepayComplete,
    ConfigureBankOracle => LendingPoolConfigureBankOracle,
    SetFixedOraclePrice => LendingPoolSetFixedOraclePrice,
    ConfigureBankEmode => LendingPoolConfigureBankEmode,
    CloneEmode => LendingPoolCloneEmode,
    SetupEmissions => LendingPoolSetupEmissions,
    UpdateEmissionsParameters => LendingPoolUpdateEmissionsParameters,
    HandleBankruptcy => LendingPoolHandleBankruptcy,
    AccountInit => MarginfiAccountInitialize,
    InitLiqRecord => MarginfiAccountInitLiqRecord,
    AccountInitPda => MarginfiAccountInitializePda,
    Deposit => LendingAccountDeposit,
    Repay => LendingAccountRepay,
    Withdraw => LendingAccountWithdraw,
    Borrow => LendingAccountBorrow,
    CloseBalance => LendingAccountCloseBalance,
    WithdrawEmissions => LendingAccountWithdrawEmissions,
    SettleEmissions => LendingAccountSettleEmissions,
    Liquidate => LendingAccountLiquidate,
    StartFlashloan => LendingAccountStartFlashloan,
    EndFlashloan => LendingAccountEndFlashloan,
    UpdateEmissionsDestination => MarginfiAccountUpdateEmissionsDestinationAccount,
    AccrueInterest => LendingPoolAccrueBankInterest,
    CollectFees => LendingPoolCollectBankFees,
    WithdrawFees => LendingPoolWithdrawFees,
    WithdrawFeesPermissionless => LendingPoolWithdrawFeesPermissionless,
    UpdateFeesDestination => LendingPoolUpdateFeesDestinationAccount,
    WithdrawInsurance => LendingPoolWithdrawInsurance,
    CloseBank => LendingPoolCloseBank,
    TransferAccount => TransferToNewAccount,
    TransferAccountPda => TransferToNewAccountPda,
    SetFreeze => MarginfiAccountSetFreeze,
    CloseAccount => MarginfiAccountClose,
    WithdrawEmissionsPermissionless => LendingAccountWithdrawEmissionsPermissionless,
    PulseHealth => LendingAccountPulseHealth,
    PulseBankPriceCache => LendingPoolPulseBankPriceCache,
    InitFeeState => InitGlobalFeeState,
    EditFeeState => EditGlobalFeeState,
    PropagateFeeState => PropagateFeeState,
    ConfigGroupFee => ConfigGroupFee,
    InitStakedSettings => InitStakedSettings,
    EditStakedSettings => EditStakedSettings,
    PropagateStakedSettings => PropagateStakedSettings,
    StartLiquidation => StartLiquidation,
    EndLiquidation => EndLiquidation,
    StartDeleverage => StartDeleverage,
    EndDeleverage => EndDeleverage,
    PanicPause => PanicPause,
    PanicUnpause => PanicUnpause,
    PanicUnpausePermissionless => PanicUnpausePermissionless,
    MigrateCurve => MigrateCurve,
    InitBankMetadata => InitBankMetadata,
    WriteBankMetadata => WriteBankMetadata,
    ConfigureDelevLimit => ConfigureDeleverageWithdrawalLimit,
    PurgeDelevBalance => PurgeDeleverageBalance,
    KaminoInitObligation => KaminoInitObligation,
    KaminoDeposit => KaminoDeposit,
    KaminoWithdraw => KaminoWithdraw,
    AddBankKamino => LendingPoolAddBankKamino,
    KaminoHarvestReward => KaminoHarvestReward,
    AddBankDrift => LendingPoolAddBankDrift,
    DriftInitUser => DriftInitUser,
    DriftDeposit => DriftDeposit,
    DriftWithdraw => DriftWithdraw,
    DriftHarvestReward => DriftHarvestReward,
    AddBankSolend => LendingPoolAddBankSolend,
    SolendInitObligation => SolendInitObligation,
    SolendDeposit => SolendDeposit,
    SolendWithdraw => SolendWithdraw,
}
