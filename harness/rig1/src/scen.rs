//! Directed scenarios and W-probe (boundary bisection with state-preserving simulations).
use crate::chain::TxOut;
use crate::ix;
use crate::mon::Mon;
use crate::num::*;
use crate::state::*;
use crate::storm::{pick, R};
use crate::world::*;
use marginfi_type_crate::types::*;
use rand::Rng;
use solana_sdk::instruction::Instruction;
use solana_sdk::signature::{Keypair, Signer};

/// Largest `x` in [0, hi] for which the simulated transaction built by `mk(x)` succeeds, assuming
/// acceptance is monotone (accept small, reject large). Every simulation is fed to the monitors.
pub async fn bisect_max<F>(w: &mut World, m: &mut Mon, signers: &[&Keypair], hi: u64, mk: F) -> Option<u64>
where
    F: Fn(&World, u64) -> Vec<Instruction>,
{
    let ok = |o: &TxOut| o.ok();
    let ixs = mk(w, hi);
    if ok(&w.probe(m, &ixs, signers).await) {
        return Some(hi);
    }
    let ixs = mk(w, 1);
    if !ok(&w.probe(m, &ixs, signers).await) {
        return None;
    }
    let (mut lo, mut hi) = (1u64, hi);
    while hi - lo > 1 {
        let mid = lo + (hi - lo) / 2;
        let ixs = mk(w, mid);
        if ok(&w.probe(m, &ixs, signers).await) {
            lo = mid;
        } else {
            hi = mid;
        }
    }
    Some(lo)
}

/// Lower the Pyth price of bank `b` from where `mk`'s transaction is refused with `refused_code`
/// to the exact integer price at which it is first accepted (geometric descent, then bisection on
/// the integer price field). Every accepted probe on the way is judged by the monitors, so an
/// acceptance on the wrong side of the threshold shows up. Leaves the price at the first accepted
/// value; returns whether the boundary (two adjacent integer prices) was located.
pub async fn price_threshold<F>(w: &mut World, m: &mut Mon, b: usize, signers: &[&Keypair], mk: F, refused_code: u32) -> bool
where
    F: Fn(&World) -> Vec<Instruction>,
{
    let k = match w.banks[b].oracle.clone() {
        OracleD::Pyth(k) | OracleD::Venue { oracle: k, .. } => k,
        _ => return false,
    };
    let base = w.pyth[&k];
    let set = |w: &mut World, price: i64| {
        let f = price as f64 / base.price.max(1) as f64;
        let now = w.chain.now();
        w.set_pyth(&k, PythPx { price, conf: (base.conf as f64 * f) as u64, ema: ((base.ema as f64 * f) as i64).max(1), ema_conf: (base.ema_conf as f64 * f) as u64, publish_time: now, ..base });
    };
    let (mut hi, mut lo): (Option<i64>, Option<i64>) = (None, None);
    let mut p = base.price;
    for _ in 0..80 {
        set(w, p);
        let ixs = mk(w);
        let o = w.probe(m, &ixs, signers).await;
        if o.custom_code() == Some(refused_code) {
            hi = Some(p);
            if p <= 1 {
                break;
            }
            p = ((p as f64) * 0.7) as i64;
            p = p.max(1);
        } else if o.ok() {
            lo = Some(p);
            break;
        } else {
            break;
        }
    }
    let (mut hi, mut lo) = match (hi, lo) {
        (Some(h), Some(l)) => (h, l),
        _ => return false,
    };
    let mut steps = 0;
    while hi - lo > 1 && steps < 64 {
        steps += 1;
        let mid = lo + (hi - lo) / 2;
        set(w, mid);
        let ixs = mk(w);
        let o = w.probe(m, &ixs, signers).await;
        if o.custom_code() == Some(refused_code) {
            hi = mid;
        } else if o.ok() {
            lo = mid;
        } else {
            break;
        }
    }
    set(w, lo);
    hi - lo <= 1
}

#[derive(Clone, Copy)]
pub enum SavedPx {
    Pyth(PythPx),
    Swb(SwbPx),
    None,
}
pub fn save_price(w: &World, b: usize) -> SavedPx {
    match &w.banks[b].oracle {
        OracleD::Pyth(k) | OracleD::Staked { oracle: k, .. } | OracleD::Venue { oracle: k, .. } => SavedPx::Pyth(w.pyth[k]),
        OracleD::Swb(k) | OracleD::VenueSwb { oracle: k, .. } => SavedPx::Swb(w.swb[k]),
        _ => SavedPx::None,
    }
}
pub fn restore_price(w: &mut World, b: usize, s: SavedPx) {
    let now = w.chain.now();
    match (w.banks[b].oracle.clone(), s) {
        (OracleD::Pyth(k), SavedPx::Pyth(p)) | (OracleD::Staked { oracle: k, .. }, SavedPx::Pyth(p)) | (OracleD::Venue { oracle: k, .. }, SavedPx::Pyth(p)) => w.set_pyth(&k, PythPx { publish_time: now, ..p }),
        (OracleD::Swb(k), SavedPx::Swb(p)) | (OracleD::VenueSwb { oracle: k, .. }, SavedPx::Swb(p)) => w.set_swb(&k, SwbPx { last_update: now, ..p }),
        _ => {}
    }
}
pub fn scale_price(w: &mut World, b: usize, f: f64) {
    match w.banks[b].oracle.clone() {
        OracleD::Pyth(k) | OracleD::Staked { oracle: k, .. } | OracleD::Venue { oracle: k, .. } => {
            let mut p = w.pyth[&k];
            p.price = ((p.price as f64 * f) as i64).max(1);
            p.ema = ((p.ema as f64 * f) as i64).max(1);
            p.conf = (p.conf as f64 * f) as u64;
            p.ema_conf = (p.ema_conf as f64 * f) as u64;
            p.publish_time = w.chain.now();
            w.set_pyth(&k, p);
        }
        OracleD::Swb(k) | OracleD::VenueSwb { oracle: k, .. } => {
            let mut p = w.swb[&k];
            p.value = ((p.value as f64 * f) as i128).max(1);
            p.std_dev = (p.std_dev as f64 * f) as i128;
            p.last_update = w.chain.now();
            w.set_swb(&k, p);
        }
        _ => {}
    }
}
pub async fn scale_price_any(w: &mut World, b: usize, f: f64) {
    if let OracleD::Fixed = w.banks[b].oracle {
        let bank = w.bank(b);
        let cur = to_f64(&fx(&bank.config.fixed_price.value));
        let g = &w.groups[w.banks[b].group];
        let admin = clone_kp(&g.admin);
        let i = ix::set_fixed_price(g.key, admin.pubkey(), w.banks[b].key, wi((cur * f).max(1e-9)));
        let _ = w.raw_send(&[i], &[&admin]).await;
    } else {
        scale_price(w, b, f);
    }
}

pub fn usable_collateral(w: &World, b: usize) -> bool {
    let bank = w.bank(b);
    bank.config.risk_tier == RiskTier::Collateral && fx(&bank.config.asset_weight_init.value) > zero() && bank.config.operational_state == BankOperationalState::Operational && bank.config.asset_tag <= 1
}

/// like `usable_collateral`, also admitting pass-through (venue) banks
pub fn usable_collateral_any(w: &World, b: usize) -> bool {
    let bank = w.bank(b);
    bank.config.risk_tier == RiskTier::Collateral && fx(&bank.config.asset_weight_init.value) > zero() && bank.config.operational_state == BankOperationalState::Operational && (bank.config.asset_tag <= 1 || w.banks[b].venue.is_some())
}

pub struct Lev {
    pub acct: usize,
    pub user: usize,
    pub ca: usize,
    pub db: usize,
    pub borrowed: u64,
    pub max_borrow: u64,
}

/// A fresh borrower: deposits into `ca`, then borrows a fraction of the exact maximum from `db`
/// (the maximum is located by bisection, which also exercises the C04 accept/reject boundary).
pub async fn setup_leveraged(w: &mut World, m: &mut Mon, r: &mut R, g: usize, lender: usize, ca: usize, db: usize, frac: f64) -> Option<Lev> {
    let fund = 1u64 << 40;
    let u = w.add_user(fund).await;
    let a = w.add_account(g, u).await;
    let auth = w.auth_of(a);
    // liquidity in the debt bank
    let lk = w.auth_of(lender);
    let vault = w.token(&w.banks[db].k.lv);
    if vault < fund / 4 {
        let i = w.ix_deposit(lender, db, lk.pubkey(), w.ta_of(lender, db), fund / 2, None);
        let o = w.exec(m, &[i], &[&lk]).await;
        if !o.ok() {
            return None;
        }
    }
    let dep = pick(r, &[1_000_000u64, 50_000_000, 1 << 30, fund / 8]);
    let i = w.ix_deposit_any(a, ca, auth.pubkey(), w.ta_of(a, ca), dep);
    if !w.exec(m, &[i], &[&auth]).await.ok() {
        return None;
    }
    let hi = w.token(&w.banks[db].k.lv);
    let ta = w.ta_of(a, db);
    let ak = auth.pubkey();
    let max = bisect_max(w, m, &[&auth], hi, |w, x| vec![w.ix_borrow(a, db, ak, ta, x)]).await?;
    if max == 0 {
        return None;
    }
    let amt = ((max as f64) * frac) as u64;
    let amt = amt.clamp(1, max);
    let i = w.ix_borrow(a, db, ak, ta, amt);
    if !w.exec(m, &[i], &[&auth]).await.ok() {
        return None;
    }
    m.r.count("scen.leveraged_accounts");
    {
        // the program's own view of the freshly leveraged account
        let i = ix::pulse_health(w.accts[a].key, w.risk_metas(a, None, None));
        let _ = w.exec(m, &[i], &[]).await;
    }
    Some(Lev { acct: a, user: u, ca, db, borrowed: amt, max_borrow: max })
}

/// Classic liquidation scenario: price shock on the collateral, then seize amounts from 1 up to
/// the exact acceptance boundary.
pub async fn liquidation(w: &mut World, m: &mut Mon, r: &mut R, lev: &Lev, lq: usize) {
    let shock = pick(r, &[0.97f64, 0.9, 0.8, 0.6, 0.4]);
    scale_price_any(w, lev.ca, shock).await;
    let lk = w.auth_of(lq);
    // lower the collateral price to the exact point where the account turns liquidatable
    {
        let (le, ca, db, lkp) = (lev.acct, lev.ca, lev.db, lk.pubkey());
        if price_threshold(w, m, ca, &[&lk], |w| vec![w.ix_liquidate(lq, le, ca, db, lkp, 1)], crate::mon::err::HEALTHY_ACCOUNT).await {
            m.r.count("scen.liquidatable_price_boundary_found");
        } else {
            // non-Pyth collateral (or already liquidatable): coarse descent
            for _ in 0..14 {
                let i = w.ix_liquidate(lq, le, ca, db, lkp, 1);
                let o = w.probe(m, &[i], &[&lk]).await;
                if o.custom_code() == Some(crate::mon::err::HEALTHY_ACCOUNT) {
                    scale_price_any(w, ca, pick(r, &[0.95f64, 0.9, 0.8])).await;
                } else {
                    break;
                }
            }
        }
    }
    // make sure the liquidator can afford it
    for b in [lev.db, lev.ca] {
        if r.gen_bool(0.7) {
            let i = w.ix_deposit(lq, b, lk.pubkey(), w.ta_of(lq, b), 1 << 36, None);
            let _ = w.exec(m, &[i], &[&lk]).await;
        }
    }
    let (le, ca, db, lkp) = (lev.acct, lev.ca, lev.db, lk.pubkey());
    // sometimes the liquidator itself owes the collateral asset / holds no deposit in the debt
    // bank, so that its legs flip (debt -> deposit in the asset bank, deposit -> debt in the debt bank)
    if r.gen_bool(0.3) {
        let ta = w.ta_of(lq, ca);
        let i = w.ix_withdraw(lq, ca, lkp, ta, 0, Some(true));
        let _ = w.exec(m, &[i], &[&lk]).await;
        let small = pick(r, &[1_000u64, 100_000, 5_000_000]);
        let i = w.ix_borrow(lq, ca, lkp, ta, small);
        let o = w.exec(m, &[i], &[&lk]).await;
        m.r.count(if o.ok() { "scen.liquidator_owes_collateral_asset" } else { "scen.liquidator_borrow_of_collateral_asset_rejected" });
    }
    if r.gen_bool(0.2) {
        let ta = w.ta_of(lq, db);
        let i = w.ix_withdraw(lq, db, lkp, ta, 0, Some(true));
        let o = w.exec(m, &[i], &[&lk]).await;
        if o.ok() {
            m.r.count("scen.liquidator_without_deposit_in_debt_bank");
        }
    }
    // controls and small amounts
    for amt in [0u64, 1, 2, 1000] {
        let i = w.ix_liquidate(lq, le, ca, db, lkp, amt);
        let _ = w.probe(m, &[i], &[&lk]).await;
    }
    // a second collateral whose price has gone stale: the assessment of the account must fail
    // rather than count that collateral as nothing (which could make a healthy account look
    // liquidatable); the monitor judges any liquidation that goes through
    if r.gen_bool(0.3) {
        let c2s: Vec<usize> = (0..w.banks.len()).filter(|b| *b != ca && *b != db && usable_collateral(w, *b) && matches!(w.banks[*b].oracle, OracleD::Pyth(_) | OracleD::Swb(_))).collect();
        if !c2s.is_empty() {
            let c2 = pick(r, &c2s);
            let le_auth = w.auth_of(le);
            let amt2 = pick(r, &[1_000_000u64, 1 << 30, 1 << 36]);
            let i = w.ix_deposit(le, c2, le_auth.pubkey(), w.ta_of(le, c2), amt2, None);
            if w.exec(m, &[i], &[&le_auth]).await.ok() {
                let b2 = w.bank(c2);
                let saved = save_price(w, c2);
                let now = w.chain.now();
                match w.banks[c2].oracle.clone() {
                    OracleD::Pyth(k) => {
                        let max_age = if b2.config.oracle_max_age == 0 { 60 } else { b2.config.oracle_max_age as i64 };
                        let p = w.pyth[&k];
                        w.set_pyth(&k, PythPx { publish_time: now - max_age - 1, ..p });
                    }
                    OracleD::Swb(k) => {
                        let p = w.swb[&k];
                        w.set_swb(&k, SwbPx { last_update: now - b2.config.oracle_max_age as i64 - 1, ..p });
                    }
                    _ => {}
                }
                for amt in [1u64, 1000] {
                    let i = w.ix_liquidate(lq, le, ca, db, lkp, amt);
                    let o = w.probe(m, &[i], &[&lk]).await;
                    m.r.count(if o.ok() { "scen.liquidation_with_stale_second_collateral_accepted" } else { "scen.liquidation_with_stale_second_collateral_rejected" });
                }
                restore_price(w, c2, saved);
            }
        }
    }
    let acc = w.acct(le);
    let bank = w.bank(ca);
    let q = BankQ::of(&bank);
    let pos: u64 = acc.lending_account.balances.iter().find(|b| b.active != 0 && b.bank_pk == w.banks[ca].key).map(|b| to_u64_floor(&(fx(&b.asset_shares.value) * &q.asv)).unwrap_or(0)).unwrap_or(0);
    let max = bisect_max(w, m, &[&lk], pos.saturating_add(2), |w, x| vec![w.ix_liquidate(lq, le, ca, db, lkp, x)]).await;
    m.r.count(if max.is_some() { "scen.liquidation_boundary_found" } else { "scen.liquidation_not_possible" });
    // a caller that names one of the two banks twice among the liquidator's observation accounts
    // (only an account holding two positions in one bank could need that)
    for d in [ca, db] {
        let i = w.ix_liquidate_x(lq, le, ca, db, lkp, 1, Some(d));
        let o = w.exec(m, &[i], &[&lk]).await;
        m.r.count(if o.ok() { "scen.liquidation_naming_a_bank_twice_accepted" } else { "scen.liquidation_naming_a_bank_twice_rejected" });
    }
    if let Some(mx) = max {
        // the neighbour above the boundary has been simulated (rejected); commit one amount
        let amt = pick(r, &[mx, mx / 2 + 1, mx / 10 + 1, 1]);
        let _ = exec_liquidation_judged(w, m, lq, le, ca, db, &lk, amt).await;
        if r.gen_bool(0.5) {
            let _ = exec_liquidation_judged(w, m, lq, le, ca, db, &lk, mx / 3 + 1).await;
        }
    }
}

/// The program's own maintenance health of an account (asset value minus liability value), as a
/// simulated health pulse writes it into the account's health cache; None when the pulse fails or
/// reports an engine / price problem.
pub async fn pulsed_maint_health(w: &mut World, m: &mut Mon, a: usize) -> Option<Rat> {
    let key = w.accts[a].key;
    let i = ix::pulse_health(key, w.risk_metas(a, None, None));
    let o = w.probe(m, &[i], &[]).await;
    if !o.ok() {
        return None;
    }
    let ev = o.events.iter().rev().find(|e| e.program == ix::MFI && crate::kinds::Kind::of(&e.data) == crate::kinds::Kind::PulseHealth)?;
    let snap = ev.post.iter().find(|s| s.key == key)?;
    let acc = acct_of(&snap.data)?;
    let c = &acc.health_cache;
    if c.flags & 0b110 != 0b110 {
        return None;
    }
    Some(fx(&c.asset_value_maint.value) - fx(&c.liability_value_maint.value))
}

/// A committed classic liquidation bracketed by two simulated health pulses of the liquidatee at
/// the same prices, time and share values (both banks are accrued first): C05 wants the account
/// strictly healthier afterwards, and here "healthier" is read off the program's own valuation, so
/// the comparison is exact (the reference valuation of the monitor carries an error band and cannot
/// tell "unchanged" from "better by less than the band").
pub async fn exec_liquidation_judged(w: &mut World, m: &mut Mon, lq: usize, le: usize, ca: usize, db: usize, lk: &Keypair, amt: u64) -> crate::chain::TxOut {
    for b in [ca, db] {
        if w.banks[b].venue.is_none() {
            let i = w.ix_accrue(b);
            let _ = w.exec(m, &[i], &[]).await;
        }
    }
    let h0 = pulsed_maint_health(w, m, le).await;
    let i = w.ix_liquidate(lq, le, ca, db, lk.pubkey(), amt);
    let o = w.exec(m, &[i], &[lk]).await;
    if o.ok() {
        let h1 = pulsed_maint_health(w, m, le).await;
        if let (Some(h0), Some(h1)) = (h0, h1) {
            m.r.eval();
            m.r.count("C05.program_health_before_after_pairs");
            if h1 <= h0 {
                m.r.violate("C05", "C05/Liquidate/maintenance-health-not-strictly-better-by-the-program's-own-valuation", format!("liquidatee {}: seized {} of bank {}: health {} -> {}", w.accts[le].key, amt, w.banks[ca].key, show(&h0), show(&h1)));
            }
        }
    }
    o
}

/// Liquidation on the flat boundary: a collateral whose maintenance weight is exactly the share of
/// the seized value the liquidatee is relieved of (1 - liquidator fee - insurance fee) times the
/// debt's maintenance liability weight, both prices without confidence, no interest. Seizing
/// collateral then leaves the maintenance health exactly where it was (or moves it by one grid step
/// either way, depending on the seized amount and on which side of the boundary the weight lies):
/// such a liquidation takes five percent of the seized value from the account and does not make
/// it healthier, so it has to be refused.
pub async fn flat_liquidation(w: &mut World, m: &mut Mon, r: &mut R, g: usize, lq: usize) {
    use marginfi_type_crate::constants::{LIQUIDATION_INSURANCE_FEE, LIQUIDATION_LIQUIDATOR_FEE};
    let dec_c = pick(r, &[9u8, 6, 0]);
    let mc = w.add_mint(dec_c, TokKind::Classic).await;
    let md = w.add_mint(6, TokKind::Classic).await;
    let relief = fixed::types::I80F48::ONE - LIQUIDATION_INSURANCE_FEE - LIQUIDATION_LIQUIDATOR_FEE;
    let lw = pick(r, &[1.0f64, 1.0, 1.25]);
    let target = relief * fixed::types::I80F48::from_num(lw);
    let off = pick(r, &[0i128, 0, 0, 1, -1]);
    let no_fees = |c: &mut BankConfigCompact| {
        c.interest_rate_config.protocol_fixed_fee_apr = wi(0.0);
        c.interest_rate_config.protocol_ir_fee = wi(0.0);
        c.interest_rate_config.insurance_fee_fixed_apr = wi(0.0);
        c.interest_rate_config.insurance_ir_fee = wi(0.0);
        c.interest_rate_config.protocol_origination_fee = wi(0.0);
    };
    let mut cc = default_bank_cfg();
    cc.asset_weight_init = wi(0.5);
    cc.asset_weight_maint = wbitsv(target.to_bits() + off);
    no_fees(&mut cc);
    let mut dc = default_bank_cfg();
    dc.liability_weight_init = wi(lw);
    dc.liability_weight_maint = wi(lw);
    no_fees(&mut dc);
    let ca = match w.add_bank_fixed(g, mc, cc, wi(2.0)).await {
        Ok(b) => b,
        Err(_) => {
            m.r.count("scen.flat_liquidation_setup_failed");
            return;
        }
    };
    let db = match w.add_bank_fixed(g, md, dc, wi(1.0)).await {
        Ok(b) => b,
        Err(_) => {
            m.r.count("scen.flat_liquidation_setup_failed");
            return;
        }
    };
    w.create_ata(w.fee_wallet.pubkey(), mc).await;
    w.create_ata(w.fee_wallet.pubkey(), md).await;
    let unit_c = 10u64.pow(dec_c as u32);
    let lk = w.auth_of(lq);
    w.mint_to(md, w.ta_of(lq, db), 1_000_000_000_000).await;
    let i = w.ix_deposit(lq, db, lk.pubkey(), w.ta_of(lq, db), 100_000_000_000, None);
    if !w.exec(m, &[i], &[&lk]).await.ok() {
        m.r.count("scen.flat_liquidation_setup_failed");
        return;
    }
    let u = w.add_user(0).await;
    let le = w.add_account(g, u).await;
    let auth = w.auth_of(le);
    w.mint_to(mc, w.ta_of(le, ca), 500 * unit_c).await;
    let i = w.ix_deposit(le, ca, auth.pubkey(), w.ta_of(le, ca), 500 * unit_c, None);
    if !w.exec(m, &[i], &[&auth]).await.ok() {
        m.r.count("scen.flat_liquidation_setup_failed");
        return;
    }
    let want = (400.0 / lw) as u64 * 1_000_000;
    let i = w.ix_borrow(le, db, auth.pubkey(), w.ta_of(le, db), want);
    if !w.exec(m, &[i], &[&auth]).await.ok() {
        m.r.count("scen.flat_liquidation_setup_failed");
        return;
    }
    // the collateral falls to half a dollar: 500 x 0.5 x ~0.95 against a 400-dollar debt
    let admin = clone_kp(&w.groups[g].admin);
    let i = ix::set_fixed_price(w.groups[g].key, admin.pubkey(), w.banks[ca].key, wi(0.5));
    if !w.exec(m, &[i], &[&admin]).await.ok() {
        m.r.count("scen.flat_liquidation_setup_failed");
        return;
    }
    m.r.count("scen.flat_liquidation_rounds");
    for seize in [64u64, 50, 32, 10, 3, 1] {
        let o = exec_liquidation_judged(w, m, lq, le, ca, db, &lk, seize * unit_c).await;
        m.r.count(&format!("scen.flat_liquidation/{}", if o.ok() { "accepted".to_string() } else { o.custom_code().map(|c| c.to_string()).unwrap_or_else(|| "other".into()) }));
    }
}

/// Life of a short-lived bank: created, entered and left by a few accounts through every way a
/// position can be opened and closed (deposit, partial and full withdrawal, borrow, partial and full
/// repayment, explicit balance close), with the group admin's `close_bank` simulated after every
/// step - the ledger monitor judges any accepted one (nobody may still hold more than dust) - and
/// committed at the end when everybody has left.
pub async fn close_bank_cycle(w: &mut World, m: &mut Mon, r: &mut R, g: usize, lender: usize) {
    let hosts: Vec<usize> = (0..w.banks.len()).filter(|b| w.banks[*b].group == g && w.banks[*b].venue.is_none() && matches!(w.banks[*b].oracle, OracleD::Pyth(_) | OracleD::Swb(_) | OracleD::Fixed)).collect();
    let cols: Vec<usize> = (0..w.banks.len()).filter(|b| w.banks[*b].group == g && usable_collateral(w, *b)).collect();
    if hosts.is_empty() || cols.is_empty() {
        m.r.count("scen.close_bank_cycle_not_possible");
        return;
    }
    let mint = w.banks[pick(r, &hosts)].mint;
    let mut c = default_bank_cfg();
    if r.gen_bool(0.5) {
        c.interest_rate_config.protocol_fixed_fee_apr = wi(0.0);
        c.interest_rate_config.protocol_ir_fee = wi(0.0);
        c.interest_rate_config.insurance_fee_fixed_apr = wi(0.0);
        c.interest_rate_config.insurance_ir_fee = wi(0.0);
        c.interest_rate_config.protocol_origination_fee = wi(0.0);
    }
    let now = w.chain.now();
    let x = match w.add_bank_pyth(g, mint, c, PythPx::simple(1_000_000, -6, now)).await {
        Ok(b) => b,
        Err(_) => {
            m.r.count("scen.close_bank_cycle_not_possible");
            return;
        }
    };
    let xk = w.banks[x].key;
    let gk = w.groups[g].key;
    let admin = clone_kp(&w.groups[g].admin);
    let fund = 1u64 << 36;
    let mut members = vec![lender];
    for _ in 0..2 {
        let u = w.add_user(fund).await;
        members.push(w.add_account(g, u).await);
    }
    let ca = pick(r, &cols);
    let steps = r.gen_range(6..16);
    for _ in 0..steps {
        let a = pick(r, &members);
        let auth = w.auth_of(a);
        let ak = auth.pubkey();
        let ta = w.ta_of(a, x);
        let amt = pick(r, &[1u64, 1000, 1_000_000, 1 << 30]);
        let ixs = match r.gen_range(0..9) {
            0 | 1 => vec![w.ix_deposit(a, x, ak, ta, amt, None)],
            2 => vec![w.ix_withdraw(a, x, ak, ta, amt, None)],
            3 => vec![w.ix_withdraw(a, x, ak, ta, 0, Some(true))],
            4 => {
                // collateral elsewhere, then a debt in the short-lived bank
                let i = w.ix_deposit_any(a, ca, ak, w.ta_of(a, ca), 1 << 30);
                let _ = w.exec(m, &[i], &[&auth]).await;
                vec![w.ix_borrow(a, x, ak, ta, amt.min(1_000_000))]
            }
            5 => vec![w.ix_repay(a, x, ak, ta, amt, None)],
            6 => vec![w.ix_repay(a, x, ak, ta, 0, Some(true))],
            7 => vec![ix::close_balance(gk, w.accts[a].key, ak, xk)],
            _ => {
                w.chain.advance(pick(r, &[1i64, 3600, 86_400]));
                w.refresh_oracles();
                vec![w.ix_accrue(x)]
            }
        };
        let _ = w.exec(m, &ixs, &[&auth]).await;
        let o = w.probe(m, &[ix::close_bank(gk, admin.pubkey(), xk)], &[&admin]).await;
        m.r.count(if o.ok() { "scen.close_bank_probe_accepted" } else { "scen.close_bank_probe_rejected" });
    }
    // everybody leaves: debts first, then deposits
    for a in members.iter().cloned() {
        let auth = w.auth_of(a);
        let ak = auth.pubkey();
        let ta = w.ta_of(a, x);
        let i = w.ix_repay(a, x, ak, ta, 0, Some(true));
        let _ = w.exec(m, &[i], &[&auth]).await;
    }
    for a in members.iter().cloned() {
        let auth = w.auth_of(a);
        let ak = auth.pubkey();
        let ta = w.ta_of(a, x);
        let i = w.ix_withdraw(a, x, ak, ta, 0, Some(true));
        let _ = w.exec(m, &[i], &[&auth]).await;
        let i = ix::close_balance(gk, w.accts[a].key, ak, xk);
        let _ = w.exec(m, &[i], &[&auth]).await;
        let o = w.probe(m, &[ix::close_bank(gk, admin.pubkey(), xk)], &[&admin]).await;
        m.r.count(if o.ok() { "scen.close_bank_probe_accepted" } else { "scen.close_bank_probe_rejected" });
    }
    let o = w.exec(m, &[ix::close_bank(gk, admin.pubkey(), xk)], &[&admin]).await;
    if o.ok() {
        m.r.count("scen.close_bank_committed");
        // the bank is gone; it was the last one added
        if w.banks.last().map(|b| b.key) == Some(xk) {
            w.banks.pop();
        }
    } else {
        m.r.count(&format!("scen.close_bank_at_the_end_rejected/{}", o.custom_code().map(|c| c.to_string()).unwrap_or_else(|| "other".into())));
        // keep the world consistent: nobody uses the leftover bank again, but it stays listed
    }
}

/// An account that fills all sixteen position slots (fifteen deposits and one pure debt) and then
/// reaches for a seventeenth bank - by deposit, by borrow and as a liquidator: it must be refused
/// (no slot), and whatever happens the ledger monitors reconcile every bank touched. Afterwards one
/// position is closed and the seventeenth bank is entered through the freed slot.
pub async fn slot_saturation(w: &mut World, m: &mut Mon, r: &mut R, g: usize, lender: usize) {
    let hosts: Vec<usize> = (0..w.banks.len()).filter(|b| w.banks[*b].group == g && w.banks[*b].venue.is_none() && matches!(w.mints[w.banks[*b].mint].kind, TokKind::Classic | TokKind::T22) && matches!(w.banks[*b].oracle, OracleD::Pyth(_) | OracleD::Swb(_) | OracleD::Fixed)).collect();
    if hosts.is_empty() {
        m.r.count("scen.slot_saturation_not_possible");
        return;
    }
    let mint = w.banks[pick(r, &hosts)].mint;
    let mut bs = vec![];
    for _ in 0..17 {
        match w.add_bank_fixed(g, mint, default_bank_cfg(), wi(1.0)).await {
            Ok(b) => bs.push(b),
            Err(_) => {
                m.r.count("scen.slot_saturation_not_possible");
                return;
            }
        }
    }
    let unit = 10u64.pow(w.mints[mint].decimals.min(9) as u32);
    let lk = w.auth_of(lender);
    w.mint_to(mint, w.ta_of(lender, bs[15]), 1_000_000 * unit).await;
    for b in [bs[15], bs[16]] {
        let i = w.ix_deposit(lender, b, lk.pubkey(), w.ta_of(lender, b), 10_000 * unit, None);
        let _ = w.exec(m, &[i], &[&lk]).await;
    }
    let u = w.add_user(0).await;
    let a = w.add_account(g, u).await;
    let auth = w.auth_of(a);
    let ak = auth.pubkey();
    let ta = w.ta_of(a, bs[0]);
    w.mint_to(mint, ta, 1_000_000 * unit).await;
    for b in bs.iter().take(15) {
        let i = w.ix_deposit(a, *b, ak, ta, 100 * unit, None);
        if !w.exec(m, &[i], &[&auth]).await.ok() {
            m.r.count("scen.slot_saturation_setup_failed");
            return;
        }
    }
    let i = w.ix_borrow(a, bs[15], ak, ta, pick(r, &[50 * unit, 7 * unit + 1]));
    if !w.exec(m, &[i], &[&auth]).await.ok() {
        m.r.count("scen.slot_saturation_setup_failed");
        return;
    }
    m.r.count("scen.slot_saturation_rounds");
    // the seventeenth bank: deposit, borrow
    let i = w.ix_deposit(a, bs[16], ak, ta, 10 * unit, None);
    let o = w.exec(m, &[i], &[&auth]).await;
    m.r.count(if o.ok() { "scen.seventeenth_position_accepted/deposit" } else { "scen.seventeenth_position_refused/deposit" });
    let i = w.ix_borrow(a, bs[16], ak, ta, unit);
    let o = w.exec(m, &[i], &[&auth]).await;
    m.r.count(if o.ok() { "scen.seventeenth_position_accepted/borrow" } else { "scen.seventeenth_position_refused/borrow" });
    // a pulse of the full account (sixteen positions in the order the engine walks them)
    let i = ix::pulse_health(w.accts[a].key, w.risk_metas(a, None, None));
    let _ = w.exec(m, &[i], &[]).await;
    // one deposit is closed, the freed slot takes the seventeenth bank
    let i = w.ix_withdraw(a, bs[3], ak, ta, 0, Some(true));
    let o = w.exec(m, &[i], &[&auth]).await;
    if o.ok() {
        let i = w.ix_deposit(a, bs[16], ak, ta, 10 * unit, None);
        let o = w.exec(m, &[i], &[&auth]).await;
        m.r.count(if o.ok() { "scen.freed_slot_reused" } else { "scen.freed_slot_reuse_refused" });
    }
    // the debt is repaid in full and the debt slot reused for a deposit elsewhere
    let i = w.ix_repay(a, bs[15], ak, ta, 0, Some(true));
    let _ = w.exec(m, &[i], &[&auth]).await;
    let i = w.ix_deposit(a, bs[3], ak, ta, 5 * unit, None);
    let _ = w.exec(m, &[i], &[&auth]).await;
}

/// A bank is flagged for token-less repayment (the risk admin may write debts off without paying).
/// A small account (under five dollars, so that a receivership may repay it completely) owes that
/// bank and becomes liquidatable; a stranger takes it into receivership and repays the whole debt:
/// he has to pay for it like anybody else - the write-off belongs to the risk admin alone.
pub async fn tokenless_stranger(w: &mut World, m: &mut Mon, r: &mut R, g: usize, lender: usize) {
    let cas: Vec<usize> = (0..w.banks.len()).filter(|b| w.banks[*b].group == g && usable_collateral(w, *b) && matches!(w.banks[*b].oracle, OracleD::Pyth(_)) && unit_usd_low(w, *b).map(|p| p > 0.0).unwrap_or(false)).collect();
    let dbs: Vec<usize> = (0..w.banks.len()).filter(|b| w.banks[*b].group == g && w.banks[*b].venue.is_none() && w.bank(*b).config.operational_state == BankOperationalState::Operational && w.bank(*b).config.asset_tag <= 1 && w.bank(*b).config.risk_tier == RiskTier::Collateral && unit_usd_low(w, *b).map(|p| p > 0.0).unwrap_or(false)).collect();
    if cas.is_empty() || dbs.is_empty() {
        m.r.count("scen.tokenless_stranger_not_possible");
        return;
    }
    let ca = pick(r, &cas);
    let others: Vec<usize> = dbs.iter().cloned().filter(|b| *b != ca).collect();
    if others.is_empty() {
        m.r.count("scen.tokenless_stranger_not_possible");
        return;
    }
    let db = pick(r, &others);
    let (pc, _pd) = (unit_usd_low(w, ca).unwrap(), unit_usd_low(w, db).unwrap());
    let lk = w.auth_of(lender);
    let i = w.ix_deposit(lender, db, lk.pubkey(), w.ta_of(lender, db), 1 << 34, None);
    let _ = w.exec(m, &[i], &[&lk]).await;
    let u = w.add_user(1u64 << 40).await;
    let a = w.add_account(g, u).await;
    let auth = w.auth_of(a);
    let ak = auth.pubkey();
    let dep = ((3.0 / pc) as u64).max(1);
    let i = w.ix_deposit(a, ca, ak, w.ta_of(a, ca), dep, None);
    if !w.exec(m, &[i], &[&auth]).await.ok() {
        m.r.count("scen.tokenless_stranger_setup_failed");
        return;
    }
    let ta = w.ta_of(a, db);
    let hi = w.token(&w.banks[db].k.lv);
    let max = bisect_max(w, m, &[&auth], hi, |w, v| vec![w.ix_borrow(a, db, ak, ta, v)]).await.unwrap_or(0);
    if max < 2 {
        m.r.count("scen.tokenless_stranger_setup_failed");
        return;
    }
    let i = w.ix_borrow(a, db, ak, ta, max - max / 10);
    if !w.exec(m, &[i], &[&auth]).await.ok() {
        m.r.count("scen.tokenless_stranger_setup_failed");
        return;
    }
    let gk = w.groups[g].key;
    let admin = clone_kp(&w.groups[g].admin);
    let mut o = BankConfigOpt::default();
    o.tokenless_repayments_allowed = Some(true);
    o.operational_state = Some(BankOperationalState::ReduceOnly);
    let i = ix::configure_bank(gk, admin.pubkey(), w.banks[db].key, o);
    if !w.exec(m, &[i], &[&admin]).await.ok() {
        m.r.count("scen.tokenless_stranger_setup_failed");
        return;
    }
    let ru = w.accts[lender].user;
    let rk = w.user_kp(ru);
    let tas = w.users[ru].tas.clone();
    let saved = save_price(w, ca);
    let mut startable = false;
    for _ in 0..8 {
        let with_init = !w.shadow.contains_key(&ix::liq_record_key(&w.accts[a].key));
        let ixs = receivership_ixs(w, a, &rk, None, None, with_init, &tas);
        if w.probe(m, &ixs, &[&rk]).await.ok() {
            startable = true;
            break;
        }
        scale_price(w, ca, 0.6);
    }
    if startable {
        let with_init = !w.shadow.contains_key(&ix::liq_record_key(&w.accts[a].key));
        let ixs = receivership_ixs(w, a, &rk, None, Some((db, 0, true)), with_init, &tas);
        let o = w.exec(m, &ixs, &[&rk]).await;
        m.r.count("scen.tokenless_stranger_rounds");
        m.r.count(&format!("scen.stranger_whole_debt_repayment_on_flagged_bank/{}", if o.ok() { "accepted".to_string() } else { o.custom_code().map(|c| c.to_string()).unwrap_or_else(|| "other".into()) }));
    } else {
        m.r.count("scen.tokenless_stranger_account_never_liquidatable");
    }
    restore_price(w, ca, saved);
    let mut o = BankConfigOpt::default();
    o.tokenless_repayments_allowed = Some(false);
    o.operational_state = Some(BankOperationalState::Operational);
    let i = ix::configure_bank(gk, admin.pubkey(), w.banks[db].key, o);
    let _ = w.exec(m, &[i], &[&admin]).await;
}

/// The collateral bank of a leveraged account is wound down (reduce-only): its deposits stop
/// counting towards new borrowing whatever e-mode says, so a further borrow and a withdrawal of
/// other collateral have to be refused (the C04 monitor judges any acceptance against the
/// reference, in which reduce-only collateral backs nothing at the initial level).
pub async fn reduce_only_probe(w: &mut World, m: &mut Mon, r: &mut R, lev: &Lev, g: usize) {
    if w.banks[lev.ca].venue.is_some() {
        return;
    }
    let gk = w.groups[g].key;
    let admin = clone_kp(&w.groups[g].admin);
    let mut o = BankConfigOpt::default();
    o.operational_state = Some(BankOperationalState::ReduceOnly);
    let i = ix::configure_bank(gk, admin.pubkey(), w.banks[lev.ca].key, o);
    if !w.exec(m, &[i], &[&admin]).await.ok() {
        m.r.count("scen.reduce_only_probe_configure_refused");
        return;
    }
    m.r.count("scen.reduce_only_probes");
    let auth = w.auth_of(lev.acct);
    let ak = auth.pubkey();
    for amt in [1u64, pick(r, &[1000u64, 100_000])] {
        let i = w.ix_borrow(lev.acct, lev.db, ak, w.ta_of(lev.acct, lev.db), amt);
        let ob = w.exec(m, &[i], &[&auth]).await;
        m.r.count(if ob.ok() { "scen.borrow_against_reduce_only_collateral_accepted" } else { "scen.borrow_against_reduce_only_collateral_refused" });
    }
    let i = ix::pulse_health(w.accts[lev.acct].key, w.risk_metas(lev.acct, None, None));
    let _ = w.exec(m, &[i], &[]).await;
    let mut o = BankConfigOpt::default();
    o.operational_state = Some(BankOperationalState::Operational);
    let i = ix::configure_bank(gk, admin.pubkey(), w.banks[lev.ca].key, o);
    let _ = w.exec(m, &[i], &[&admin]).await;
}

/// A liquidator that is solvent only thanks to e-mode: its tagged collateral backs a debt in a bank
/// that lists the tag, close to the e-mode limit. Liquidating somebody whose debt sits in a bank
/// *without* any e-mode configuration makes the liquidator owe that bank too, which ends the
/// preferential weight for all its collateral - so the liquidation has to be refused (the liquidator
/// would not remain initially healthy). The C05 monitor judges any that goes through.
pub async fn emode_liquidator(w: &mut World, m: &mut Mon, r: &mut R, g: usize, lender: usize) {
    let hosts: Vec<usize> = (0..w.banks.len()).filter(|b| w.banks[*b].group == g && w.banks[*b].venue.is_none() && matches!(w.mints[w.banks[*b].mint].kind, TokKind::Classic | TokKind::T22) && w.mints[w.banks[*b].mint].decimals >= 6 && w.mints[w.banks[*b].mint].decimals <= 9 && matches!(w.banks[*b].oracle, OracleD::Pyth(_) | OracleD::Swb(_) | OracleD::Fixed)).collect();
    if hosts.is_empty() {
        m.r.count("scen.emode_liquidator_not_possible");
        return;
    }
    let mint = w.banks[pick(r, &hosts)].mint;
    let now = w.chain.now();
    let mut zc = default_bank_cfg();
    zc.asset_weight_init = wi(0.5);
    zc.asset_weight_maint = wi(0.6);
    let mut ids = vec![];
    for cfg in [zc, default_bank_cfg(), default_bank_cfg(), default_bank_cfg()] {
        match w.add_bank_pyth(g, mint, cfg, PythPx::simple(1_000_000, -6, now)).await {
            Ok(b) => ids.push(b),
            Err(_) => {
                m.r.count("scen.emode_liquidator_not_possible");
                return;
            }
        }
    }
    let (z, x, p, c) = (ids[0], ids[1], ids[2], ids[3]);
    let gk = w.groups[g].key;
    let ea = clone_kp(&w.groups[g].emode);
    let zero_w: WrappedI80F48 = wi(0.0);
    let empty = [EmodeEntry { collateral_bank_emode_tag: 0, flags: 0, pad0: [0; 5], asset_weight_init: zero_w, asset_weight_maint: zero_w }; MAX_EMODE_ENTRIES];
    let i = ix::configure_bank_emode(gk, ea.pubkey(), w.banks[z].key, 5, empty);
    let ok1 = w.exec(m, &[i], &[&ea]).await.ok();
    let mut t = empty;
    t[0] = EmodeEntry { collateral_bank_emode_tag: 5, flags: 0, pad0: [0; 5], asset_weight_init: wi(0.9), asset_weight_maint: wi(0.93) };
    let i = ix::configure_bank_emode(gk, ea.pubkey(), w.banks[x].key, 0, t);
    let ok2 = w.exec(m, &[i], &[&ea]).await.ok();
    if !ok1 || !ok2 {
        m.r.count("scen.emode_liquidator_emode_setup_refused");
        return;
    }
    let lk = w.auth_of(lender);
    let unit = 10u64.pow(w.mints[mint].decimals as u32);
    w.mint_to(mint, w.ta_of(lender, x), 4_000_000 * unit).await;
    for b in [x, p] {
        let i = w.ix_deposit(lender, b, lk.pubkey(), w.ta_of(lender, b), 1_000_000 * unit, None);
        let _ = w.exec(m, &[i], &[&lk]).await;
    }
    // the liquidator
    let lu = w.add_user(0).await;
    let lq = w.add_account(g, lu).await;
    let lqk = w.auth_of(lq);
    w.mint_to(mint, w.ta_of(lq, z), 100_000 * unit).await;
    let i = w.ix_deposit(lq, z, lqk.pubkey(), w.ta_of(lq, z), 10_000 * unit, None);
    if !w.exec(m, &[i], &[&lqk]).await.ok() {
        m.r.count("scen.emode_liquidator_setup_failed");
        return;
    }
    let (ta, lqp) = (w.ta_of(lq, x), lqk.pubkey());
    let max = match bisect_max(w, m, &[&lqk], 20_000 * unit, |w, v| vec![w.ix_borrow(lq, x, lqp, ta, v)]).await {
        Some(v) if v > 0 => v,
        _ => {
            m.r.count("scen.emode_liquidator_setup_failed");
            return;
        }
    };
    let i = w.ix_borrow(lq, x, lqp, ta, max - max / 50);
    if !w.exec(m, &[i], &[&lqk]).await.ok() {
        m.r.count("scen.emode_liquidator_setup_failed");
        return;
    }
    // the victim: collateral in c, debt in the bank without e-mode configuration
    let vu = w.add_user(0).await;
    let va = w.add_account(g, vu).await;
    let vk = w.auth_of(va);
    w.mint_to(mint, w.ta_of(va, c), 100_000 * unit).await;
    let i = w.ix_deposit(va, c, vk.pubkey(), w.ta_of(va, c), 1_000 * unit, None);
    let _ = w.exec(m, &[i], &[&vk]).await;
    let (tav, vkp) = (w.ta_of(va, p), vk.pubkey());
    let vmax = bisect_max(w, m, &[&vk], 2_000 * unit, |w, v| vec![w.ix_borrow(va, p, vkp, tav, v)]).await.unwrap_or(0);
    if vmax == 0 {
        m.r.count("scen.emode_liquidator_setup_failed");
        return;
    }
    let i = w.ix_borrow(va, p, vkp, tav, vmax - vmax / 100);
    let _ = w.exec(m, &[i], &[&vk]).await;
    scale_price(w, c, 0.8);
    m.r.count("scen.emode_liquidator_rounds");
    for seize in [1u64, 10, 100] {
        let i = w.ix_liquidate(lq, va, c, p, lqp, seize * unit);
        let o = w.exec(m, &[i], &[&lqk]).await;
        m.r.count(&format!("scen.emode_liquidator/{}", if o.ok() { "accepted".to_string() } else { o.custom_code().map(|c| c.to_string()).unwrap_or_else(|| "other".into()) }));
    }
    // control: the same liquidation by somebody who does not depend on e-mode goes through
    let i = w.ix_liquidate(lender, va, c, p, lk.pubkey(), 10 * unit);
    let o = w.exec(m, &[i], &[&lk]).await;
    m.r.count(if o.ok() { "scen.emode_liquidator_control_accepted" } else { "scen.emode_liquidator_control_refused" });
    scale_price(w, c, 1.25);
}

/// Receivership bracket: [init record] start, withdraw x, repay y, end.
pub fn receivership_ixs(w: &World, le: usize, receiver: &Keypair, wd: Option<(usize, u64, bool)>, rp: Option<(usize, u64, bool)>, with_init: bool, tas: &[solana_sdk::pubkey::Pubkey]) -> Vec<Instruction> {
    let acct = w.accts[le].key;
    let risk = w.risk_metas(le, None, None);
    let mut ixs = vec![];
    if with_init {
        ixs.push(ix::init_liq_record(acct, receiver.pubkey()));
    }
    ixs.push(ix::start_liquidation(acct, receiver.pubkey(), risk.clone()));
    let g = w.groups[w.accts[le].group].key;
    if let Some((b, amt, all)) = wd {
        let mut rem = w.mint_prefix(b);
        rem.extend(w.risk_metas(le, None, None));
        ixs.push(ix::withdraw(g, acct, receiver.pubkey(), w.banks[b].key, tas[w.banks[b].mint], w.token_program_of_bank(b), amt, if all { Some(true) } else { None }, rem));
    }
    if let Some((b, amt, all)) = rp {
        ixs.push(ix::repay(g, acct, receiver.pubkey(), w.banks[b].key, tas[w.banks[b].mint], w.token_program_of_bank(b), amt, if all { Some(true) } else { None }, w.mint_prefix(b)));
    }
    // end: risk accounts for the post state (a full withdraw / repay closes the position)
    let mut keys: Vec<solana_sdk::pubkey::Pubkey> = w.acct(le).lending_account.balances.iter().filter(|b| b.active != 0).map(|b| b.bank_pk).collect();
    if let Some((b, _, true)) = wd {
        keys.retain(|k| k != &w.banks[b].key);
    }
    if let Some((b, _, true)) = rp {
        keys.retain(|k| k != &w.banks[b].key);
    }
    keys.sort();
    keys.reverse();
    let mut end_rem = vec![];
    for k in keys {
        if let Some(bi) = w.bank_by_key(&k) {
            end_rem.extend(w.bank_risk_metas(bi));
        }
    }
    ixs.push(ix::end_liquidation(acct, receiver.pubkey(), w.fee_wallet.pubkey(), end_rem));
    ixs
}

pub async fn receivership(w: &mut World, m: &mut Mon, r: &mut R, lev: &Lev, receiver_user: usize) {
    // in some rounds the collateral bank is wound down first: reduce-only deposits stop counting for
    // new borrowing but keep their full value for the maintenance and equity assessments
    let reduce_only = r.gen_bool(0.3) && w.banks[lev.ca].venue.is_none();
    if reduce_only {
        let g = w.accts[lev.acct].group;
        let admin = clone_kp(&w.groups[g].admin);
        let mut o = BankConfigOpt::default();
        o.operational_state = Some(BankOperationalState::ReduceOnly);
        let i = ix::configure_bank(w.groups[g].key, admin.pubkey(), w.banks[lev.ca].key, o);
        let ok = w.exec(m, &[i], &[&admin]).await.ok();
        m.r.count(if ok { "scen.receivership_over_reduce_only_collateral" } else { "scen.reduce_only_configure_rejected" });
    }
    // in some rounds the collateral bank carries a collateral-value cap far below what is deposited:
    // the cap discounts the collateral for new borrowing only - what a receiver seizes is measured
    // at full value
    let capped = r.gen_bool(0.3) && w.banks[lev.ca].venue.is_none();
    let old_cap = w.bank(lev.ca).config.total_asset_value_init_limit;
    if capped {
        let g = w.accts[lev.acct].group;
        let admin = clone_kp(&w.groups[g].admin);
        let mut o = BankConfigOpt::default();
        o.total_asset_value_init_limit = Some(pick(r, &[1u64, 10, 1000]));
        let i = ix::configure_bank(w.groups[g].key, admin.pubkey(), w.banks[lev.ca].key, o);
        let ok = w.exec(m, &[i], &[&admin]).await.ok();
        m.r.count(if ok { "scen.receivership_over_capped_collateral" } else { "scen.cap_configure_rejected" });
    }
    receivership_inner(w, m, r, lev, receiver_user).await;
    if capped {
        let g = w.accts[lev.acct].group;
        let admin = clone_kp(&w.groups[g].admin);
        let mut o = BankConfigOpt::default();
        o.total_asset_value_init_limit = Some(old_cap);
        let i = ix::configure_bank(w.groups[g].key, admin.pubkey(), w.banks[lev.ca].key, o);
        let _ = w.exec(m, &[i], &[&admin]).await;
    }
    if reduce_only {
        let g = w.accts[lev.acct].group;
        let admin = clone_kp(&w.groups[g].admin);
        let mut o = BankConfigOpt::default();
        o.operational_state = Some(BankOperationalState::Operational);
        let i = ix::configure_bank(w.groups[g].key, admin.pubkey(), w.banks[lev.ca].key, o);
        let _ = w.exec(m, &[i], &[&admin]).await;
    }
}

async fn receivership_inner(w: &mut World, m: &mut Mon, r: &mut R, lev: &Lev, receiver_user: usize) {
    let shock = pick(r, &[0.9f64, 0.8, 0.6, 0.3]);
    scale_price_any(w, lev.ca, shock).await;
    let rk = w.user_kp(receiver_user);
    let tas = w.users[receiver_user].tas.clone();
    let le = lev.acct;
    // record init (own transaction half of the time)
    let has_record = w.shadow.contains_key(&ix::liq_record_key(&w.accts[le].key));
    let mut with_init = !has_record;
    if !has_record && r.gen_bool(0.5) {
        let i = ix::init_liq_record(w.accts[le].key, rk.pubkey());
        let _ = w.exec(m, &[i], &[&rk]).await;
        with_init = false;
    }
    // the exact collateral price at which a receivership may start (empty bracket as the probe)
    if r.gen_bool(0.6) {
        scale_price_any(w, lev.ca, 1.0 / shock).await;
        let rkc = clone_kp(&rk);
        let tas2 = tas.clone();
        if price_threshold(w, m, lev.ca, &[&rk], |w| receivership_ixs(w, le, &rkc, None, None, with_init, &tas2), crate::mon::err::HEALTHY_ACCOUNT).await {
            m.r.count("scen.receivership_price_boundary_found");
        }
    }
    // empty bracket and missing pieces
    let ixs = receivership_ixs(w, le, &rk, None, None, with_init, &tas);
    let _ = w.probe(m, &ixs, &[&rk]).await;
    let repay_amt = pick(r, &[lev.borrowed / 10 + 1, lev.borrowed / 3 + 1, lev.borrowed / 2 + 1]);
    let (ca, db) = (lev.ca, lev.db);
    // largest withdraw accepted for this repayment (premium boundary)
    let acc = w.acct(le);
    let q = BankQ::of(&w.bank(ca));
    let pos: u64 = acc.lending_account.balances.iter().find(|b| b.active != 0 && b.bank_pk == w.banks[ca].key).map(|b| to_u64_floor(&(fx(&b.asset_shares.value) * &q.asv)).unwrap_or(0)).unwrap_or(0);
    let rkc = clone_kp(&rk);
    let max = bisect_max(w, m, &[&rk], pos, |w, x| receivership_ixs(w, le, &rkc, Some((ca, x, false)), Some((db, repay_amt, false)), with_init, &tas)).await;
    m.r.count(if max.is_some() { "scen.receivership_boundary_found" } else { "scen.receivership_not_possible" });
    // the receiver pays the whole debt off (repay-all) and takes collateral: an account without debt
    // that keeps collateral is healthy again, so unless everything it has is worth less than the
    // premium allows (or the account is tiny) the end must refuse; whatever is accepted is judged
    if r.gen_bool(0.5) {
        let rkc = clone_kp(&rk);
        let tas3 = tas.clone();
        let mx_all = bisect_max(w, m, &[&rk], pos, |w, x| receivership_ixs(w, le, &rkc, Some((ca, x, false)), Some((db, 0, true)), with_init, &tas3)).await;
        m.r.count(if mx_all.is_some() { "scen.receivership_whole_debt_repaid_some_seizure_accepted" } else { "scen.receivership_whole_debt_repaid_refused" });
        for x in [1u64, pos / 50 + 1, pos / 21, pos / 20 + 1] {
            let ixs = receivership_ixs(w, le, &rk, Some((ca, x, false)), Some((db, 0, true)), with_init, &tas);
            let o = w.probe(m, &ixs, &[&rk]).await;
            m.r.count(if o.ok() { "scen.receivership_whole_debt_probe_accepted" } else { "scen.receivership_whole_debt_probe_refused" });
        }
        // ... and takes nothing at all
        let ixs = receivership_ixs(w, le, &rk, None, Some((db, 0, true)), with_init, &tas);
        let _ = w.probe(m, &ixs, &[&rk]).await;
        m.r.count("scen.receivership_whole_debt_rounds");
    }
    if let Some(mx) = max {
        let amt = pick(r, &[mx, mx / 2 + 1, 1]);
        let ixs = receivership_ixs(w, le, &rk, Some((ca, amt, false)), Some((db, repay_amt, false)), with_init, &tas);
        let _ = w.exec(m, &ixs, &[&rk]).await;
    }
    // somebody refreshes the account's health cache while it is under water, the owner cures the
    // account in the same second (more collateral), and a third party tries to take it over: what
    // counts is the account as it stands, not what a cache says about it
    if r.gen_bool(0.4) {
        let with_init = !w.shadow.contains_key(&ix::liq_record_key(&w.accts[le].key));
        let startable = w.probe(m, &receivership_ixs(w, le, &rk, None, None, with_init, &tas), &[&rk]).await.ok();
        if startable {
            let pi = ix::pulse_health(w.accts[le].key, w.risk_metas(le, None, None));
            let _ = w.exec(m, &[pi], &[]).await;
            let auth = w.auth_of(le);
            let q = BankQ::of(&w.bank(ca));
            let held: u64 = w.acct(le).lending_account.balances.iter().find(|b| b.active != 0 && b.bank_pk == w.banks[ca].key).map(|b| to_u64_floor(&(fx(&b.asset_shares.value) * &q.asv)).unwrap_or(0)).unwrap_or(0);
            let extra = held.saturating_mul(3).max(1000);
            w.mint_to(w.banks[ca].mint, w.ta_of(le, ca), extra).await;
            let i = w.ix_deposit_any(le, ca, auth.pubkey(), w.ta_of(le, ca), extra);
            if w.exec(m, &[i], &[&auth]).await.ok() {
                let o = w.probe(m, &receivership_ixs(w, le, &rk, None, None, with_init, &tas), &[&rk]).await;
                m.r.count("scen.takeover_attempts_after_a_same_second_cure");
                m.r.count(if o.ok() { "scen.takeover_after_cure_accepted" } else { "scen.takeover_after_cure_refused" });
                let i = w.ix_withdraw(le, ca, auth.pubkey(), w.ta_of(le, ca), extra, None);
                let _ = w.exec(m, &[i], &[&auth]).await;
            }
        }
    }
}

/// C17: an account is left with a debt of a fraction of a unit in a bank (borrow, a minute of
/// interest, repayment of the borrowed amount - not repay-all), then the bank's deposit limit is
/// set just above what is deposited and the account deposits far more than the remaining capacity
/// (plain and "up to limit"). Judged by the deposit-limit monitor: whatever is accepted must leave
/// the bank's deposits below the limit.
pub async fn dust_debt_then_deposit_over_cap(w: &mut World, m: &mut Mon, r: &mut R, g: usize, lender: usize) {
    let hosts: Vec<usize> = (0..w.banks.len()).filter(|b| w.banks[*b].group == g && w.banks[*b].venue.is_none() && matches!(w.mints[w.banks[*b].mint].kind, TokKind::Classic | TokKind::T22) && matches!(w.banks[*b].oracle, OracleD::Pyth(_) | OracleD::Swb(_) | OracleD::Fixed)).collect();
    if hosts.is_empty() {
        m.r.count("scen.dust_debt_scenario_not_possible");
        return;
    }
    let mint = w.banks[pick(r, &hosts)].mint;
    let (x, y) = match (w.add_bank_fixed(g, mint, default_bank_cfg(), wi(1.0)).await, w.add_bank_fixed(g, mint, default_bank_cfg(), wi(1.0)).await) {
        (Ok(x), Ok(y)) => (x, y),
        _ => {
            m.r.count("scen.dust_debt_scenario_not_possible");
            return;
        }
    };
    let unit = 10u64.pow(w.mints[mint].decimals.min(9) as u32);
    let lk = w.auth_of(lender);
    w.mint_to(mint, w.ta_of(lender, x), 1_000_000 * unit).await;
    let i = w.ix_deposit(lender, x, lk.pubkey(), w.ta_of(lender, x), 10_000 * unit, None);
    if !w.exec(m, &[i], &[&lk]).await.ok() {
        m.r.count("scen.dust_debt_scenario_not_possible");
        return;
    }
    let u = w.add_user(0).await;
    let a = w.add_account(g, u).await;
    let auth = w.auth_of(a);
    let ak = auth.pubkey();
    let ta = w.ta_of(a, x);
    w.mint_to(mint, ta, 1_000_000 * unit).await;
    let i = w.ix_deposit(a, y, ak, w.ta_of(a, y), 100_000 * unit, None);
    if !w.exec(m, &[i], &[&auth]).await.ok() {
        m.r.count("scen.dust_debt_scenario_not_possible");
        return;
    }
    // borrow, let a little interest accrue, repay exactly what was borrowed
    let mut dust = false;
    for (amt, dt) in [(100u64, 60i64), (1000, 60), (100, 3600), (10_000, 600)] {
        let i = w.ix_borrow(a, x, ak, ta, amt);
        if !w.exec(m, &[i], &[&auth]).await.ok() {
            continue;
        }
        w.chain.advance(dt);
        w.refresh_oracles();
        let i = w.ix_repay(a, x, ak, ta, amt, None);
        let _ = w.exec(m, &[i], &[&auth]).await;
        let q = BankQ::of(&w.bank(x));
        let left = w.acct(a).lending_account.balances.iter().find(|b| b.active != 0 && b.bank_pk == w.banks[x].key).map(|b| fx(&b.liability_shares.value) * &q.lsv).unwrap_or_else(zero);
        if left > zero() && left < rq(1, 10_000) {
            dust = true;
            break;
        }
        // too much (or nothing) left: clear it and try another size
        let i = w.ix_repay(a, x, ak, ta, 0, Some(true));
        let _ = w.exec(m, &[i], &[&auth]).await;
    }
    m.r.count(if dust { "scen.accounts_left_with_a_dust_debt" } else { "scen.dust_debt_not_produced" });
    // the limit admin puts the deposit limit just above what is deposited
    let q = BankQ::of(&w.bank(x));
    let deposited = to_u64_floor(&q.d).unwrap_or(0);
    let limit = deposited + pick(r, &[1u64, 50, 1000]);
    let la = clone_kp(&w.groups[g].limit);
    let i = ix::configure_bank_limits(w.groups[g].key, la.pubkey(), w.banks[x].key, Some(limit), None, None);
    if !w.exec(m, &[i], &[&la]).await.ok() {
        m.r.count("scen.dust_debt_limit_not_set");
        return;
    }
    for (amt, up) in [(10_000 * unit, None), (limit - deposited + 1, None), (10_000 * unit, Some(true)), (2, None)] {
        let i = w.ix_deposit(a, x, ak, ta, amt, up);
        let o = w.exec(m, &[i], &[&auth]).await;
        m.r.count("scen.deposits_over_the_cap_by_an_account_with_a_dust_debt");
        m.r.count(if o.ok() { "scen.dust_debt_over_cap_deposit_accepted" } else { "scen.dust_debt_over_cap_deposit_refused" });
    }
}

/// Bankruptcy scenario: collateral becomes worthless, then the debt is written off.
pub async fn bankruptcy(w: &mut World, m: &mut Mon, r: &mut R, lev: &Lev, g: usize) {
    let db = lev.db;
    let saved = save_price(w, lev.ca);
    {
        // the exact collateral price at which the account counts as bankrupt
        let admin = clone_kp(&w.groups[g].admin);
        let (acct, apk) = (lev.acct, admin.pubkey());
        if r.gen_bool(0.5) && price_threshold(w, m, lev.ca, &[&admin], |w| vec![w.ix_bankruptcy(acct, db, apk)], crate::mon::err::ACCOUNT_NOT_BANKRUPT).await {
            m.r.count("scen.bankruptcy_price_boundary_found");
        } else {
            scale_price_any(w, lev.ca, 1e-9).await;
        }
    }
    // vary insurance relative to the debt
    let mode = r.gen_range(0..4);
    let iv = w.banks[db].k.iv;
    let mi = w.banks[db].mint;
    let have = w.token(&iv);
    let want: u64 = match mode {
        0 => 0,
        1 => lev.borrowed / 2,
        2 => lev.borrowed.saturating_mul(2),
        _ => lev.borrowed,
    };
    if want > have {
        w.mint_to(mi, iv, want - have).await;
    }
    let who = r.gen_range(0..4);
    let signer = match who {
        0 => clone_kp(&w.groups[g].admin),
        1 => clone_kp(&w.groups[g].risk),
        2 => w.auth_of(lev.acct),
        _ => clone_kp(&w.groups[g].curve),
    };
    if r.gen_bool(0.3) {
        // opt the bank into permissionless settlement
        let admin = clone_kp(&w.groups[g].admin);
        let mut opt = BankConfigOpt::default();
        opt.permissionless_bad_debt_settlement = Some(r.gen_bool(0.7));
        let i = ix::configure_bank(w.groups[g].key, admin.pubkey(), w.banks[db].key, opt);
        let _ = w.exec(m, &[i], &[&admin]).await;
    }
    if r.gen_bool(0.6) {
        // some time passes between the bank's last instruction and the settlement: the settlement is
        // the instruction that has to bring the interest up to date
        w.chain.advance(pick(r, &[1i64, 60, 3600, 86_400]));
        w.refresh_oracles();
        m.r.count("scen.bankruptcy_after_elapsed_time");
    }
    {
        // the same settlement with the bank's liquidity vault replaced by somebody's own token account
        // of the same mint (the insurance payout would go there): simulated, judged if accepted
        let admin = clone_kp(&w.groups[g].admin);
        let mut i = w.ix_bankruptcy(lev.acct, db, admin.pubkey());
        let lv = w.banks[db].k.lv;
        let foreign = w.users[w.accts[lev.acct].user].tas[w.banks[db].mint];
        for mt in i.accounts.iter_mut() {
            if mt.pubkey == lv {
                mt.pubkey = foreign;
            }
        }
        let o = w.probe(m, &[i], &[&admin]).await;
        m.r.count(if o.ok() { "scen.bankruptcy_with_foreign_liquidity_vault_accepted" } else { "scen.bankruptcy_with_foreign_liquidity_vault_refused" });
    }
    let i = w.ix_bankruptcy(lev.acct, db, signer.pubkey());
    let o = w.exec(m, &[i], &[&signer]).await;
    if !o.ok() {
        let admin = clone_kp(&w.groups[g].admin);
        let i = w.ix_bankruptcy(lev.acct, db, admin.pubkey());
        let _ = w.exec(m, &[i], &[&admin]).await;
    }
    // a second attempt on the now-disabled account must not do anything
    let admin = clone_kp(&w.groups[g].admin);
    let i = w.ix_bankruptcy(lev.acct, db, admin.pubkey());
    let _ = w.exec(m, &[i], &[&admin]).await;
    // the owner moves the bankrupt account to a new address (both variants): it stays disabled
    if w.acct(lev.acct).account_flags & ACCOUNT_DISABLED != 0 && r.gen_bool(0.6) {
        let auth = w.auth_of(lev.acct);
        let p = w.chain.payer.pubkey();
        let gk = w.groups[g].key;
        let fw = w.fee_wallet.pubkey();
        let old = w.accts[lev.acct].key;
        let (o, newk) = if r.gen_bool(0.5) {
            let nk = w.next_kp();
            let i = ix::transfer_account(gk, old, nk.pubkey(), auth.pubkey(), p, auth.pubkey(), fw);
            (w.exec(m, &[i], &[&auth, &nk]).await, nk.pubkey())
        } else {
            let idx = (w.accts.len() % 60_000) as u16;
            let (i, k) = ix::transfer_account_pda(gk, old, auth.pubkey(), p, auth.pubkey(), fw, idx, None);
            (w.exec(m, &[i], &[&auth]).await, k)
        };
        m.r.count(if o.ok() { "scen.bankrupt_account_moved" } else { "scen.bankrupt_account_move_refused" });
        if o.ok() {
            let user = w.accts[lev.acct].user;
            w.accts.push(AcctD { key: newk, group: g, user });
            let na = w.accts.len() - 1;
            // whatever it holds, it cannot act
            let i = w.ix_deposit(na, lev.ca, auth.pubkey(), w.ta_of(na, lev.ca), 1000, None);
            let od = w.exec(m, &[i], &[&auth]).await;
            m.r.count(if od.ok() { "scen.moved_bankrupt_account_deposit_accepted" } else { "scen.moved_bankrupt_account_deposit_refused" });
        }
    }
    // restore a sane collateral price for later scenarios
    match saved {
        SavedPx::None => scale_price_any(w, lev.ca, 1e9).await,
        sp => restore_price(w, lev.ca, sp),
    }
}

/// Staleness boundary of the collateral's price as the risk gate sees it: exactly at the maximum
/// age the collateral still counts (a borrow that is healthy with it must not be refused), one
/// second older it counts as nothing. Both probes are judged by the C04 monitors.
pub async fn age_boundary(w: &mut World, m: &mut Mon, lev: &Lev) {
    let bank = w.bank(lev.ca);
    let (is_pyth_plain, key) = match w.banks[lev.ca].oracle.clone() {
        OracleD::Pyth(k) => (true, k),
        OracleD::Swb(k) => (false, k),
        _ => return,
    };
    let max_age = if bank.config.oracle_max_age == 0 && is_pyth_plain { 60 } else { bank.config.oracle_max_age as i64 };
    let auth = w.auth_of(lev.acct);
    let ak = auth.pubkey();
    w.refresh_oracles();
    let now = w.chain.now();
    for extra in [0i64, 1] {
        let ts = now - max_age - extra;
        if is_pyth_plain {
            let p = w.pyth[&key];
            w.set_pyth(&key, PythPx { publish_time: ts, ..p });
        } else {
            let p = w.swb[&key];
            w.set_swb(&key, SwbPx { last_update: ts, ..p });
        }
        let i = w.ix_borrow(lev.acct, lev.db, ak, w.ta_of(lev.acct, lev.db), 1);
        let o = w.probe(m, &[i], &[&auth]).await;
        m.r.count(&format!("scen.age_boundary/{}/{}", if extra == 0 { "at-max-age" } else { "one-second-older" }, if o.ok() { "accepted" } else { "rejected" }));
        let i = w.ix_withdraw(lev.acct, lev.ca, ak, w.ta_of(lev.acct, lev.ca), 1, None);
        let _ = w.probe(m, &[i], &[&auth]).await;
    }
    w.refresh_oracles();
}

/// C09 (chain side): doctor the oracle of the collateral or the debt bank (stale by +-1 s around
/// the boundary, wrong owner, partial verification, wide confidence, zero / negative price) and
/// drive every valuation-consuming instruction through it; the reference model decides what must
/// have failed.
pub async fn oracle_faults(w: &mut World, m: &mut Mon, r: &mut R, lev: &Lev, lq: usize, g: usize) {
    let target = if r.gen_bool(0.5) { lev.ca } else { lev.db };
    let okey = match w.banks[target].oracle.clone() {
        OracleD::Pyth(k) => Some((k, true)),
        OracleD::Swb(k) => Some((k, false)),
        _ => None,
    };
    let bank = w.bank(target);
    let max_age = if bank.config.oracle_max_age == 0 { 60 } else { bank.config.oracle_max_age as i64 };
    let now = w.chain.now();
    let fault = r.gen_range(0..8);
    m.r.count(&format!("C09.chain_fault/{}", fault));
    if let Some((k, is_pyth)) = okey {
        if is_pyth {
            let mut p = w.pyth[&k];
            let saved = p;
            let mut owner = PYTH_OWNER;
            match fault {
                0 => p.publish_time = now - max_age - 1,
                1 => p.publish_time = now - max_age,
                2 => p.publish_time = now - max_age + 1,
                3 => p.partial = 5,
                4 => owner = solana_sdk::system_program::ID,
                5 => {
                    p.conf = (p.price as u64) / 3;
                    p.ema_conf = (p.ema as u64) / 3;
                }
                6 => {
                    p.price = 0;
                    p.ema = 0;
                    p.conf = 0;
                    p.ema_conf = 0;
                }
                _ => {
                    p.price = -p.price;
                    p.ema = -p.ema;
                }
            }
            w.set_pyth_owned(&k, p, owner);
            drive_valuations(w, m, r, lev, lq, g).await;
            w.set_pyth(&k, PythPx { publish_time: w.chain.now(), ..saved });
        } else {
            let mut p = w.swb[&k];
            let saved = p;
            match fault {
                0 => p.last_update = now - max_age - 1,
                1 | 2 => p.last_update = now - max_age,
                3 | 4 | 5 => p.std_dev = p.value / 3,
                6 => {
                    p.value = 0;
                    p.std_dev = 0
                }
                _ => p.value = -p.value,
            }
            w.set_swb(&k, p);
            drive_valuations(w, m, r, lev, lq, g).await;
            w.set_swb(&k, SwbPx { last_update: w.chain.now(), ..saved });
        }
    } else {
        drive_valuations(w, m, r, lev, lq, g).await;
    }
}

async fn drive_valuations(w: &mut World, m: &mut Mon, r: &mut R, lev: &Lev, lq: usize, g: usize) {
    let auth = w.auth_of(lev.acct);
    let ak = auth.pubkey();
    let (a, ca, db) = (lev.acct, lev.ca, lev.db);
    // borrow a little more, withdraw a little, liquidate, bankruptcy, receivership start
    let i = w.ix_borrow(a, db, ak, w.ta_of(a, db), 1 + lev.borrowed / 1000);
    let _ = w.exec(m, &[i], &[&auth]).await;
    let i = w.ix_withdraw(a, ca, ak, w.ta_of(a, ca), 1, None);
    let _ = w.exec(m, &[i], &[&auth]).await;
    let lk = w.auth_of(lq);
    let i = w.ix_liquidate(lq, a, ca, db, lk.pubkey(), 1 + r.gen_range(0..1000));
    let _ = w.exec(m, &[i], &[&lk]).await;
    let admin = clone_kp(&w.groups[g].admin);
    let i = w.ix_bankruptcy(a, db, admin.pubkey());
    let _ = w.probe(m, &[i], &[&admin]).await;
    let ru = w.accts[lq].user;
    let rk = w.user_kp(ru);
    let tas = w.users[ru].tas.clone();
    let has_record = w.shadow.contains_key(&ix::liq_record_key(&w.accts[a].key));
    let ixs = receivership_ixs(w, a, &rk, Some((ca, 1, false)), Some((db, 2, false)), !has_record, &tas);
    let _ = w.probe(m, &ixs, &[&rk]).await;
    // seizing without repaying anything (what a receiver would try when the collateral's price
    // reads zero: the seized value counts as nothing)
    for amt in [1u64, 1000] {
        let ixs = receivership_ixs(w, a, &rk, Some((ca, amt, false)), None, !has_record, &tas);
        let o = w.probe(m, &ixs, &[&rk]).await;
        m.r.count(if o.ok() { "scen.seizure_without_repayment_accepted" } else { "scen.seizure_without_repayment_refused" });
    }
}

/// Forced deleverage by the risk admin: bracket like a liquidation, with the group's daily
/// withdrawal limit configured so that withdrawals straddle it (and the 24 h reset).
pub async fn deleverage(w: &mut World, m: &mut Mon, r: &mut R, lev: &Lev, g: usize) {
    let gk = w.groups[g].key;
    let admin = clone_kp(&w.groups[g].admin);
    let risk = clone_kp(&w.groups[g].risk);
    let limit = pick(r, &[0u32, 1, 5, 50, 1000, u32::MAX]);
    let i = ix::configure_delev_limit(gk, admin.pubkey(), limit);
    let _ = w.exec(m, &[i], &[&admin]).await;
    // token accounts of the risk admin for both mints
    let (mc, md) = (w.banks[lev.ca].mint, w.banks[lev.db].mint);
    let ta_c = w.new_token_account(mc, risk.pubkey(), 0).await;
    let ta_d = w.new_token_account(md, risk.pubkey(), 1 << 40).await;
    let acct = w.accts[lev.acct].key;
    if !w.shadow.contains_key(&ix::liq_record_key(&acct)) {
        let i = ix::init_liq_record(acct, risk.pubkey());
        let _ = w.exec(m, &[i], &[&risk]).await;
    }
    // two brackets opened in one transaction, only the second one closed: the first account must not
    // stay under the risk admin's control
    {
        let others: Vec<usize> = (0..w.accts.len()).filter(|a| *a != lev.acct && w.accts[*a].group == g).collect();
        if !others.is_empty() {
            let b2 = pick(r, &others);
            let k2 = w.accts[b2].key;
            if !w.shadow.contains_key(&ix::liq_record_key(&k2)) {
                let i = ix::init_liq_record(k2, risk.pubkey());
                let _ = w.exec(m, &[i], &[&risk]).await;
            }
            let (first, second, fi, si) = if r.gen_bool(0.5) { (acct, k2, lev.acct, b2) } else { (k2, acct, b2, lev.acct) };
            let ixs = vec![ix::start_deleverage(gk, first, risk.pubkey(), w.risk_metas(fi, None, None)), ix::start_deleverage(gk, second, risk.pubkey(), w.risk_metas(si, None, None)), ix::end_deleverage(gk, second, risk.pubkey(), w.risk_metas(si, None, None))];
            let o = w.exec(m, &ixs, &[&risk]).await;
            m.r.count("scen.two_deleverage_starts_one_end_attempts");
            m.r.count(if o.ok() { "scen.two_deleverage_starts_one_end_committed" } else { "scen.two_deleverage_starts_one_end_rejected" });
        }
    }
    let rounds = r.gen_range(1..5);
    for k in 0..rounds {
        if k > 0 && r.gen_bool(0.3) {
            w.chain.advance(pick(r, &[3600i64, 86_399, 86_400, 86_401]));
            w.refresh_oracles();
        }
        let signer = if r.gen_bool(0.9) { clone_kp(&risk) } else { w.user_kp(0) };
        let risk_metas = w.risk_metas(lev.acct, None, None);
        let mut ixs = vec![ix::start_deleverage(gk, acct, signer.pubkey(), risk_metas.clone())];
        let wd = pick(r, &[1u64, 1000, 1_000_000, 50_000_000, 1 << 30]);
        let mut rem = w.mint_prefix(lev.ca);
        rem.extend(risk_metas.clone());
        ixs.push(ix::withdraw(gk, acct, signer.pubkey(), w.banks[lev.ca].key, ta_c, w.token_program_of_bank(lev.ca), wd, None, rem));
        // sometimes the whole debt (the bank is not flagged for token-less repayment: the risk admin
        // pays like anybody else)
        let all = r.gen_bool(0.25);
        let rp = if all { 0 } else { pick(r, &[lev.borrowed / 20 + 1, lev.borrowed / 5 + 1, lev.borrowed / 2 + 1]) };
        ixs.push(ix::repay(gk, acct, signer.pubkey(), w.banks[lev.db].key, ta_d, w.token_program_of_bank(lev.db), rp, if all { Some(true) } else { None }, w.mint_prefix(lev.db)));
        let end_metas = if all { w.risk_metas(lev.acct, None, Some(lev.db)) } else { risk_metas };
        ixs.push(ix::end_deleverage(gk, acct, signer.pubkey(), end_metas));
        let o = w.exec(m, &ixs, &[&signer]).await;
        m.r.count(if o.ok() { "scen.deleverage_committed" } else { "scen.deleverage_rejected" });
        if all {
            m.r.count(if o.ok() { "scen.deleverage_repay_all_committed" } else { "scen.deleverage_repay_all_rejected" });
        }
    }
    // the largest forced withdrawal the program accepts for a given repayment (no daily limit in the
    // way): bisected, then committed - the bracket may not leave the account less healthy, not even
    // by a little
    if limit == 0 || limit == u32::MAX {
        let pos = {
            let acc = w.acct(lev.acct);
            let q = BankQ::of(&w.bank(lev.ca));
            acc.lending_account.balances.iter().find(|b| b.active != 0 && b.bank_pk == w.banks[lev.ca].key).map(|b| to_u64_floor(&(fx(&b.asset_shares.value) * &q.asv)).unwrap_or(0)).unwrap_or(0)
        };
        let debt = {
            let acc = w.acct(lev.acct);
            let q = BankQ::of(&w.bank(lev.db));
            acc.lending_account.balances.iter().find(|b| b.active != 0 && b.bank_pk == w.banks[lev.db].key).map(|b| to_u64_floor(&(fx(&b.liability_shares.value) * &q.lsv)).unwrap_or(0)).unwrap_or(0)
        };
        if pos > 0 && debt > 10 {
            let rp = pick(r, &[debt / 10 + 1, debt / 3 + 1]);
            let riskc = clone_kp(&risk);
            let build = move |w: &World, x: u64| -> Vec<Instruction> {
                let risk_metas = w.risk_metas(lev.acct, None, None);
                let mut rem = w.mint_prefix(lev.ca);
                rem.extend(risk_metas.clone());
                vec![
                    ix::start_deleverage(gk, acct, riskc.pubkey(), risk_metas.clone()),
                    ix::withdraw(gk, acct, riskc.pubkey(), w.banks[lev.ca].key, ta_c, w.token_program_of_bank(lev.ca), x, None, rem),
                    ix::repay(gk, acct, riskc.pubkey(), w.banks[lev.db].key, ta_d, w.token_program_of_bank(lev.db), rp, None, w.mint_prefix(lev.db)),
                    ix::end_deleverage(gk, acct, riskc.pubkey(), risk_metas),
                ]
            };
            let mx = bisect_max(w, m, &[&risk], pos, &build).await;
            m.r.count(if mx.is_some() { "scen.deleverage_withdraw_boundary_found" } else { "scen.deleverage_withdraw_boundary_not_found" });
            if let Some(x) = mx {
                if x > 0 {
                    let ixs = build(w, x);
                    let o = w.exec(m, &ixs, &[&risk]).await;
                    m.r.count(if o.ok() { "scen.deleverage_at_the_boundary_committed" } else { "scen.deleverage_at_the_boundary_rejected" });
                }
            }
        }
    }
    // the first forced withdrawal of a new day is limited like any other: a day later, one bracket
    // whose withdrawal alone is worth more than a small daily limit
    if limit != 0 && limit != u32::MAX {
      'first: {
        w.chain.advance(pick(r, &[86_400i64, 86_401, 200_000]));
        w.refresh_oracles();
        let risk_metas = w.risk_metas(lev.acct, None, None);
        let mut rem = w.mint_prefix(lev.ca);
        rem.extend(risk_metas.clone());
        let pos = {
            let acc = w.acct(lev.acct);
            let q = BankQ::of(&w.bank(lev.ca));
            acc.lending_account.balances.iter().find(|b| b.active != 0 && b.bank_pk == w.banks[lev.ca].key).map(|b| to_u64_floor(&(fx(&b.asset_shares.value) * &q.asv)).unwrap_or(0)).unwrap_or(0)
        };
        // withdraw about as much value as is repaid (the bracket's own premium rule), as long as that
        // is more than the daily limit
        let rp = lev.borrowed / 2 + 1;
        let wd = match (unit_usd_low(w, lev.ca), unit_usd_low(w, lev.db)) {
            (Some(pc), Some(pd)) if pc > 0.0 && pd > 0.0 && rp as f64 * pd > limit as f64 * 1.5 => ((rp as f64 * pd / pc) as u64).min(pos),
            _ => {
                m.r.count("scen.first_withdrawal_of_a_new_day_not_above_limit");
                break 'first;
            }
        };
        let ixs = vec![
            ix::start_deleverage(gk, acct, risk.pubkey(), risk_metas.clone()),
            ix::withdraw(gk, acct, risk.pubkey(), w.banks[lev.ca].key, ta_c, w.token_program_of_bank(lev.ca), wd, None, rem),
            ix::repay(gk, acct, risk.pubkey(), w.banks[lev.db].key, ta_d, w.token_program_of_bank(lev.db), rp, None, w.mint_prefix(lev.db)),
            ix::end_deleverage(gk, acct, risk.pubkey(), risk_metas),
        ];
        let o = w.exec(m, &ixs, &[&risk]).await;
        m.r.count("scen.first_withdrawal_of_a_new_day_attempts");
        m.r.count(&if o.ok() { "scen.first_withdrawal_of_a_new_day_committed".to_string() } else { format!("scen.first_withdrawal_of_a_new_day_rejected/{}", o.custom_code().map(|c| c.to_string()).unwrap_or_else(|| "other".into())) });
      }
    }
    // a forced withdrawal of a whole position (withdraw-all: the amount argument is ignored, what
    // counts is what leaves the vault): the account gets a second, small collateral worth about
    // twice the daily limit, and a day later the risk admin takes all of it in one bracket
    if limit != 0 && limit <= 1000 {
        let c2s: Vec<usize> = (0..w.banks.len()).filter(|b| *b != lev.ca && *b != lev.db && w.banks[*b].group == g && usable_collateral(w, *b) && unit_usd_low(w, *b).map(|p| p > 0.0).unwrap_or(false)).collect();
        if c2s.is_empty() {
            m.r.count("scen.deleverage_withdraw_all_not_possible/no-second-collateral");
            return;
        }
        let c2 = pick(r, &c2s);
        let p2 = unit_usd_low(w, c2).unwrap_or(1.0);
        let pd = unit_usd_low(w, lev.db).filter(|p| *p > 0.0);
        let worth = limit as f64 * pick(r, &[2.0f64, 1.5, 4.0]) + 2.0;
        let amt2 = ((worth / p2) as u64).saturating_add(1).min(1 << 50);
        let auth = w.auth_of(lev.acct);
        w.mint_to(w.banks[c2].mint, w.ta_of(lev.acct, c2), amt2).await;
        let i = w.ix_deposit(lev.acct, c2, auth.pubkey(), w.ta_of(lev.acct, c2), amt2, None);
        let od = w.exec(m, &[i], &[&auth]).await;
        if !od.ok() {
            m.r.count(&format!("scen.deleverage_withdraw_all_not_possible/deposit-{}", od.custom_code().map(|c| c.to_string()).unwrap_or_else(|| "other".into())));
            return;
        }
        w.chain.advance(pick(r, &[86_400i64, 90_000]));
        w.refresh_oracles();
        let ta_c2 = w.new_token_account(w.banks[c2].mint, risk.pubkey(), 0).await;
        let risk_metas = w.risk_metas(lev.acct, None, None);
        let mut rem = w.mint_prefix(c2);
        rem.extend(risk_metas.clone());
        let rp = pd.map(|pd| ((worth / pd) as u64).saturating_add(1)).unwrap_or(u64::MAX).min(lev.borrowed / 2 + 1);
        let junk_amount = pick(r, &[0u64, 0, 1, u64::MAX]);
        let ixs = vec![
            ix::start_deleverage(gk, acct, risk.pubkey(), risk_metas.clone()),
            ix::withdraw(gk, acct, risk.pubkey(), w.banks[c2].key, ta_c2, w.token_program_of_bank(c2), junk_amount, Some(true), rem),
            ix::repay(gk, acct, risk.pubkey(), w.banks[lev.db].key, ta_d, w.token_program_of_bank(lev.db), rp, None, w.mint_prefix(lev.db)),
            ix::end_deleverage(gk, acct, risk.pubkey(), w.risk_metas(lev.acct, None, Some(c2))),
        ];
        let o = w.exec(m, &ixs, &[&risk]).await;
        m.r.count("scen.deleverage_withdraw_all_above_limit_attempts");
        m.r.count(&if o.ok() { "scen.deleverage_withdraw_all_above_limit_committed".to_string() } else { format!("scen.deleverage_withdraw_all_above_limit_rejected/{}", o.custom_code().map(|c| c.to_string()).unwrap_or_else(|| "other".into())) });
    }
}

/// US dollars per native unit of bank `b` at the low-biased spot price (approximate, for sizing workloads)
pub fn unit_usd_low(w: &World, b: usize) -> Option<f64> {
    let dec = w.mint_of_bank(b).decimals as i32;
    match &w.banks[b].oracle {
        OracleD::Pyth(k) => {
            let p = w.pyth[k];
            let bias = ((p.conf as f64) * 2.12).min(p.price as f64 * 0.05);
            Some(((p.price as f64) - bias) * 10f64.powi(p.expo) / 10f64.powi(dec))
        }
        OracleD::Swb(k) => {
            let p = w.swb[k];
            let bias = ((p.std_dev as f64) * 1.96).min(p.value as f64 * 0.05);
            Some(((p.value as f64) - bias) / 1e18 / 10f64.powi(dec))
        }
        _ => None,
    }
}

/// Deleverage of a whale: one forced withdrawal worth just over 2^32 dollars against a small daily
/// limit. The limit and the program's counter are 32-bit whole dollars; the withdrawal must be
/// refused, not counted by its remainder.
pub async fn whale_deleverage(w: &mut World, m: &mut Mon, r: &mut R, g: usize, lender: usize, ca: usize, db: usize) {
    // two fresh banks on whole-unit mints ($100 and $50 per unit) so that billions of dollars fit
    let _ = (ca, db);
    let now = w.chain.now();
    let (mc_new, md_new) = (w.add_mint(0, TokKind::Classic).await, w.add_mint(pick(r, &[0u8, 2]), TokKind::Classic).await);
    let mut cc = default_bank_cfg();
    cc.asset_weight_init = wi(0.8);
    cc.asset_weight_maint = wi(0.9);
    let ca = match w.add_bank_pyth(g, mc_new, cc, PythPx::simple(100_000_000, -6, now)).await {
        Ok(b) => b,
        Err(_) => return,
    };
    let dprice = if w.mints[md_new].decimals == 0 { 50_000_000 } else { 5_000_000_000 };
    let db = match w.add_bank_pyth(g, md_new, default_bank_cfg(), PythPx::simple(dprice, -6, now)).await {
        Ok(b) => b,
        Err(_) => return,
    };
    w.create_ata(w.fee_wallet.pubkey(), mc_new).await;
    w.create_ata(w.fee_wallet.pubkey(), md_new).await;
    let (pc, pd) = match (unit_usd_low(w, ca), unit_usd_low(w, db)) {
        (Some(a), Some(b)) if a > 0.0 && b > 0.0 => (a, b),
        _ => return,
    };
    let need_c = 9.0e9 / pc;
    let need_d = 5.0e9 / pd;
    let gk = w.groups[g].key;
    let admin = clone_kp(&w.groups[g].admin);
    let risk = clone_kp(&w.groups[g].risk);
    // liquidity for the whale's loan
    let lk = w.auth_of(lender);
    let lta = w.ta_of(lender, db);
    let mi = w.banks[db].mint;
    w.mint_to(mi, lta, (need_d * 1.5) as u64).await;
    let i = w.ix_deposit(lender, db, lk.pubkey(), lta, (need_d * 1.3) as u64, None);
    if !w.exec(m, &[i], &[&lk]).await.ok() {
        return;
    }
    let u = w.add_user(1).await;
    let a = w.add_account(g, u).await;
    let auth = w.auth_of(a);
    let (tc, td) = (w.ta_of(a, ca), w.ta_of(a, db));
    let mc = w.banks[ca].mint;
    w.mint_to(mc, tc, need_c as u64 + 10).await;
    let i = w.ix_deposit(a, ca, auth.pubkey(), tc, need_c as u64, None);
    if !w.exec(m, &[i], &[&auth]).await.ok() {
        return;
    }
    let i = w.ix_borrow(a, db, auth.pubkey(), td, need_d as u64);
    if !w.exec(m, &[i], &[&auth]).await.ok() {
        m.r.count("scen.whale_borrow_rejected");
        return;
    }
    let limit = pick(r, &[1000u32, 5000]);
    let i = ix::configure_delev_limit(gk, admin.pubkey(), limit);
    let _ = w.exec(m, &[i], &[&admin]).await;
    let ta_c = w.new_token_account(mc, risk.pubkey(), 0).await;
    let ta_d = w.new_token_account(mi, risk.pubkey(), (need_d * 1.2) as u64).await;
    let acct = w.accts[a].key;
    let i = ix::init_liq_record(acct, risk.pubkey());
    let _ = w.exec(m, &[i], &[&risk]).await;
    for extra in [0.1f64, 0.5, 0.9] {
        let target = 4_294_967_296.0 + extra * limit as f64;
        let wd = (target / pc).ceil() as u64;
        let rp = ((target * 1.02) / pd) as u64;
        let risk_metas = w.risk_metas(a, None, None);
        let mut rem = w.mint_prefix(ca);
        rem.extend(risk_metas.clone());
        let ixs = vec![
            ix::start_deleverage(gk, acct, risk.pubkey(), risk_metas.clone()),
            ix::withdraw(gk, acct, risk.pubkey(), w.banks[ca].key, ta_c, w.token_program_of_bank(ca), wd, None, rem),
            ix::repay(gk, acct, risk.pubkey(), w.banks[db].key, ta_d, w.token_program_of_bank(db), rp, None, w.mint_prefix(db)),
            ix::end_deleverage(gk, acct, risk.pubkey(), risk_metas),
        ];
        let o = w.probe(m, &ixs, &[&risk]).await;
        m.r.count(&if o.ok() { "scen.whale_deleverage_accepted".to_string() } else { format!("scen.whale_deleverage_rejected/{}", o.custom_code().map(|c| c.to_string()).unwrap_or_else(|| "other".into())) });
    }
}

/// Real wipe-out: a bank whose single borrower goes bankrupt with more debt than the bank has
/// deposits. Afterwards every financial instruction and every admin path is tried on the bank.
pub async fn wipeout(w: &mut World, m: &mut Mon, r: &mut R, g: usize, lender: usize) -> Option<usize> {
    // fresh debt bank with an aggressive curve so that debt outgrows deposits
    let mint = w.add_mint(6, TokKind::Classic).await;
    for u in 0..w.users.len() {
        let ta = w.users[u].tas[mint];
        w.mint_to(mint, ta, 1 << 40).await;
    }
    let mut c = default_bank_cfg();
    c.interest_rate_config.zero_util_rate = u32::MAX / 2;
    c.interest_rate_config.hundred_util_rate = u32::MAX;
    c.interest_rate_config.points = make_points(&[]);
    c.interest_rate_config.protocol_fixed_fee_apr = wi(0.5);
    // a third of the rounds: no fees and no time, so that the bad debt equals the deposits exactly
    // (the boundary between "partly socialised" and "wiped out")
    let exact = r.gen_bool(0.33);
    if exact {
        c.interest_rate_config.protocol_fixed_fee_apr = wi(0.0);
        c.interest_rate_config.protocol_ir_fee = wi(0.0);
        c.interest_rate_config.insurance_fee_fixed_apr = wi(0.0);
        c.interest_rate_config.insurance_ir_fee = wi(0.0);
        c.interest_rate_config.protocol_origination_fee = wi(0.0);
    }
    let now = w.chain.now();
    let db = w.add_bank_pyth(g, mint, c, PythPx::simple(1_000_000, -6, now)).await.ok()?;
    w.create_ata(w.fee_wallet.pubkey(), mint).await;
    let lk = w.auth_of(lender);
    let dep = 1_000_000_000u64;
    let i = w.ix_deposit(lender, db, lk.pubkey(), w.ta_of(lender, db), dep, None);
    if !w.exec(m, &[i], &[&lk]).await.ok() {
        return None;
    }
    let cands: Vec<usize> = (0..w.banks.len()).filter(|b| *b != db && usable_collateral(w, *b) && matches!(w.banks[*b].oracle, OracleD::Pyth(_) | OracleD::Swb(_))).collect();
    if cands.is_empty() {
        return None;
    }
    let ca = pick(r, &cands);
    // a second, small borrower who will still owe when the bank is wiped out
    let small_borrower = if exact {
        None
    } else {
        let u2 = w.add_user(1u64 << 44).await;
        let a2 = w.add_account(g, u2).await;
        let k2 = w.auth_of(a2);
        let i = w.ix_deposit(a2, ca, k2.pubkey(), w.ta_of(a2, ca), 1u64 << 40, None);
        let _ = w.exec(m, &[i], &[&k2]).await;
        let want = dep / 1000;
        let i = w.ix_borrow(a2, db, k2.pubkey(), w.ta_of(a2, db), want);
        let o = w.exec(m, &[i], &[&k2]).await;
        m.r.count(if o.ok() { "scen.wipeout_second_borrower" } else { "scen.wipeout_second_borrower_failed" });
        Some((a2, k2))
    };
    // borrower with plenty of collateral borrows everything
    let u = w.add_user(1u64 << 44).await;
    let a = w.add_account(g, u).await;
    let auth = w.auth_of(a);
    let i = w.ix_deposit(a, ca, auth.pubkey(), w.ta_of(a, ca), 1u64 << 43, None);
    if !w.exec(m, &[i], &[&auth]).await.ok() {
        return None;
    }
    let ta = w.ta_of(a, db);
    let ak = auth.pubkey();
    let max = bisect_max(w, m, &[&auth], dep, |w, x| vec![w.ix_borrow(a, db, ak, ta, x)]).await?;
    let i = w.ix_borrow(a, db, ak, ta, max);
    if !w.exec(m, &[i], &[&auth]).await.ok() {
        return None;
    }
    if max < dep / 2 {
        m.r.count("scen.wipeout_not_reachable_low_borrow");
    }
    // time passes: debt grows faster than deposits (fees), then the collateral dies
    if !exact {
        w.chain.advance(pick(r, &[365i64 * 86_400, 3 * 365 * 86_400]));
        w.refresh_oracles();
    } else {
        m.r.count(if max == dep { "scen.wipeout_debt_equal_to_deposits" } else { "scen.wipeout_exact_round_without_full_borrow" });
    }
    let saved_ca = save_price(w, ca);
    scale_price_any(w, ca, 1e-12).await;
    if !exact && r.gen_bool(if m.r.is("C02") || m.r.is("C16") { 1.0 } else { 0.5 }) {
        // the worthless collateral is seized completely, which leaves an account that owes and
        // holds nothing: its owner must not be able to close it (the debt would lose its record)
        let pos = {
            let acc = w.acct(a);
            let q = BankQ::of(&w.bank(ca));
            acc.lending_account.balances.iter().find(|b| b.active != 0 && b.bank_pk == w.banks[ca].key).map(|b| to_u64_floor(&(fx(&b.asset_shares.value) * &q.asv)).unwrap_or(0)).unwrap_or(0)
        };
        // the debt bank's vault is empty (everything is lent out) and a liquidation moves its
        // insurance fee out of that vault: put a little liquidity back first
        let i = w.ix_deposit(lender, db, lk.pubkey(), w.ta_of(lender, db), 1_000_000, None);
        let _ = w.exec(m, &[i], &[&lk]).await;
        let i = w.ix_liquidate(lender, a, ca, db, lk.pubkey(), pos);
        let o = w.exec(m, &[i], &[&lk]).await;
        if o.ok() {
            m.r.count("scen.wipeout_collateral_fully_seized");
        } else {
            m.r.count(&format!("scen.wipeout_full_seizure_rejected/{}", o.custom_code().map(|c| c.to_string()).unwrap_or_else(|| "other".into())));
        }
        let p = w.chain.payer.pubkey();
        let i = ix::close_account(w.accts[a].key, auth.pubkey(), p);
        let o = w.exec(m, &[i], &[&auth]).await;
        m.r.count(if o.ok() { "scen.indebted_account_close_accepted" } else { "scen.indebted_account_close_rejected" });
        if o.ok() {
            // the account is gone (the monitors have judged that); nothing more to do with it here
            match saved_ca {
                SavedPx::None => scale_price_any(w, ca, 1e12).await,
                sp => restore_price(w, ca, sp),
            }
            // keep indices stable: a fresh account of the same user takes the closed one's place
            let g2 = w.accts[a].group;
            let na = w.add_account(g2, u).await;
            let moved = w.accts.pop().unwrap();
            w.accts[a] = moved;
            let _ = na;
            return None;
        }
    }
    let admin = clone_kp(&w.groups[g].admin);
    let i = w.ix_bankruptcy(a, db, admin.pubkey());
    let o = w.exec(m, &[i], &[&admin]).await;
    match saved_ca {
        SavedPx::None => scale_price_any(w, ca, 1e12).await,
        sp => restore_price(w, ca, sp),
    }
    if !o.ok() {
        m.r.count("scen.wipeout_bankruptcy_rejected");
        return None;
    }
    let killed = w.bank(db).config.operational_state == BankOperationalState::KilledByBankruptcy;
    m.r.count(if killed { "scen.bank_killed" } else { "scen.bankruptcy_without_kill" });
    if !killed {
        return None;
    }
    // every financial instruction on the killed bank
    let gk = w.groups[g].key;
    let lt = w.ta_of(lender, db);
    let lkp = lk.pubkey();
    let i = w.ix_deposit(lender, db, lkp, lt, 5, None);
    let _ = w.exec(m, &[i], &[&lk]).await;
    let i = w.ix_withdraw(lender, db, lkp, lt, 5, None);
    let _ = w.exec(m, &[i], &[&lk]).await;
    let i = w.ix_withdraw(lender, db, lkp, lt, 0, Some(true));
    let _ = w.exec(m, &[i], &[&lk]).await;
    let i = w.ix_borrow(lender, db, lkp, lt, 5);
    let _ = w.exec(m, &[i], &[&lk]).await;
    let i = w.ix_repay(lender, db, lkp, lt, 5, None);
    let _ = w.exec(m, &[i], &[&lk]).await;
    // the other borrower still owes the dead bank: closing the balance must not drop the debt
    if let Some((small, sauth)) = small_borrower {
        let sk = sauth.pubkey();
        let i = ix::close_balance(gk, w.accts[small].key, sk, w.banks[db].key);
        let o = w.exec(m, &[i], &[&sauth]).await;
        m.r.count(if o.ok() { "scen.killed_bank_debtor_close_balance_accepted" } else { "scen.killed_bank_debtor_close_balance_rejected" });
        let i = w.ix_repay(small, db, sk, w.ta_of(small, db), 0, Some(true));
        let _ = w.exec(m, &[i], &[&sauth]).await;
        let i = ix::close_balance(gk, w.accts[lender].key, lkp, w.banks[db].key);
        let _ = w.exec(m, &[i], &[&lk]).await;
    }
    // admin paths that could change the state
    for st in [BankOperationalState::Operational, BankOperationalState::Paused, BankOperationalState::ReduceOnly] {
        let mut opt = BankConfigOpt::default();
        opt.operational_state = Some(st);
        let i = ix::configure_bank(gk, admin.pubkey(), w.banks[db].key, opt);
        let o = w.exec(m, &[i], &[&admin]).await;
        m.r.count(if o.ok() { "scen.killed_bank_reconfigure_accepted" } else { "scen.killed_bank_reconfigure_rejected" });
        let i = w.ix_deposit(lender, db, lkp, lt, 5, None);
        let _ = w.exec(m, &[i], &[&lk]).await;
    }
    Some(db)
}

/// C04 portfolio probe: 1-3 collateral deposits, then 1-3 debts opened one after the other (any
/// bank, isolated tier included), each bisected to its exact accept/reject boundary; finally the
/// withdraw boundary of every collateral. Exercises e-mode intersections, caps, tiers.
pub async fn portfolio(w: &mut World, m: &mut Mon, r: &mut R, g: usize, lender: usize) {
    let fund = 1u64 << 40;
    let u = w.add_user(fund).await;
    let a = w.add_account(g, u).await;
    let auth = w.auth_of(a);
    let ak = auth.pubkey();
    let nb = w.banks.len();
    let mut cols: Vec<usize> = (0..nb).filter(|b| usable_collateral(w, *b)).collect();
    if cols.is_empty() {
        return;
    }
    let kc = r.gen_range(1..=cols.len().min(3));
    let mut chosen = vec![];
    for _ in 0..kc {
        let i = r.gen_range(0..cols.len());
        chosen.push(cols.remove(i));
    }
    for c in &chosen {
        let amt = pick(r, &[5_000_000u64, 200_000_000, 1 << 32, 1 << 36]);
        let i = w.ix_deposit(a, *c, ak, w.ta_of(a, *c), amt, None);
        let _ = w.exec(m, &[i], &[&auth]).await;
    }
    let mut debts: Vec<usize> = (0..nb).filter(|b| !chosen.contains(b) && w.bank(*b).config.operational_state == BankOperationalState::Operational && w.bank(*b).config.asset_tag <= 1).collect();
    let kd = r.gen_range(1..=debts.len().min(3).max(1));
    let lk = w.auth_of(lender);
    for _ in 0..kd {
        if debts.is_empty() {
            break;
        }
        let i = r.gen_range(0..debts.len());
        let db = debts.remove(i);
        if w.token(&w.banks[db].k.lv) < fund / 8 {
            let ixd = w.ix_deposit(lender, db, lk.pubkey(), w.ta_of(lender, db), fund / 4, None);
            let _ = w.exec(m, &[ixd], &[&lk]).await;
        }
        let hi = w.token(&w.banks[db].k.lv);
        let ta = w.ta_of(a, db);
        let mx = bisect_max(w, m, &[&auth], hi, |w, x| vec![w.ix_borrow(a, db, ak, ta, x)]).await;
        m.r.count(if mx.is_some() { "scen.portfolio_borrow_boundary_found" } else { "scen.portfolio_borrow_not_possible" });
        if let Some(mx) = mx.filter(|x| *x > 0) {
            let amt = ((mx as f64) * pick(r, &[0.3f64, 0.6, 0.9, 1.0])) as u64;
            let i = w.ix_borrow(a, db, ak, ta, amt.clamp(1, mx));
            let _ = w.exec(m, &[i], &[&auth]).await;
        }
    }
    for c in &chosen {
        let acc = w.acct(a);
        let q = BankQ::of(&w.bank(*c));
        let pos: u64 = acc.lending_account.balances.iter().find(|b| b.active != 0 && b.bank_pk == w.banks[*c].key).map(|b| to_u64_floor(&(fx(&b.asset_shares.value) * &q.asv)).unwrap_or(0)).unwrap_or(0);
        let ta = w.ta_of(a, *c);
        let cc = *c;
        let mx = bisect_max(w, m, &[&auth], pos, |w, x| vec![w.ix_withdraw(a, cc, ak, ta, x, None)]).await;
        if mx.is_some() {
            m.r.count("scen.withdraw_boundary_found");
        }
    }
    m.r.count("scen.portfolios");
}

/// Sunset of a bank (deleverage wind-down): the admin allows token-less repayments, the risk
/// admin writes off the borrower's debt inside a deleverage bracket, the bank is marked complete,
/// lenders withdraw what is left and the risk admin purges the remaining deposits.
pub async fn sunset(w: &mut World, m: &mut Mon, r: &mut R, lev: &Lev, g: usize, lender: usize) {
    let gk = w.groups[g].key;
    let admin = clone_kp(&w.groups[g].admin);
    let risk = clone_kp(&w.groups[g].risk);
    let db = lev.db;
    let bk = w.banks[db].key;
    let mut o = BankConfigOpt::default();
    o.tokenless_repayments_allowed = Some(true);
    o.operational_state = Some(BankOperationalState::ReduceOnly);
    let i = ix::configure_bank(gk, admin.pubkey(), bk, o);
    if !w.exec(m, &[i], &[&admin]).await.ok() {
        m.r.count("scen.sunset_configure_rejected");
        return;
    }
    {
        // the borrower itself repays everything on the flagged bank: it pays like anybody else
        // (simulated, so that the token-less path below still finds the debt)
        let ok = w.auth_of(lev.acct);
        let i = w.ix_repay(lev.acct, db, ok.pubkey(), w.ta_of(lev.acct, db), 0, Some(true));
        let o = w.probe(m, &[i], &[&ok]).await;
        m.r.count(if o.ok() { "scen.sunset_owner_repay_all_simulated" } else { "scen.sunset_owner_repay_all_rejected" });
    }
    let acct = w.accts[lev.acct].key;
    if !w.shadow.contains_key(&ix::liq_record_key(&acct)) {
        let i = ix::init_liq_record(acct, risk.pubkey());
        let _ = w.exec(m, &[i], &[&risk]).await;
    }
    // token account of the risk admin (never debited by a token-less repayment)
    let md = w.banks[db].mint;
    let ta_d = w.new_token_account(md, risk.pubkey(), 1 << 30).await;
    let risk_metas = w.risk_metas(lev.acct, None, None);
    let end_metas = w.risk_metas(lev.acct, None, Some(db));
    let all = r.gen_bool(0.8);
    let ixs = vec![
        ix::start_deleverage(gk, acct, risk.pubkey(), risk_metas),
        ix::repay(gk, acct, risk.pubkey(), bk, ta_d, w.token_program_of_bank(db), if all { 0 } else { lev.borrowed / 2 }, if all { Some(true) } else { None }, w.mint_prefix(db)),
        ix::end_deleverage(gk, acct, risk.pubkey(), if all { end_metas } else { w.risk_metas(lev.acct, None, None) }),
    ];
    let o = w.exec(m, &ixs, &[&risk]).await;
    m.r.count(if o.ok() { "scen.sunset_tokenless_repay_committed" } else { "scen.sunset_tokenless_repay_rejected" });
    // mark complete (other borrowers may remain: the risk admin is trusted to know)
    let signer = if r.gen_bool(0.85) { clone_kp(&risk) } else { w.user_kp(0) };
    let i = ix::force_tokenless_complete(gk, signer.pubkey(), bk);
    let _ = w.exec(m, &[i], &[&signer]).await;
    // a lender withdraws, then the risk admin purges what remains of the lender's deposit
    let lk = w.auth_of(lender);
    let lt = w.ta_of(lender, db);
    let (dep, _) = {
        let acc = w.acct(lender);
        let q = BankQ::of(&w.bank(db));
        acc.lending_account.balances.iter().find(|b| b.active != 0 && b.bank_pk == bk).map(|b| (to_u64_floor(&(fx(&b.asset_shares.value) * &q.asv)).unwrap_or(0), 0)).unwrap_or((0, 0))
    };
    if dep > 0 {
        let i = w.ix_withdraw(lender, db, lk.pubkey(), lt, dep / 3 + 1, None);
        let _ = w.exec(m, &[i], &[&lk]).await;
    }
    let who = if r.gen_bool(0.85) { clone_kp(&risk) } else { clone_kp(&admin) };
    let i = ix::purge_delev_balance(gk, w.accts[lender].key, who.pubkey(), bk);
    let o = w.exec(m, &[i], &[&who]).await;
    m.r.count(if o.ok() { "scen.sunset_purge_committed" } else { "scen.sunset_purge_rejected" });
}

/// E-mode across two debts: the collateral's tag is listed by only one of the two borrowed banks, so
/// the preferential weight must not apply; the listing request repeats the tag in non-adjacent
/// slots first (an accepted table must not make the tag look common to both banks).
pub async fn emode_overlap(w: &mut World, m: &mut Mon, r: &mut R, g: usize, lender: usize) {
    let cands: Vec<usize> = (0..w.banks.len()).filter(|b| w.banks[*b].group == g && usable_collateral(w, *b) && matches!(w.banks[*b].oracle, OracleD::Pyth(_) | OracleD::Swb(_))).collect();
    let dbs: Vec<usize> = (0..w.banks.len()).filter(|b| w.banks[*b].group == g && w.bank(*b).config.operational_state == BankOperationalState::Operational && w.bank(*b).config.asset_tag == 0 && w.bank(*b).config.risk_tier == RiskTier::Collateral && w.banks[*b].venue.is_none()).collect();
    if cands.is_empty() || dbs.len() < 3 {
        m.r.count("scen.emode_overlap_not_possible");
        return;
    }
    let z = pick(r, &cands);
    let others: Vec<usize> = dbs.iter().cloned().filter(|b| *b != z).collect();
    if others.len() < 2 {
        m.r.count("scen.emode_overlap_not_possible");
        return;
    }
    let x = pick(r, &others);
    let ys: Vec<usize> = others.iter().cloned().filter(|b| *b != x).collect();
    let y = pick(r, &ys);
    let gk = w.groups[g].key;
    let ea = clone_kp(&w.groups[g].emode);
    let zero_w: WrappedI80F48 = wi(0.0);
    let empty = [EmodeEntry { collateral_bank_emode_tag: 0, flags: 0, pad0: [0; 5], asset_weight_init: zero_w, asset_weight_maint: zero_w }; MAX_EMODE_ENTRIES];
    // the collateral carries tag 5
    let i = ix::configure_bank_emode(gk, ea.pubkey(), w.banks[z].key, 5, empty);
    if !w.exec(m, &[i], &[&ea]).await.ok() {
        m.r.count("scen.emode_overlap_tagging_rejected");
        return;
    }
    // half of the rounds: entries *below* the collateral bank's own weights, listed by both borrowed
    // banks (legal, and without effect: the better of bank weight and e-mode weight applies at every
    // requirement level)
    let low = r.gen_bool(0.5);
    let az = to_f64(&fx(&w.bank(z).config.asset_weight_init.value));
    let entry = |bank: &Bank, tag: u16| {
        let li = to_f64(&fx(&bank.config.liability_weight_init.value));
        let lm = to_f64(&fx(&bank.config.liability_weight_maint.value));
        let ci = if low { az * 0.5 } else { (li * 0.92).min(lm * 0.94) };
        let cm = (ci + 0.01).min(lm * 0.945).max(ci);
        EmodeEntry { collateral_bank_emode_tag: tag, flags: 0, pad0: [0; 5], asset_weight_init: wi(ci), asset_weight_maint: wi(cm) }
    };
    // bank X lists tag 5 (first asked for with the tag repeated around another one), bank Y does not
    let bx = w.bank(x);
    let mut dup = empty;
    dup[0] = entry(&bx, 5);
    dup[1] = entry(&bx, 3);
    dup[2] = entry(&bx, 5);
    let i = ix::configure_bank_emode(gk, ea.pubkey(), w.banks[x].key, 0, dup);
    let o = w.exec(m, &[i], &[&ea]).await;
    m.r.count(if o.ok() { "scen.emode_table_with_repeated_tag_accepted" } else { "scen.emode_table_with_repeated_tag_rejected" });
    if !o.ok() {
        let mut t = empty;
        t[0] = entry(&bx, 5);
        t[1] = entry(&bx, 3);
        let i = ix::configure_bank_emode(gk, ea.pubkey(), w.banks[x].key, 0, t);
        let _ = w.exec(m, &[i], &[&ea]).await;
    }
    let by = w.bank(y);
    let mut t = empty;
    t[0] = entry(&by, 3);
    if low {
        t[1] = entry(&by, 5);
        m.r.count("scen.emode_entries_below_bank_weights");
    }
    let i = ix::configure_bank_emode(gk, ea.pubkey(), w.banks[y].key, 0, t);
    let _ = w.exec(m, &[i], &[&ea]).await;
    // liquidity in both debt banks
    let lk = w.auth_of(lender);
    for b in [x, y] {
        let i = w.ix_deposit(lender, b, lk.pubkey(), w.ta_of(lender, b), 1 << 34, None);
        let _ = w.exec(m, &[i], &[&lk]).await;
    }
    let u = w.add_user(1u64 << 40).await;
    let a = w.add_account(g, u).await;
    let auth = w.auth_of(a);
    let ak = auth.pubkey();
    let i = w.ix_deposit(a, z, ak, w.ta_of(a, z), pick(r, &[50_000_000u64, 1 << 30]), None);
    if !w.exec(m, &[i], &[&auth]).await.ok() {
        return;
    }
    let i = w.ix_borrow(a, x, ak, w.ta_of(a, x), pick(r, &[10u64, 1000]));
    if !w.exec(m, &[i], &[&auth]).await.ok() {
        m.r.count("scen.emode_overlap_first_borrow_rejected");
        return;
    }
    let hi = w.token(&w.banks[y].k.lv);
    let ta = w.ta_of(a, y);
    if let Some(max) = bisect_max(w, m, &[&auth], hi, |w, v| vec![w.ix_borrow(a, y, ak, ta, v)]).await {
        if max > 0 {
            let i = w.ix_borrow(a, y, ak, ta, max);
            if w.exec(m, &[i], &[&auth]).await.ok() {
                m.r.count("scen.emode_overlap_borrowed_to_the_limit");
            }
        }
    }
    let i = ix::pulse_health(w.accts[a].key, w.risk_metas(a, None, None));
    let _ = w.exec(m, &[i], &[]).await;
}
