//! W-matrix: exhaustive instruction x signer x single-substitution matrix (C08) and
//! instruction x bank-state x pause-timing matrix (C14). Every cell is one simulation (or a
//! committed transaction where the commit-time monitors must see it); a cell only counts when its
//! positive control succeeded in the same state.
use crate::admin::Admin;
use crate::chain::{TxOut, FOREIGN_PROG};
use crate::ix;
use crate::kinds::Kind;
use crate::mon::{err, Mon};
use crate::scen::*;
use crate::state::*;
use crate::storm::{pick, R};
use crate::world::*;
use marginfi_type_crate::types::*;
use rand::Rng;
use serde_json::json;
use solana_sdk::account::Account;
use solana_sdk::instruction::Instruction;
use solana_sdk::pubkey::Pubkey;
use solana_sdk::signature::{Keypair, Signer};

pub struct Case {
    pub name: String,
    pub ixs: Vec<Instruction>,
    pub target: usize,
    pub signers: Vec<Keypair>,
    /// the key whose signature entitles the action (None: permissionless)
    pub signer_key: Option<Pubkey>,
    pub entitled: Vec<&'static str>,
    /// (slot in target.accounts, description, replacement)
    pub subs: Vec<(usize, String, Pubkey)>,
}

pub struct Twin {
    pub g0: usize,
    pub g1: usize,
    /// banks of group 0 and their twins (same mint) in group 1
    pub a0: usize,
    pub b0: usize,
    pub a1: usize,
    pub b1: usize,
    pub user: usize,
    pub acct0: usize,
    pub acct1: usize,
    pub lender0: usize,
    pub liquidator0: usize,
    /// pass-through banks [kamino g0, kamino g1, solend g0, solend g1, drift g0, drift g1]
    /// (Kamino and Drift on mint A, Solend on mint B)
    pub venue: Option<[usize; 6]>,
    /// accounts of the user in group 0 whose only collateral is one pass-through position each
    /// (kamino, solend, drift), each with a small debt in bank B
    pub vaccts: Vec<usize>,
    /// staked-collateral side of group 0: (staked bank, a second staked bank over another pool,
    /// SOL-class bank, account of the user holding the first LST with a small SOL-class debt)
    pub staked: Option<(usize, usize, usize, usize)>,
}

/// Two structurally identical groups over the same mints (so that every account of group 0 has a
/// same-type twin in group 1), a leveraged user with an account in each, a lender and a liquidator.
pub async fn build_twin(seed: u64, r: &mut R) -> (World, Twin) {
    build_twin_v(seed, r, false).await
}

/// `with_venue`: each group additionally gets a Kamino and a Solend pass-through bank (served by
/// the venue stand-ins) in which the user holds a position.
pub async fn build_twin_v(seed: u64, r: &mut R, with_venue: bool) -> (World, Twin) {
    let mut w = World::new(seed, 1_700_000_000, FeeCfg { bank_init_fee: 0, liq_flat_fee: pick(r, &[0u32, 5000]), program_fee_fixed: 0.0, program_fee_rate: 0.0, liq_max_fee: 0.0 }).await;
    let g0 = w.add_group().await;
    let g1 = w.add_group().await;
    let kinds = [pick(r, &[TokKind::Classic, TokKind::T22]), TokKind::Classic];
    let ma = w.add_mint(6, kinds[0]).await;
    let mb = w.add_mint(pick(r, &[6u8, 9]), kinds[1]).await;
    let now = w.chain.now();
    let mut idx = vec![];
    for g in [g0, g1] {
        for (mi, usd) in [(ma, 1_000_000i64), (mb, 20_000_000)] {
            let mut c = default_bank_cfg();
            c.interest_rate_config.protocol_fixed_fee_apr = wi(0.01);
            c.interest_rate_config.insurance_fee_fixed_apr = wi(0.01);
            let b = w.add_bank_pyth(g, mi, c, PythPx::simple(usd, -6, now)).await.expect("bank");
            idx.push(b);
        }
    }
    w.create_ata(w.fee_wallet.pubkey(), ma).await;
    w.create_ata(w.fee_wallet.pubkey(), mb).await;
    let fund = 1u64 << 40;
    let user = w.add_user(fund).await;
    let lender = w.add_user(fund).await;
    let liq = w.add_user(fund).await;
    let _stranger = w.add_user(fund).await;
    let acct0 = w.add_account(g0, user).await;
    let acct1 = w.add_account(g1, user).await;
    let lender0 = w.add_account(g0, lender).await;
    let lender1 = w.add_account(g1, lender).await;
    let liquidator0 = w.add_account(g0, liq).await;
    let mut venue = None;
    if with_venue {
        let mut vb = [0usize; 4];
        // in half of the worlds the venue banks use the Switchboard variant of their oracle setup
        let swb_world = r.gen_bool(0.5);
        let swb_px = |usd: f64| SwbPx { value: (usd * 1e18) as i128, std_dev: 0, last_update: now };
        for (gi, g) in [g0, g1].into_iter().enumerate() {
            let mut kc = marginfi::state::kamino::KaminoConfigCompact::default();
            if swb_world {
                w.venue_swb_next = Some(swb_px(1.0));
            }
            kc.deposit_limit = u64::MAX;
            kc.total_asset_value_init_limit = 0;
            kc.oracle_max_age = 600;
            vb[gi * 2] = w.add_bank_kamino(g, ma, kc, PythPx::simple(1_000_000, -6, now), 1_050_000_000_000, 1_000_000_000_000, 7).await.expect("kamino bank");
            let mut sc = marginfi::state::solend::SolendConfigCompact::default();
            if swb_world {
                w.venue_swb_next = Some(swb_px(20.0));
            }
            sc.deposit_limit = u64::MAX;
            sc.total_asset_value_init_limit = 0;
            sc.oracle_max_age = 600;
            vb[gi * 2 + 1] = w.add_bank_solend(g, mb, sc, PythPx::simple(20_000_000, -6, now), 3_000_000_007, 1_000_000_003, 7).await.expect("solend bank");
        }
        let mut db = [0usize; 2];
        for (gi, g) in [g0, g1].into_iter().enumerate() {
            let mut dc = marginfi::state::drift::DriftConfigCompact::default();
            if swb_world {
                w.venue_swb_next = Some(swb_px(1.0));
            }
            dc.deposit_limit = u64::MAX;
            dc.total_asset_value_init_limit = 0;
            dc.oracle_max_age = 600;
            db[gi] = w.add_bank_drift(g, ma, dc, PythPx::simple(1_000_000, -6, now), 10_512_345_678, 3, 8).await.expect("drift bank");
        }
        // order: [kamino g0, kamino g1, solend g0, solend g1, drift g0, drift g1]
        venue = Some([vb[0], vb[2], vb[1], vb[3], db[0], db[1]]);
    }
    let mut t = Twin { g0, g1, a0: idx[0], b0: idx[1], a1: idx[2], b1: idx[3], user, acct0, acct1, lender0, liquidator0, venue, vaccts: vec![], staked: None };
    // liquidity and positions in both groups
    for (l, a, b) in [(lender0, t.a0, t.b0), (lender1, t.a1, t.b1)] {
        let k = w.auth_of(l);
        for bank in [a, b] {
            let i = w.ix_deposit(l, bank, k.pubkey(), w.ta_of(l, bank), 1 << 36, None);
            assert!(w.raw_send(&[i], &[&k]).await.ok());
        }
    }
    let k = w.auth_of(liquidator0);
    for bank in [t.a0, t.b0] {
        let i = w.ix_deposit(liquidator0, bank, k.pubkey(), w.ta_of(liquidator0, bank), 1 << 36, None);
        assert!(w.raw_send(&[i], &[&k]).await.ok());
    }
    let k = w.auth_of(acct0);
    for (acct, a, b) in [(acct0, t.a0, t.b0), (acct1, t.a1, t.b1)] {
        let i = w.ix_deposit(acct, a, k.pubkey(), w.ta_of(acct, a), 1_000_000_000, None);
        assert!(w.raw_send(&[i], &[&k]).await.ok());
        let ten_tokens = 10 * 10u64.pow(w.mint_of_bank(b).decimals as u32);
        let i = w.ix_borrow(acct, b, k.pubkey(), w.ta_of(acct, b), ten_tokens);
        assert!(w.raw_send(&[i], &[&k]).await.ok());
    }
    if let Some(vb) = t.venue {
        let k = w.auth_of(acct0);
        for (acct, kb, sb, dbk) in [(acct0, vb[0], vb[2], vb[4]), (acct1, vb[1], vb[3], vb[5])] {
            for b in [kb, sb, dbk] {
                let i = w.ix_venue_deposit(acct, b, k.pubkey(), w.ta_of(acct, b), 50_000);
                let o = w.raw_send(&[i], &[&k]).await;
                assert!(o.ok(), "venue deposit in twin world failed: {}", o.err_string());
            }
        }
    }
    if let Some(vb) = t.venue {
        // one account per venue whose health rests on the pass-through position alone
        let k = w.auth_of(acct0);
        for b in [vb[0], vb[2], vb[4]] {
            let va = w.add_account(g0, user).await;
            let i = w.ix_venue_deposit(va, b, k.pubkey(), w.ta_of(va, b), 5_000_000);
            let o = w.raw_send(&[i], &[&k]).await;
            assert!(o.ok(), "venue-only account deposit failed: {}", o.err_string());
            let i = w.ix_borrow(va, t.b0, k.pubkey(), w.ta_of(va, t.b0), 1000);
            let o = w.raw_send(&[i], &[&k]).await;
            assert!(o.ok(), "venue-only account borrow failed: {}", o.err_string());
            t.vaccts.push(va);
        }
    }
    {
        // staked collateral: two banks over different single pools, a SOL-class bank to borrow from
        use marginfi_type_crate::types::RiskTier;
        let admin = clone_kp(&w.groups[g0].admin);
        let p = w.chain.payer.pubkey();
        let sol_oracle = w.next_kp().pubkey();
        w.set_pyth(&sol_oracle, PythPx::simple(150_000_000, -6, now));
        let msol = w.add_mint(9, TokKind::Classic).await;
        w.create_ata(w.fee_wallet.pubkey(), msol).await;
        let mut c = default_bank_cfg();
        c.asset_tag = 1;
        let solb = w.add_bank_pyth(g0, msol, c, PythPx::simple(150_000_000, -6, now)).await.expect("sol bank");
        let lk = w.auth_of(lender0);
        let lta = w.ta_of(lender0, solb);
        w.mint_to(msol, lta, 1 << 40).await;
        let i = w.ix_deposit(lender0, solb, lk.pubkey(), lta, 1 << 38, None);
        assert!(w.raw_send(&[i], &[&lk]).await.ok());
        let st = marginfi::instructions::StakedSettingsConfig { oracle: sol_oracle, asset_weight_init: wi(0.8), asset_weight_maint: wi(0.9), deposit_limit: u64::MAX, total_asset_value_init_limit: 0, oracle_max_age: 600, risk_tier: RiskTier::Collateral };
        let i = ix::init_staked_settings(w.groups[g0].key, admin.pubkey(), p, st);
        assert!(w.raw_send(&[i], &[&admin]).await.ok(), "staked settings");
        {
            // the other group has staked settings of its own (substitution target)
            let admin1 = clone_kp(&w.groups[g1].admin);
            let st1 = marginfi::instructions::StakedSettingsConfig { oracle: sol_oracle, asset_weight_init: wi(0.5), asset_weight_maint: wi(0.6), deposit_limit: u64::MAX, total_asset_value_init_limit: 0, oracle_max_age: 600, risk_tier: RiskTier::Collateral };
            let i = ix::init_staked_settings(w.groups[g1].key, admin1.pubkey(), p, st1);
            assert!(w.raw_send(&[i], &[&admin1]).await.ok(), "staked settings of the other group");
        }
        let s0 = w.add_staked_bank(g0, sol_oracle, 101_000_000_000, 0).await.expect("staked bank");
        let s0b = w.add_staked_bank(g0, sol_oracle, 404_000_000_000, 0).await.expect("second staked bank");
        let k = w.auth_of(acct0);
        let sa = w.add_account(g0, user).await;
        for (b, amt) in [(s0, 100_000_000_000u64), (s0b, 50_000_000_000)] {
            let ta = w.ta_of(sa, b);
            w.mint_to(w.banks[b].mint, ta, amt).await;
        }
        let i = w.ix_deposit(sa, s0, k.pubkey(), w.ta_of(sa, s0), 10_000_000_000, None);
        let o = w.raw_send(&[i], &[&k]).await;
        assert!(o.ok(), "LST deposit failed: {}", o.err_string());
        let i = w.ix_borrow(sa, solb, k.pubkey(), w.ta_of(sa, solb), 1_000_000);
        let o = w.raw_send(&[i], &[&k]).await;
        assert!(o.ok(), "borrow against LST failed: {}", o.err_string());
        t.staked = Some((s0, s0b, solb, sa));
    }
    // some accrued fees so that collect/withdraw fees have something to move
    w.chain.advance(30 * 86_400);
    w.refresh_oracles();
    for b in [t.a0, t.b0, t.a1, t.b1] {
        let i = w.ix_accrue(b);
        let _ = w.raw_send(&[i], &[]).await;
        let i = w.ix_collect_fees(b);
        let _ = w.raw_send(&[i], &[]).await;
    }
    (w, t)
}

fn clone_foreign(w: &mut World, k: &Pubkey) -> Pubkey {
    // byte-identical clone of an account, owned by another program
    let a = w.shadow.get(k).cloned();
    let nk = w.next_kp().pubkey();
    if let Some(a) = a {
        w.plant(&nk, Account { lamports: a.lamports.max(1_000_000), data: a.data, owner: FOREIGN_PROG, executable: false, rent_epoch: 0 });
    }
    nk
}

pub async fn cases(w: &mut World, t: &Twin) -> Vec<Case> {
    let mut v = vec![];
    let (g0k, g1k) = (w.groups[t.g0].key, w.groups[t.g1].key);
    let auth = w.auth_of(t.acct0);
    let ak = auth.pubkey();
    let (acct0k, acct1k) = (w.accts[t.acct0].key, w.accts[t.acct1].key);
    let (a0, b0, a1, b1) = (w.banks[t.a0].key, w.banks[t.b0].key, w.banks[t.a1].key, w.banks[t.b1].key);
    let (ka0, kb0, ka1, kb1) = (w.banks[t.a0].k, w.banks[t.b0].k, w.banks[t.a1].k, w.banks[t.b1].k);
    let a0_clone = clone_foreign(w, &a0);
    let acct_clone = clone_foreign(w, &acct0k);
    let group_clone = clone_foreign(w, &g0k);
    let fs = ix::fee_state_key();
    let fs_clone = clone_foreign(w, &fs);
    let admin = clone_kp(&w.groups[t.g0].admin);
    let user_subs = |group_slot: usize, acct_slot: usize, bank_slot: usize, twin_bank: Pubkey, clone_bank: Pubkey| -> Vec<(usize, String, Pubkey)> {
        vec![
            (group_slot, "group->foreign group".into(), g1k),
            (group_slot, "group->clone owned by other program".into(), group_clone),
            (acct_slot, "account->same user's account in foreign group".into(), acct1k),
            (acct_slot, "account->clone owned by other program".into(), acct_clone),
            (bank_slot, "bank->foreign group's bank".into(), twin_bank),
            (bank_slot, "bank->clone owned by other program".into(), clone_bank),
        ]
    };
    // ---- user instructions on bank A (deposit/withdraw) and B (borrow/repay)
    let ta_a = w.ta_of(t.acct0, t.a0);
    let ta_b = w.ta_of(t.acct0, t.b0);
    let other_prog = if w.token_program_of_bank(t.a0) == spl_token::ID { anchor_spl::token_2022::ID } else { spl_token::ID };
    {
        let i = w.ix_deposit(t.acct0, t.a0, ak, ta_a, 1000, None);
        let mut subs = user_subs(0, 1, 3, a1, a0_clone);
        subs.push((5, "liquidity vault->sibling bank's vault".into(), kb0.lv));
        subs.push((5, "liquidity vault->foreign group's vault".into(), ka1.lv));
        subs.push((6, "token program->other token program".into(), other_prog));
        v.push(Case { name: "deposit".into(), ixs: vec![i], target: 0, signers: vec![clone_kp(&auth)], signer_key: Some(ak), entitled: vec!["authority"], subs });
    }
    {
        let i = w.ix_withdraw(t.acct0, t.a0, ak, ta_a, 1000, None);
        let n = i.accounts.len();
        let mut subs = user_subs(0, 1, 3, a1, a0_clone);
        subs.push((5, "vault authority->sibling bank's".into(), kb0.lva));
        subs.push((6, "liquidity vault->sibling bank's vault".into(), kb0.lv));
        subs.push((6, "liquidity vault->insurance vault".into(), ka0.iv));
        let debt_oracle = w.banks[t.b0].oracle.accounts()[0];
        let slot = i.accounts.iter().rposition(|m| m.pubkey == debt_oracle).unwrap_or(n - 1);
        subs.push((slot, "debt oracle->other bank's oracle".into(), w.banks[t.a0].oracle.accounts()[0]));
        v.push(Case { name: "withdraw".into(), ixs: vec![i], target: 0, signers: vec![clone_kp(&auth)], signer_key: Some(ak), entitled: vec!["authority"], subs });
    }
    {
        let i = w.ix_borrow(t.acct0, t.b0, ak, ta_b, 1000);
        let mut subs = user_subs(0, 1, 3, b1, a0_clone);
        subs.push((5, "vault authority->sibling bank's".into(), ka0.lva));
        subs.push((6, "liquidity vault->sibling bank's vault".into(), ka0.lv));
        subs.push((6, "liquidity vault->fee vault".into(), kb0.fv));
        v.push(Case { name: "borrow".into(), ixs: vec![i], target: 0, signers: vec![clone_kp(&auth)], signer_key: Some(ak), entitled: vec!["authority"], subs });
    }
    {
        let i = w.ix_repay(t.acct0, t.b0, ak, ta_b, 1000, None);
        let mut subs = user_subs(0, 1, 3, b1, a0_clone);
        subs.push((5, "liquidity vault->sibling bank's vault".into(), ka0.lv));
        v.push(Case { name: "repay".into(), ixs: vec![i], target: 0, signers: vec![clone_kp(&auth)], signer_key: Some(ak), entitled: vec!["authority"], subs });
    }
    {
        // a closable (empty) balance: open it with a tiny deposit+withdraw-all is not needed; use a fresh zero balance
        let i = ix::close_balance(g0k, acct0k, ak, b0);
        v.push(Case { name: "close_balance(non-empty, control fails)".into(), ixs: vec![i], target: 0, signers: vec![clone_kp(&auth)], signer_key: Some(ak), entitled: vec!["authority"], subs: vec![] });
    }
    {
        let i = ix::start_flashloan(acct0k, ak, 2);
        let e = ix::end_flashloan(acct0k, ak, w.risk_metas(t.acct0, None, None));
        let subs = vec![(0, "account->same user's account in foreign group".into(), acct1k), (2, "instructions sysvar->clock sysvar".into(), solana_sdk::sysvar::clock::ID)];
        v.push(Case { name: "start_flashloan".into(), ixs: vec![i, e], target: 0, signers: vec![clone_kp(&auth)], signer_key: Some(ak), entitled: vec!["authority"], subs });
    }
    {
        let nk = w.next_kp();
        let i = ix::transfer_account(g0k, acct0k, nk.pubkey(), ak, w.chain.payer.pubkey(), w.user_kp(1).pubkey(), w.fee_wallet.pubkey());
        let subs = vec![(0, "group->foreign group".into(), g1k), (1, "old account->account in foreign group".into(), acct1k), (6, "global fee wallet->stranger".into(), w.user_kp(3).pubkey())];
        v.push(Case { name: "transfer_to_new_account".into(), ixs: vec![i], target: 0, signers: vec![clone_kp(&auth), nk], signer_key: Some(ak), entitled: vec!["authority"], subs });
    }
    // ---- pass-through (venue) instructions: same authority rule, bound venue accounts
    if let Some(vb) = t.venue {
        for (vname, b_own, b_twin, prog_slot) in [("kamino", vb[0], vb[1], 17usize), ("solend", vb[2], vb[3], 18usize), ("drift", vb[4], vb[5], 14usize)] {
            let drift = vname == "drift";
            let (bk, bk_twin) = (w.banks[b_own].key, w.banks[b_twin].key);
            let (vk, vk_twin) = (w.banks[b_own].venue.unwrap(), w.banks[b_twin].venue.unwrap());
            let sib = w.banks[t.a0].k;
            let ta = w.ta_of(t.acct0, b_own);
            let bclone = clone_foreign(w, &bk);
            for dep in [true, false] {
                let i = if dep { w.ix_venue_deposit(t.acct0, b_own, ak, ta, 1000) } else { w.ix_venue_withdraw(t.acct0, b_own, ak, ta, 100, None) };
                let mut subs = user_subs(0, 1, 3, bk_twin, bclone);
                subs.push((5, "vault authority->sibling bank's".into(), sib.lva));
                subs.push((6, "liquidity vault->sibling bank's vault".into(), sib.lv));
                // Drift account structs: user at 9, spot market at 11, program at 14 (deposit) / 21 (withdraw)
                subs.push((if drift { 9 } else { 7 }, "venue obligation->foreign group's bank's obligation".into(), vk_twin.obligation));
                subs.push((if drift { 11 } else { 10 }, "venue reserve->foreign group's bank's reserve".into(), vk_twin.reserve));
                subs.push((if drift && !dep { 21 } else { prog_slot }, "venue program->foreign program".into(), FOREIGN_PROG));
                let _ = vk;
                v.push(Case { name: format!("{}_{}", vname, if dep { "deposit" } else { "withdraw" }), ixs: vec![i], target: 0, signers: vec![clone_kp(&auth)], signer_key: Some(ak), entitled: vec!["authority"], subs });
            }
        }
    }
    // ---- valuation accounts of a pass-through position: the reserve / spot market that prices it
    // must be the bank's own (here the collateral is the account's only one, so a refused price
    // means a refused borrow)
    if let Some(vb) = t.venue {
        for (i, (vname, b_own, b_twin)) in [("kamino", vb[0], vb[1]), ("solend", vb[2], vb[3]), ("drift", vb[4], vb[5])].into_iter().enumerate() {
            let va = match t.vaccts.get(i) {
                Some(v) => *v,
                None => continue,
            };
            let ta = w.ta_of(va, t.b0);
            let ixn = w.ix_borrow(va, t.b0, ak, ta, 1000);
            let (own, twin) = (w.banks[b_own].oracle.accounts(), w.banks[b_twin].oracle.accounts());
            let mut subs = vec![];
            if let Some(slot) = ixn.accounts.iter().rposition(|m| m.pubkey == own[1]) {
                subs.push((slot, "collateral's venue reserve->reserve of the foreign group's bank (same mint)".into(), twin[1]));
            }
            if let Some(slot) = ixn.accounts.iter().rposition(|m| m.pubkey == own[0]) {
                subs.push((slot, "collateral's price account->price account of the foreign group's bank".into(), twin[0]));
            }
            v.push(Case { name: format!("borrow_against_{}_collateral", vname), ixs: vec![ixn], target: 0, signers: vec![clone_kp(&auth)], signer_key: Some(ak), entitled: vec!["authority"], subs });
        }
    }
    // ---- staked collateral is priced from three accounts (SOL price, LST mint, the pool's stake
    // account): each of them must be the bank's own, one at a time
    if let Some((s0, s0b, solb, sa)) = t.staked {
        let ta = w.ta_of(sa, solb);
        let ixn = w.ix_borrow(sa, solb, ak, ta, 1000);
        let (own, twin) = (w.banks[s0].oracle.accounts(), w.banks[s0b].oracle.accounts());
        let mut subs = vec![];
        for (j, what) in [(1usize, "LST mint->mint of another pool's LST"), (2, "pool stake account->stake account of another pool")] {
            if let Some(slot) = ixn.accounts.iter().rposition(|m| m.pubkey == own[j]) {
                subs.push((slot, format!("staked collateral's {}", what), twin[j]));
            }
        }
        if let Some(slot) = ixn.accounts.iter().rposition(|m| m.pubkey == own[0]) {
            subs.push((slot, "staked collateral's SOL price account->another bank's price account".into(), w.banks[t.b0].oracle.accounts()[0]));
        }
        v.push(Case { name: "borrow_against_staked_collateral".into(), ixs: vec![ixn], target: 0, signers: vec![clone_kp(&auth)], signer_key: Some(ak), entitled: vec!["authority"], subs });
    }
    // ---- liquidation family (needs an unhealthy account: done by the caller through a price shock)
    {
        let lq = t.liquidator0;
        let lk = w.auth_of(lq);
        let i = w.ix_liquidate(lq, t.acct0, t.a0, t.b0, lk.pubkey(), 1000);
        let subs = vec![
            (0, "group->foreign group".into(), g1k),
            (1, "asset bank->foreign group's bank".into(), a1),
            (2, "liab bank->foreign group's bank".into(), b1),
            (5, "liquidatee->account in foreign group".into(), acct1k),
            (6, "vault authority->other bank's".into(), ka0.lva),
            (7, "liquidity vault->other bank's".into(), ka0.lv),
            (8, "insurance vault->other bank's".into(), ka0.iv),
            (8, "insurance vault->fee vault".into(), kb0.fv),
        ];
        v.push(Case { name: "liquidate".into(), ixs: vec![i], target: 0, signers: vec![clone_kp(&lk)], signer_key: Some(lk.pubkey()), entitled: vec!["liquidator"], subs });
        let ru = w.accts[lq].user;
        let tas = w.users[ru].tas.clone();
        let has_rec = w.shadow.contains_key(&ix::liq_record_key(&acct0k));
        let ixs = receivership_ixs(w, t.acct0, &lk, Some((t.a0, 1000, false)), Some((t.b0, 1000, false)), !has_rec, &tas);
        let start = if has_rec { 0 } else { 1 };
        let other_rec = ix::liq_record_key(&acct1k);
        v.push(Case { name: "start_liquidation".into(), ixs: ixs.clone(), target: start, signers: vec![clone_kp(&lk)], signer_key: None, entitled: vec![], subs: vec![(1, "liquidation record->another account's record".into(), other_rec), (3, "instructions sysvar->clock sysvar".into(), solana_sdk::sysvar::clock::ID)] });
        let end = ixs.len() - 1;
        v.push(Case { name: "end_liquidation".into(), ixs, target: end, signers: vec![clone_kp(&lk)], signer_key: None, entitled: vec![], subs: vec![(3, "fee state->clone owned by other program".into(), fs_clone), (4, "global fee wallet->stranger".into(), w.user_kp(3).pubkey())] });
    }
    // ---- permissionless bank operations
    {
        let i = w.ix_accrue(t.a0);
        v.push(Case { name: "accrue_interest".into(), ixs: vec![i], target: 0, signers: vec![], signer_key: None, entitled: vec![], subs: vec![(0, "group->foreign group".into(), g1k), (1, "bank->clone owned by other program".into(), a0_clone)] });
        let i = w.ix_collect_fees(t.b0);
        let stranger_ta = w.users[3].tas[w.banks[t.b0].mint];
        v.push(Case {
            name: "collect_fees".into(),
            ixs: vec![i],
            target: 0,
            signers: vec![],
            signer_key: None,
            entitled: vec![],
            subs: vec![
                (0, "group->foreign group".into(), g1k),
                (1, "bank->foreign group's bank".into(), b1),
                (2, "vault authority->other bank's".into(), ka0.lva),
                (3, "liquidity vault->other bank's".into(), ka0.lv),
                (4, "insurance vault->fee vault".into(), kb0.fv),
                (5, "fee vault->stranger's token account".into(), stranger_ta),
                (6, "fee state->clone owned by other program".into(), fs_clone),
                (7, "fee ata->stranger's token account".into(), stranger_ta),
            ],
        });
    }
    // ---- role-signed bank administration
    let gd = &w.groups[t.g0];
    let roles: Vec<(&'static str, Keypair)> = vec![("admin", clone_kp(&gd.admin)), ("curve", clone_kp(&gd.curve)), ("limit", clone_kp(&gd.limit)), ("emode", clone_kp(&gd.emode)), ("emissions", clone_kp(&gd.emissions)), ("metadata", clone_kp(&gd.metadata)), ("risk", clone_kp(&gd.risk))];
    let role = |n: &str| roles.iter().find(|(x, _)| *x == n).map(|(_, k)| clone_kp(k)).unwrap();
    let bank_admin_subs = |gslot: usize, bslot: usize| -> Vec<(usize, String, Pubkey)> { vec![(gslot, "group->foreign group".into(), g1k), (bslot, "bank->foreign group's bank".into(), a1), (bslot, "bank->clone owned by other program".into(), a0_clone)] };
    {
        let s = role("admin");
        let mut o = BankConfigOpt::default();
        o.deposit_limit = Some(u64::MAX - 5);
        v.push(Case { name: "configure_bank".into(), ixs: vec![ix::configure_bank(g0k, s.pubkey(), a0, o)], target: 0, signer_key: Some(s.pubkey()), signers: vec![s], entitled: vec!["admin"], subs: bank_admin_subs(0, 2) });
        let s = role("curve");
        let mut io = InterestRateConfigOpt::default();
        io.protocol_origination_fee = Some(wi(0.0));
        v.push(Case { name: "configure_bank_interest_only".into(), ixs: vec![ix::configure_bank_interest(g0k, s.pubkey(), a0, io)], target: 0, signer_key: Some(s.pubkey()), signers: vec![s], entitled: vec!["curve"], subs: bank_admin_subs(0, 2) });
        let s = role("limit");
        v.push(Case { name: "configure_bank_limits_only".into(), ixs: vec![ix::configure_bank_limits(g0k, s.pubkey(), a0, Some(u64::MAX - 7), None, None)], target: 0, signer_key: Some(s.pubkey()), signers: vec![s], entitled: vec!["limit"], subs: bank_admin_subs(0, 2) });
        let s = role("emode");
        let z: WrappedI80F48 = wi(0.0);
        let entries = [EmodeEntry { collateral_bank_emode_tag: 0, flags: 0, pad0: [0; 5], asset_weight_init: z, asset_weight_maint: z }; MAX_EMODE_ENTRIES];
        v.push(Case { name: "configure_bank_emode".into(), ixs: vec![ix::configure_bank_emode(g0k, s.pubkey(), a0, 5, entries)], target: 0, signer_key: Some(s.pubkey()), signers: vec![s], entitled: vec!["emode"], subs: bank_admin_subs(0, 2) });
        let s = role("admin");
        v.push(Case { name: "clone_emode".into(), ixs: vec![ix::clone_emode(g0k, s.pubkey(), a0, b0)], target: 0, signer_key: Some(s.pubkey()), signers: vec![s], entitled: vec!["admin", "emode"], subs: vec![(0, "group->foreign group".into(), g1k), (2, "source bank->foreign group's bank".into(), a1), (3, "destination bank->foreign group's bank".into(), b1)] });
        let s = role("admin");
        let ok = w.banks[t.a0].oracle.accounts()[0];
        v.push(Case { name: "configure_bank_oracle".into(), ixs: vec![ix::configure_bank_oracle(g0k, s.pubkey(), a0, 3, ok, vec![ix::ro(ok)])], target: 0, signer_key: Some(s.pubkey()), signers: vec![s], entitled: vec!["admin"], subs: bank_admin_subs(0, 2) });
        if let Some((s0, _s0b, _solb, _sa)) = t.staked {
            // permissionless: copies the group's staked settings into one of its staked banks
            let sk0 = w.banks[s0].key;
            let rem: Vec<solana_sdk::instruction::AccountMeta> = w.banks[s0].oracle.accounts().into_iter().map(ix::ro).collect();
            v.push(Case { name: "propagate_staked_settings".into(), ixs: vec![ix::propagate_staked_settings(g0k, sk0, rem)], target: 0, signer_key: None, signers: vec![], entitled: vec![], subs: vec![(0, "group->foreign group".into(), g1k), (1, "staked settings->foreign group's settings".into(), ix::staked_settings_key(&g1k)), (2, "bank->a bank that is not staked collateral".into(), a0)] });
        }
        if t.staked.is_some() {
            let s = role("admin");
            let e = marginfi::instructions::StakedSettingsEditConfig { oracle: None, asset_weight_init: None, asset_weight_maint: None, deposit_limit: Some(u64::MAX - 7), total_asset_value_init_limit: None, oracle_max_age: None, risk_tier: None };
            v.push(Case { name: "edit_staked_settings".into(), ixs: vec![ix::edit_staked_settings(g0k, s.pubkey(), e)], target: 0, signer_key: Some(s.pubkey()), signers: vec![s], entitled: vec!["admin"], subs: vec![(0, "group->foreign group".into(), g1k), (2, "staked settings->foreign group's settings".into(), ix::staked_settings_key(&g1k))] });
        }
        {
            let s = role("admin");
            let dest = w.users[t.user].tas[w.banks[t.b0].mint];
            // fix the destination once so that the permissionless withdrawal has a positive control
            let setd = ix::update_fees_destination(g0k, s.pubkey(), b0, dest);
            let _ = w.raw_send(&[setd], &[&s]).await;
            v.push(Case { name: "update_fees_destination".into(), ixs: vec![ix::update_fees_destination(g0k, s.pubkey(), b0, dest)], target: 0, signer_key: Some(s.pubkey()), signers: vec![clone_kp(&s)], entitled: vec!["admin"], subs: bank_admin_subs(0, 1) });
            let other_ta = w.users[3].tas[w.banks[t.b0].mint];
            v.push(Case { name: "withdraw_fees_permissionless".into(), ixs: vec![ix::withdraw_fees_permissionless(g0k, b0, dest, w.token_program_of_bank(t.b0), 1, w.mint_prefix(t.b0))], target: 0, signer_key: None, signers: vec![], entitled: vec![], subs: vec![(0, "group->foreign group".into(), g1k), (1, "bank->foreign group's bank".into(), b1), (2, "fee vault->insurance vault".into(), kb0.iv), (4, "fees destination->another token account of the mint".into(), other_ta)] });
        }
        let s = role("risk");
        v.push(Case { name: "force_tokenless_repay_complete".into(), ixs: vec![ix::force_tokenless_complete(g0k, s.pubkey(), a0)], target: 0, signer_key: Some(s.pubkey()), signers: vec![s], entitled: vec!["risk"], subs: bank_admin_subs(0, 2) });
        let s = role("admin");
        let dst = w.users[t.user].tas[w.banks[t.b0].mint];
        v.push(Case { name: "withdraw_fees".into(), ixs: vec![ix::withdraw_fees(g0k, s.pubkey(), b0, dst, w.token_program_of_bank(t.b0), 1, w.mint_prefix(t.b0))], target: 0, signer_key: Some(s.pubkey()), signers: vec![s], entitled: vec!["admin"], subs: vec![(0, "group->foreign group".into(), g1k), (1, "bank->foreign group's bank".into(), b1), (3, "fee vault->insurance vault".into(), kb0.iv), (3, "fee vault->liquidity vault".into(), kb0.lv), (4, "fee vault authority->liquidity vault authority".into(), kb0.lva)] });
        let s = role("admin");
        let i0 = w.banks[t.b0].k.iv;
        let mi = w.banks[t.b0].mint;
        w.mint_to(mi, i0, 1000).await;
        v.push(Case { name: "withdraw_insurance".into(), ixs: vec![ix::withdraw_insurance(g0k, s.pubkey(), b0, dst, w.token_program_of_bank(t.b0), 1, w.mint_prefix(t.b0))], target: 0, signer_key: Some(s.pubkey()), signers: vec![s], entitled: vec!["admin"], subs: vec![(0, "group->foreign group".into(), g1k), (1, "bank->foreign group's bank".into(), b1), (3, "insurance vault->liquidity vault".into(), kb0.lv), (4, "insurance vault authority->liquidity vault authority".into(), kb0.lva)] });
        let s = role("admin");
        v.push(Case { name: "set_account_freeze".into(), ixs: vec![ix::set_freeze(g0k, acct0k, s.pubkey(), true)], target: 0, signer_key: Some(s.pubkey()), signers: vec![s], entitled: vec!["admin"], subs: vec![(0, "group->foreign group".into(), g1k), (1, "account->account in foreign group".into(), acct1k)] });
        let s = role("admin");
        v.push(Case { name: "group_configure".into(), ixs: vec![ix::group_configure(g0k, s.pubkey(), w.groups[t.g0].roles(), None, None)], target: 0, signer_key: Some(s.pubkey()), signers: vec![s], entitled: vec!["admin"], subs: vec![(0, "group->foreign group".into(), g1k)] });
        let s = role("admin");
        v.push(Case { name: "configure_deleverage_withdrawal_limit".into(), ixs: vec![ix::configure_delev_limit(g0k, s.pubkey(), 7)], target: 0, signer_key: Some(s.pubkey()), signers: vec![s], entitled: vec!["admin"], subs: vec![(0, "group->foreign group".into(), g1k)] });
        // bankruptcy: control only succeeds for a bankrupt account (caller may arrange it)
        let s = role("admin");
        let i = w.ix_bankruptcy(t.acct0, t.b0, s.pubkey());
        v.push(Case { name: "handle_bankruptcy".into(), ixs: vec![i], target: 0, signer_key: Some(s.pubkey()), signers: vec![s], entitled: vec!["admin", "risk"], subs: vec![(0, "group->foreign group".into(), g1k), (2, "bank->foreign group's bank".into(), b1), (3, "account->account in foreign group".into(), acct1k), (4, "liquidity vault->other bank's".into(), ka0.lv), (5, "insurance vault->other bank's".into(), ka0.iv), (6, "insurance authority->other bank's".into(), ka0.iva)] });
    }
    // ---- global fee state
    {
        let fa = clone_kp(&w.fee_admin);
        let z = wi(0.0);
        v.push(Case { name: "edit_global_fee_state".into(), ixs: vec![ix::edit_fee_state(fa.pubkey(), fa.pubkey(), w.fee_wallet.pubkey(), 0, 0, z, z, z)], target: 0, signer_key: Some(fa.pubkey()), signers: vec![clone_kp(&fa)], entitled: vec!["fee_admin"], subs: vec![(1, "fee state->clone owned by other program".into(), fs_clone)] });
        v.push(Case { name: "config_group_fee".into(), ixs: vec![ix::config_group_fee(g0k, fa.pubkey(), true)], target: 0, signer_key: Some(fa.pubkey()), signers: vec![clone_kp(&fa)], entitled: vec!["fee_admin"], subs: vec![(2, "fee state->clone owned by other program".into(), fs_clone)] });
        v.push(Case { name: "panic_pause".into(), ixs: vec![ix::panic_pause(fa.pubkey())], target: 0, signer_key: Some(fa.pubkey()), signers: vec![clone_kp(&fa)], entitled: vec!["fee_admin"], subs: vec![(1, "fee state->clone owned by other program".into(), fs_clone)] });
        v.push(Case { name: "propagate_fee_state".into(), ixs: vec![ix::propagate_fee(g0k)], target: 0, signer_key: None, signers: vec![], entitled: vec![], subs: vec![(0, "fee state->clone owned by other program".into(), fs_clone), (1, "group->clone owned by other program".into(), group_clone)] });
    }
    // ---- bank life cycle (creation in both variants, closing an empty bank), bank metadata, fixed
    // price, a forced-deleverage bracket, and the two account-level instructions only the authority
    // may use (choosing the rewards destination, closing an empty account)
    {
        let p = w.chain.payer.pubkey();
        let fw = w.fee_wallet.pubkey();
        let mint = w.banks[t.a0].mint;
        let (mkey, prog) = (w.mints[mint].key, w.mints[mint].program());
        let s = role("admin");
        let nb = w.next_kp();
        let i = ix::add_bank(g0k, s.pubkey(), p, fw, mkey, nb.pubkey(), prog, default_bank_cfg());
        v.push(Case { name: "add_bank".into(), ixs: vec![i], target: 0, signer_key: Some(s.pubkey()), signers: vec![s, nb], entitled: vec!["admin"], subs: vec![(0, "group->foreign group".into(), g1k)] });
        let s = role("admin");
        let seed = 900_000 + w.banks.len() as u64;
        let (i, _) = ix::add_bank_with_seed(g0k, s.pubkey(), p, fw, mkey, seed, prog, default_bank_cfg());
        v.push(Case { name: "add_bank_with_seed".into(), ixs: vec![i], target: 0, signer_key: Some(s.pubkey()), signers: vec![s], entitled: vec!["admin"], subs: vec![(0, "group->foreign group".into(), g1k), (3, "fee state->clone owned by other program".into(), fs_clone), (4, "global fee wallet->stranger".into(), w.user_kp(3).pubkey())] });
        // an empty bank of this group (nobody ever entered it) can be closed - by the group admin only
        let now = w.chain.now();
        if let Ok(eb) = w.add_bank_pyth(t.g0, mint, default_bank_cfg(), PythPx::simple(1_000_000, -6, now)).await {
            let s = role("admin");
            let ebk = w.banks[eb].key;
            v.push(Case { name: "close_bank".into(), ixs: vec![ix::close_bank(g0k, s.pubkey(), ebk)], target: 0, signer_key: Some(s.pubkey()), signers: vec![s], entitled: vec!["admin"], subs: vec![(0, "group->foreign group".into(), g1k), (1, "bank->foreign group's bank".into(), a1), (1, "bank->clone owned by other program".into(), a0_clone)] });
        }
        let s = role("admin");
        v.push(Case { name: "set_fixed_oracle_price".into(), ixs: vec![ix::set_fixed_price(g0k, s.pubkey(), a0, wi(1.0))], target: 0, signer_key: Some(s.pubkey()), signers: vec![s], entitled: vec!["admin"], subs: bank_admin_subs(0, 2) });
        if !w.shadow.contains_key(&ix::metadata_key(&a0)) {
            let _ = w.raw_send(&[ix::init_bank_metadata(a0, p)], &[]).await;
        }
        let s = role("metadata");
        v.push(Case { name: "write_bank_metadata".into(), ixs: vec![ix::write_bank_metadata(g0k, a0, s.pubkey(), Some(b"TICK".to_vec()), Some(b"a bank".to_vec()))], target: 0, signer_key: Some(s.pubkey()), signers: vec![s], entitled: vec!["metadata"], subs: vec![(0, "group->foreign group".into(), g1k), (1, "bank->foreign group's bank".into(), a1)] });
        // forced deleverage: an empty bracket on the user's account, opened and closed by the risk admin
        let s = role("risk");
        let rm = w.risk_metas(t.acct0, None, None);
        let mut ixs = vec![ix::start_deleverage(g0k, acct0k, s.pubkey(), rm.clone()), ix::end_deleverage(g0k, acct0k, s.pubkey(), rm)];
        let has_rec = w.shadow.contains_key(&ix::liq_record_key(&acct0k));
        if !has_rec {
            ixs.insert(0, ix::init_liq_record(acct0k, p));
        }
        v.push(Case { name: "start_deleverage".into(), ixs, target: if has_rec { 0 } else { 1 }, signer_key: Some(s.pubkey()), signers: vec![s], entitled: vec!["risk"], subs: vec![(2, "group->foreign group".into(), g1k)] });
        // account-level: authority only (no frozen-account path)
        let dest = w.user_kp(3).pubkey();
        v.push(Case { name: "update_emissions_destination".into(), ixs: vec![ix::update_emissions_destination(acct0k, ak, dest)], target: 0, signer_key: Some(ak), signers: vec![clone_kp(&auth)], entitled: vec!["authority"], subs: vec![] });
        let fresh = w.add_account(t.g0, t.user).await;
        let fk = w.accts[fresh].key;
        v.push(Case { name: "close_account".into(), ixs: vec![ix::close_account(fk, ak, p)], target: 0, signer_key: Some(ak), signers: vec![clone_kp(&auth)], entitled: vec!["authority"], subs: vec![] });
    }
    let _ = (admin, kb1, ka1);
    v
}

/// Coherent substitutions: the user's own account and group, but a bank of the *other* group
/// presented together with everything that belongs to it (vaults, authorities, oracle / venue
/// accounts), so that no single mismatch between bank and vault gives the game away. Each of
/// these must be rejected: the bank belongs to another group.
pub fn coherent_foreign_bank_cells(w: &World, t: &Twin) -> Vec<(String, Instruction, Keypair)> {
    let auth = w.auth_of(t.acct0);
    let ak = auth.pubkey();
    let g0k = w.groups[t.g0].key;
    let acct = w.accts[t.acct0].key;
    let mut v = vec![];
    // standard instructions built for the twin bank (group 1), then group and account swapped back to the user's own
    let fix = |mut ixn: Instruction, g1k: Pubkey, acct1k: Pubkey| -> Instruction {
        for m in ixn.accounts.iter_mut() {
            if m.pubkey == g1k {
                m.pubkey = g0k;
            }
            if m.pubkey == acct1k {
                m.pubkey = acct;
            }
        }
        ixn
    };
    let g1k = w.groups[t.g1].key;
    let acct1k = w.accts[t.acct1].key;
    let ta_a = w.ta_of(t.acct1, t.a1);
    let ta_b = w.ta_of(t.acct1, t.b1);
    v.push(("deposit".to_string(), fix(w.ix_deposit(t.acct1, t.a1, ak, ta_a, 1000, None), g1k, acct1k), clone_kp(&auth)));
    // withdraw / borrow: the risk tail is the user's own positions plus the foreign bank
    let (pa, pb) = (w.token_program_of_bank(t.a1), w.token_program_of_bank(t.b1));
    let mut rem_a = w.mint_prefix(t.a1);
    rem_a.extend(w.risk_metas(t.acct0, Some(t.a1), None));
    let mut rem_b = w.mint_prefix(t.b1);
    rem_b.extend(w.risk_metas(t.acct0, Some(t.b1), None));
    v.push(("withdraw".to_string(), ix::withdraw(g0k, acct, ak, w.banks[t.a1].key, ta_a, pa, 1000, None, rem_a), clone_kp(&auth)));
    v.push(("borrow".to_string(), ix::borrow(g0k, acct, ak, w.banks[t.b1].key, ta_b, pb, 1000, rem_b), clone_kp(&auth)));
    v.push(("repay".to_string(), fix(w.ix_repay(t.acct1, t.b1, ak, ta_b, 1000, None), g1k, acct1k), clone_kp(&auth)));
    if let Some(vb) = t.venue {
        for (n, b) in [("kamino", vb[1]), ("solend", vb[3]), ("drift", vb[5])] {
            let ta = w.ta_of(t.acct1, b);
            v.push((format!("{}_deposit", n), fix(w.ix_venue_deposit(t.acct1, b, ak, ta, 1000), g1k, acct1k), clone_kp(&auth)));
            v.push((format!("{}_withdraw", n), fix(w.ix_venue_withdraw(t.acct1, b, ak, ta, 100, None), g1k, acct1k), clone_kp(&auth)));
        }
    }
    v
}

/// Run the C08 matrix for one world.
pub async fn run_c08(w: &mut World, m: &mut Mon, r: &mut R, t: &Twin) {
    let ids = Admin::identities(w, t.g0);
    let (px_a0, px_a1) = (save_price(w, t.a0), save_price(w, t.a1));
    let px_v = t.venue.map(|vb| (save_price(w, vb[0]), save_price(w, vb[2]), save_price(w, vb[4])));
    let foreign_ids: Vec<(&'static str, Keypair)> = Admin::identities(w, t.g1).into_iter().take(7).collect();
    let mut all_ids: Vec<(&'static str, Keypair)> = ids;
    all_ids.push(("authority", w.auth_of(t.acct0)));
    all_ids.push(("liquidator", w.auth_of(t.liquidator0)));
    for phase in 0..3 {
      // phase 0: healthy user; phase 1: user liquidatable; phase 2: user bankrupt
      if phase == 1 {
          scale_price(w, t.a0, 0.012);
      }
      if phase == 2 {
          scale_price(w, t.a0, 1e-7);
          if let Some(vb) = t.venue {
              // bankruptcy needs the whole portfolio worthless, venue collateral included
              scale_price(w, vb[0], 1e-7);
              scale_price(w, vb[2], 1e-7);
              scale_price(w, vb[4], 1e-7);
          }
      }
      if phase == 0 {
          for (name, ixn, kp) in coherent_foreign_bank_cells(w, t) {
              // control: the same instruction entirely inside the other group works
              let o = w.probe(m, &[ixn], &[&kp]).await;
              m.r.eval();
              m.r.count("C08.matrix_coherent_foreign_bank_cells");
              m.r.distinct(&("coherent", name.clone(), o.ok(), o.custom_code()));
              if o.ok() {
                  m.r.violate("C08", &format!("C08/matrix/{}/accepted-with-foreign-groups-bank-and-its-own-vaults", name), "own group and account, bank + vaults + oracle accounts of the other group".into());
              }
          }
      }
      let cs = cases(w, t).await;
      for c in cs {
        let liq_family = matches!(c.name.as_str(), "liquidate" | "start_liquidation" | "end_liquidation");
        let bk_family = c.name == "handle_bankruptcy";
        if (phase == 0 && (liq_family || bk_family)) || (phase == 1 && !liq_family) || (phase == 2 && !bk_family) {
            continue;
        }
        let sg: Vec<&Keypair> = c.signers.iter().collect();
        let ctl = w.probe(m, &c.ixs, &sg).await;
        if !ctl.ok() {
            m.r.count(&format!("C08.matrix_control_failed/{}", c.name));
            m.r.note(&format!("no positive control for {} ({})", c.name, ctl.err_string()));
            continue;
        }
        m.r.count("C08.matrix_controls_ok");
        // signer identities
        if let Some(sk) = c.signer_key {
            for (idn, kp) in all_ids.iter() {
                if kp.pubkey() == sk {
                    continue;
                }
                let mut ixs = c.ixs.clone();
                for ixn in ixs.iter_mut() {
                    for mt in ixn.accounts.iter_mut() {
                        if mt.pubkey == sk && mt.is_signer {
                            mt.pubkey = kp.pubkey();
                        }
                    }
                }
                let mut sg2: Vec<&Keypair> = c.signers.iter().filter(|k| k.pubkey() != sk).collect();
                sg2.push(kp);
                let o = w.probe(m, &ixs, &sg2).await;
                m.r.eval();
                m.r.count("C08.matrix_signer_cells");
                m.r.distinct(&("signer", c.name.clone(), *idn, o.ok()));
                let entitled = c.entitled.contains(idn);
                if o.ok() && !entitled {
                    m.r.violate("C08", &format!("C08/matrix/{}/accepted-with-signer-{}", c.name, idn), format!("instruction accepted when signed by {} instead of the entitled key", idn));
                }
            }
            // no signature at all
            let mut ixs = c.ixs.clone();
            for mt in ixs[c.target].accounts.iter_mut() {
                if mt.pubkey == sk {
                    mt.is_signer = false;
                }
            }
            let sg2: Vec<&Keypair> = c.signers.iter().filter(|k| k.pubkey() != sk).collect();
            let o = w.probe(m, &ixs, &sg2).await;
            m.r.eval();
            m.r.count("C08.matrix_signer_cells");
            if o.ok() {
                m.r.violate("C08", &format!("C08/matrix/{}/accepted-without-signature", c.name), "entitled key present but not signing".into());
            }
        }
        // single substitutions
        for (slot, what, repl) in c.subs.iter() {
            let mut ixs = c.ixs.clone();
            if *slot >= ixs[c.target].accounts.len() {
                continue;
            }
            let orig = ixs[c.target].accounts[*slot].pubkey;
            if &orig == repl {
                continue;
            }
            ixs[c.target].accounts[*slot].pubkey = *repl;
            let o = w.probe(m, &ixs, &sg).await;
            m.r.eval();
            m.r.count("C08.matrix_substitution_cells");
            m.r.distinct(&("sub", c.name.clone(), what.clone(), o.ok()));
            if o.ok() {
                m.r.violate("C08", &format!("C08/matrix/{}/accepted-with-substitution/{}", c.name, what), format!("slot {} {} -> {}", slot, orig, repl));
            }
            // the foreign group together with its own settings account (coherent pair), the bank still ours
            if what == "group->foreign group" {
                if let Some((slot2, what2, repl2)) = c.subs.iter().find(|(_, w2, _)| w2.ends_with("foreign group's settings")) {
                    let mut ixs2 = ixs.clone();
                    if *slot2 < ixs2[c.target].accounts.len() {
                        ixs2[c.target].accounts[*slot2].pubkey = *repl2;
                        let o = w.probe(m, &ixs2, &sg).await;
                        m.r.eval();
                        m.r.count("C08.matrix_foreign_group_with_its_settings_cells");
                        if o.ok() {
                            m.r.violate("C08", &format!("C08/matrix/{}/accepted-for-foreign-group-and-its-settings", c.name), format!("{} and {}", what, what2));
                        }
                    }
                }
            }
            // the foreign group together with its own role holders: the remaining accounts (bank,
            // settings, user account) still belong to this group, so nobody of that group is entitled
            if what == "group->foreign group" && c.subs.len() > 1 {
                if let Some(sk) = c.signer_key {
                    for (idn, kp) in foreign_ids.iter() {
                        let mut ixs2 = ixs.clone();
                        for ixn in ixs2.iter_mut() {
                            for mt in ixn.accounts.iter_mut() {
                                if mt.pubkey == sk && mt.is_signer {
                                    mt.pubkey = kp.pubkey();
                                }
                            }
                        }
                        let mut sg2: Vec<&Keypair> = c.signers.iter().filter(|k| k.pubkey() != sk).collect();
                        sg2.push(kp);
                        let o = w.probe(m, &ixs2, &sg2).await;
                        m.r.eval();
                        m.r.count("C08.matrix_foreign_group_with_its_role_holder_cells");
                        if o.ok() {
                            m.r.violate("C08", &format!("C08/matrix/{}/accepted-for-foreign-group-signed-by-its-{}", c.name, idn), format!("group {} -> {} signed by that group's {}", orig, repl, idn));
                        }
                    }
                }
            }
        }
        m.r.sample_kind("matrix-case", json!({"instruction": c.name, "signer_cells": all_ids.len(), "substitutions": c.subs.iter().map(|s| s.1.clone()).collect::<Vec<_>>()}));
      }
    }
    restore_price(w, t.a0, px_a0);
    if let (Some(vb), Some((p0, p2, p4))) = (t.venue, px_v) {
        restore_price(w, vb[0], p0);
        restore_price(w, vb[2], p2);
        restore_price(w, vb[4], p4);
    }
    // frozen account: only the group admin may act; every other identity (authority included) is refused
    let admin = clone_kp(&w.groups[t.g0].admin);
    let i = ix::set_freeze(w.groups[t.g0].key, w.accts[t.acct0].key, admin.pubkey(), true);
    if w.exec(m, &[i], &[&admin]).await.ok() {
        for (who, kp) in all_ids.iter() {
            let owner = kp.pubkey();
            let (ma, mb) = (w.banks[t.a0].mint, w.banks[t.b0].mint);
            let ta_a = w.new_token_account(ma, owner, 1_000_000).await;
            let ta_b = w.new_token_account(mb, owner, 1_000_000).await;
            let mut ops: Vec<(&str, Instruction)> = vec![
                ("deposit", w.ix_deposit(t.acct0, t.a0, owner, ta_a, 100, None)),
                ("withdraw", w.ix_withdraw(t.acct0, t.a0, owner, ta_a, 1, None)),
                ("borrow", w.ix_borrow(t.acct0, t.b0, owner, ta_b, 1)),
                ("repay", w.ix_repay(t.acct0, t.b0, owner, ta_b, 1, None)),
            ];
            if let Some(vb) = t.venue {
                // the pass-through instructions follow the same rule (kamino / drift on mint A, solend on mint B)
                for (dn, wn, b, ta) in [("kamino_deposit", "kamino_withdraw", vb[0], ta_a), ("solend_deposit", "solend_withdraw", vb[2], ta_b), ("drift_deposit", "drift_withdraw", vb[4], ta_a)] {
                    ops.push((dn, w.ix_venue_deposit(t.acct0, b, owner, ta, 100)));
                    ops.push((wn, w.ix_venue_withdraw(t.acct0, b, owner, ta, 10, None)));
                }
            }
            // moving the frozen account to a new one (both variants): nobody but the group admin
            let p = w.chain.payer.pubkey();
            let fwk = w.fee_wallet.pubkey();
            let g0k = w.groups[t.g0].key;
            let nk = w.next_kp();
            let idx = (w.accts.len() % 60_000) as u16;
            ops.push(("transfer_to_new_account_pda", ix::transfer_account_pda(g0k, w.accts[t.acct0].key, owner, p, owner, fwk, idx, None).0));
            let n_plain = ops.len();
            ops.push(("transfer_to_new_account", ix::transfer_account(g0k, w.accts[t.acct0].key, nk.pubkey(), owner, p, owner, fwk)));
            // the same instructions presented with the other group (and whatever this identity is
            // there): a frozen account obeys the admin of its own group only
            if *who == "other_group_admin" {
                let g1k = w.groups[t.g1].key;
                let mut foreign: Vec<(&str, Instruction)> = vec![];
                for (opn, ixn) in ops.iter().take(n_plain) {
                    let mut j = ixn.clone();
                    for mt in j.accounts.iter_mut() {
                        if mt.pubkey == g0k {
                            mt.pubkey = g1k;
                        }
                    }
                    if opn.starts_with("transfer_to_new_account_pda") {
                        // the new account's address is derived from the group that is presented
                        j = ix::transfer_account_pda(g1k, w.accts[t.acct0].key, owner, p, owner, fwk, idx, None).0;
                    }
                    foreign.push((opn, j));
                }
                for (opn, ixn) in foreign {
                    let o = w.probe(m, &[ixn], &[kp]).await;
                    m.r.eval();
                    m.r.count("C08.frozen_cells_foreign_group_and_its_admin");
                    if o.ok() {
                        m.r.violate("C08", &format!("C08/matrix/frozen-account/{}-accepted-for-foreign-group-signed-by-its-admin", opn), "a frozen account obeys the admin of its own group only".into());
                    }
                }
            }
            for (opn, ixn) in ops {
                let sg: Vec<&Keypair> = if opn == "transfer_to_new_account" { vec![kp, &nk] } else { vec![kp] };
                let o = w.probe(m, &[ixn], &sg).await;
                m.r.eval();
                m.r.count("C08.frozen_cells");
                m.r.distinct(&("frozen", *who, opn, o.ok()));
                let may_ok = *who == "admin";
                let must_ok = may_ok && !opn.starts_with("transfer_to_new_account");
                if o.ok() && !may_ok {
                    m.r.violate("C08", &format!("C08/matrix/frozen-account/{}-by-{}-accepted", opn, who), "only the group admin may act on a frozen account".into());
                }
                if !o.ok() && must_ok {
                    m.r.violate("C08", &format!("C08/matrix/frozen-account/{}-by-group-admin-rejected", opn), o.err_string());
                }
            }
        }
        let i = ix::set_freeze(w.groups[t.g0].key, w.accts[t.acct0].key, admin.pubkey(), false);
        let _ = w.exec(m, &[i], &[&admin]).await;
    }
    // two liquidatable accounts, two starts, one end: the first account must not stay controllable
    {
        scale_price(w, t.a0, 0.012);
        scale_price(w, t.a1, 0.012);
        let lq = t.liquidator0;
        let lk = w.auth_of(lq);
        let ru = w.accts[lq].user;
        let tas = w.users[ru].tas.clone();
        let (va, vb) = (w.accts[t.acct0].key, w.accts[t.acct1].key);
        for v in [va, vb] {
            if !w.shadow.contains_key(&ix::liq_record_key(&v)) {
                let i = ix::init_liq_record(v, lk.pubkey());
                let _ = w.exec(m, &[i], &[&lk]).await;
            }
        }
        let g0k = w.groups[t.g0].key;
        let fw = w.fee_wallet.pubkey();
        let wd = |w: &World, amt: u64| {
            let mut rem = w.mint_prefix(t.a0);
            rem.extend(w.risk_metas(t.acct0, None, None));
            ix::withdraw(g0k, va, lk.pubkey(), w.banks[t.a0].key, tas[w.banks[t.a0].mint], w.token_program_of_bank(t.a0), amt, None, rem)
        };
        let ixs = vec![
            ix::start_liquidation(va, lk.pubkey(), w.risk_metas(t.acct0, None, None)),
            ix::start_liquidation(vb, lk.pubkey(), w.risk_metas(t.acct1, None, None)),
            wd(w, 1000),
            ix::end_liquidation(vb, lk.pubkey(), fw, w.risk_metas(t.acct1, None, None)),
        ];
        let o = w.exec(m, &ixs, &[&lk]).await;
        m.r.eval();
        m.r.count(if o.ok() { "C08.double_start_transaction_committed" } else { "C08.double_start_transaction_rejected" });
        // whatever happened, a stranger must not be able to move the first account's funds afterwards
        let stranger = w.user_kp(3);
        let sta = w.users[3].tas[w.banks[t.a0].mint];
        let mut rem = w.mint_prefix(t.a0);
        rem.extend(w.risk_metas(t.acct0, None, None));
        let i = ix::withdraw(g0k, va, stranger.pubkey(), w.banks[t.a0].key, sta, w.token_program_of_bank(t.a0), 1000, None, rem);
        let o2 = w.exec(m, &[i], &[&stranger]).await;
        m.r.eval();
        if o2.ok() {
            m.r.violate("C08", "C08/matrix/stranger-withdraw-after-unclosed-receivership-accepted", "a withdraw signed by a stranger succeeded in a transaction without a receivership bracket".into());
        }
        // a bracket that seizes and repays nothing must close like any other
        let ixs = vec![ix::start_liquidation(va, lk.pubkey(), w.risk_metas(t.acct0, None, None)), ix::end_liquidation(va, lk.pubkey(), fw, w.risk_metas(t.acct0, None, None))];
        let o = w.exec(m, &ixs, &[&lk]).await;
        m.r.eval();
        m.r.count(if o.ok() { "C08.empty_bracket_committed" } else { "C08.empty_bracket_rejected" });
        let mut rem = w.mint_prefix(t.a0);
        rem.extend(w.risk_metas(t.acct0, None, None));
        let i = ix::withdraw(g0k, va, stranger.pubkey(), w.banks[t.a0].key, sta, w.token_program_of_bank(t.a0), 1000, None, rem);
        let o3 = w.exec(m, &[i], &[&stranger]).await;
        m.r.eval();
        if o3.ok() {
            m.r.violate("C08", "C08/matrix/stranger-withdraw-after-empty-receivership-bracket-accepted", "a withdraw signed by a stranger succeeded after a bracket that seized and repaid nothing had ended".into());
        }
        restore_price(w, t.a0, px_a0);
        restore_price(w, t.a1, px_a1);
    }
    let _ = r;
}

/// C14 matrix: financial instruction x bank state, and pause timing around the expiry second.
pub async fn run_c14(w: &mut World, m: &mut Mon, r: &mut R, t: &Twin) {
    let gk = w.groups[t.g0].key;
    let admin = clone_kp(&w.groups[t.g0].admin);
    let auth = w.auth_of(t.acct0);
    let ak = auth.pubkey();
    let lk = w.auth_of(t.liquidator0);
    // unhealthy user so that liquidation has a positive control
    scale_price(w, t.a0, 0.012);
    let set_state = |b: Pubkey, st: BankOperationalState| {
        let mut o = BankConfigOpt::default();
        o.operational_state = Some(st);
        ix::configure_bank(gk, admin.pubkey(), b, o)
    };
    let (ta_a, ta_b) = (w.ta_of(t.acct0, t.a0), w.ta_of(t.acct0, t.b0));
    let ops = |w: &World| -> Vec<(&'static str, usize, Instruction, Keypair)> {
        let mut v = vec![
            ("deposit", t.a0, w.ix_deposit(t.acct0, t.a0, ak, ta_a, 10, None), clone_kp(&auth)),
            ("withdraw", t.a0, w.ix_withdraw(t.lender0, t.a0, w.auth_of(t.lender0).pubkey(), w.ta_of(t.lender0, t.a0), 1, None), w.auth_of(t.lender0)),
            ("borrow", t.b0, w.ix_borrow(t.lender0, t.b0, w.auth_of(t.lender0).pubkey(), w.ta_of(t.lender0, t.b0), 10), w.auth_of(t.lender0)),
            ("repay", t.b0, w.ix_repay(t.acct0, t.b0, ak, ta_b, 10, None), clone_kp(&auth)),
            ("liquidate(asset bank)", t.a0, w.ix_liquidate(t.liquidator0, t.acct0, t.a0, t.b0, lk.pubkey(), 1000), clone_kp(&lk)),
            ("liquidate(debt bank)", t.b0, w.ix_liquidate(t.liquidator0, t.acct0, t.a0, t.b0, lk.pubkey(), 1000), clone_kp(&lk)),
        ];
        if let Some(vb) = t.venue {
            // pass-through banks: the lender (healthy, no debt) acts so that withdraw has a control
            let lkp = w.auth_of(t.lender0);
            for (dn, wn, b) in [("kamino_deposit", "kamino_withdraw", vb[0]), ("solend_deposit", "solend_withdraw", vb[2]), ("drift_deposit", "drift_withdraw", vb[4])] {
                let ta = w.ta_of(t.lender0, b);
                v.push((dn, b, w.ix_venue_deposit(t.lender0, b, lkp.pubkey(), ta, 1000), clone_kp(&lkp)));
                v.push((wn, b, w.ix_venue_withdraw(t.lender0, b, lkp.pubkey(), ta, 10, None), clone_kp(&lkp)));
            }
        }
        v
    };
    // lender0 must not hold a deposit in b0 for the borrow cell: use withdraw-all first
    {
        let k = w.auth_of(t.lender0);
        let i = w.ix_withdraw(t.lender0, t.b0, k.pubkey(), w.ta_of(t.lender0, t.b0), 0, Some(true));
        let _ = w.exec(m, &[i], &[&k]).await;
        // keep liquidity in b0 through the liquidator's deposit
    }
    if let Some(vb) = t.venue {
        let k = w.auth_of(t.lender0);
        for b in [vb[0], vb[2], vb[4]] {
            let i = w.ix_venue_deposit(t.lender0, b, k.pubkey(), w.ta_of(t.lender0, b), 100_000);
            let _ = w.exec(m, &[i], &[&k]).await;
        }
    }
    for (name, bank, _, _) in ops(w) {
        // positive control in Operational state
        let list = ops(w);
        let (_, _, ixn, kp) = list.into_iter().find(|x| x.0 == name).unwrap();
        let ctl = w.probe(m, &[ixn], &[&kp]).await;
        if !ctl.ok() {
            m.r.count(&format!("C14.matrix_control_failed/{}", name));
            m.r.note(&format!("no positive control for {} ({})", name, ctl.err_string()));
            continue;
        }
        m.r.count("C14.matrix_controls_ok");
        for st in [BankOperationalState::Paused, BankOperationalState::ReduceOnly] {
            let i = set_state(w.banks[bank].key, st);
            if !w.exec(m, &[i], &[&admin]).await.ok() {
                continue;
            }
            let list = ops(w);
            let (_, _, ixn, kp) = list.into_iter().find(|x| x.0 == name).unwrap();
            let o = w.probe(m, &[ixn], &[&kp]).await;
            m.r.eval();
            m.r.count("C14.matrix_state_cells");
            m.r.distinct(&("cell", name, st as u8, o.ok()));
            // the per-instruction monitor flags forbidden acceptances; the table also demands that
            // withdraw / repay keep working on a reduce-only bank
            if st == BankOperationalState::ReduceOnly && matches!(name, "withdraw" | "repay" | "liquidate(asset bank)" | "liquidate(debt bank)" | "kamino_withdraw" | "solend_withdraw" | "drift_withdraw") && !o.ok() {
                m.r.violate("C14", &format!("C14/matrix/{}/rejected-on-reduce-only-bank", name), o.err_string());
            }
            let i = set_state(w.banks[bank].key, BankOperationalState::Operational);
            let _ = w.exec(m, &[i], &[&admin]).await;
        }
    }
    // receivership on a paused bank: a liquidator's withdraw / repay must not touch it either
    {
        let receiver = w.user_kp(w.accts[t.liquidator0].user);
        let tas = w.users[w.accts[t.liquidator0].user].tas.clone();
        let has_rec = w.shadow.contains_key(&ix::liq_record_key(&w.accts[t.acct0].key));
        let mut banks = vec![("bank a", t.a0, false)];
        if let Some(vb) = t.venue {
            // (solend_withdraw is not among the instructions a receivership bracket may contain)
            banks.push(("kamino", vb[0], true));
            banks.push(("drift", vb[4], true));
        }
        for (bn, b, is_venue) in banks {
            // bracket: start, withdraw 1 from `b` (through the venue where it is one), repay, end
            let mk = |w: &World| -> Vec<Instruction> {
                let mut ixs = receivership_ixs(w, t.acct0, &receiver, Some((t.a0, 1, false)), Some((t.b0, 1000, false)), !has_rec, &tas);
                if is_venue {
                    // replace the withdraw by the venue withdraw of the same account
                    let pos = ixs.iter().position(|i| Kind::of(&i.data) == Kind::Withdraw).unwrap();
                    let ta = w.users[w.accts[t.liquidator0].user].tas[w.banks[b].mint];
                    ixs[pos] = w.ix_venue_withdraw(t.acct0, b, receiver.pubkey(), ta, 1, None);
                }
                ixs
            };
            let ctl = w.probe(m, &mk(w), &[&receiver]).await;
            if !ctl.ok() {
                m.r.count(&format!("C14.receivership_control_failed/{}", bn));
                m.r.note(&format!("no positive control for receivership withdraw on {} ({})", bn, ctl.err_string()));
                continue;
            }
            m.r.count("C14.receivership_controls_ok");
            let i = set_state(w.banks[b].key, BankOperationalState::Paused);
            if w.exec(m, &[i], &[&admin]).await.ok() {
                let o = w.probe(m, &mk(w), &[&receiver]).await;
                m.r.eval();
                m.r.count("C14.receivership_on_paused_bank_cells");
                m.r.distinct(&("rcv-paused", bn, o.ok(), o.custom_code()));
                // the per-instruction monitor flags an accepted withdraw on the paused bank
                let i = set_state(w.banks[b].key, BankOperationalState::Operational);
                let _ = w.exec(m, &[i], &[&admin]).await;
            }
        }
    }
    // the risk admin's token-less settlement of a whole debt (forced deleverage on a bank flagged for
    // it) is a repayment like any other as far as the bank's state goes: refused while the bank is
    // paused (the per-instruction monitor judges an accepted repay on a paused bank)
    {
        let risk = clone_kp(&w.groups[t.g0].risk);
        let acct = w.accts[t.acct0].key;
        let bk = w.banks[t.b0].key;
        let md = w.banks[t.b0].mint;
        let ta_d = w.new_token_account(md, risk.pubkey(), 1 << 30).await;
        let mut o = BankConfigOpt::default();
        o.tokenless_repayments_allowed = Some(true);
        let flagged = w.exec(m, &[ix::configure_bank(gk, admin.pubkey(), bk, o)], &[&admin]).await.ok();
        if flagged {
            let mk = |w: &World| -> Vec<Instruction> {
                let mut ixs = vec![];
                if !w.shadow.contains_key(&ix::liq_record_key(&acct)) {
                    ixs.push(ix::init_liq_record(acct, risk.pubkey()));
                }
                ixs.push(ix::start_deleverage(gk, acct, risk.pubkey(), w.risk_metas(t.acct0, None, None)));
                ixs.push(ix::repay(gk, acct, risk.pubkey(), bk, ta_d, w.token_program_of_bank(t.b0), 0, Some(true), w.mint_prefix(t.b0)));
                ixs.push(ix::end_deleverage(gk, acct, risk.pubkey(), w.risk_metas(t.acct0, None, Some(t.b0))));
                ixs
            };
            let ctl = w.probe(m, &mk(w), &[&risk]).await;
            m.r.count(if ctl.ok() { "C14.tokenless_settlement_controls_ok" } else { "C14.tokenless_settlement_control_failed" });
            if !ctl.ok() {
                m.r.note(&format!("no positive control for the risk admin's token-less settlement ({})", ctl.err_string()));
            }
            for st in [BankOperationalState::Paused, BankOperationalState::ReduceOnly] {
                let i = set_state(bk, st);
                if w.exec(m, &[i], &[&admin]).await.ok() {
                    let o = w.probe(m, &mk(w), &[&risk]).await;
                    m.r.eval();
                    m.r.count("C14.tokenless_settlement_state_cells");
                    m.r.distinct(&("tokenless-state", st as u8, o.ok(), o.custom_code()));
                    if st == BankOperationalState::Paused && o.ok() {
                        m.r.violate("C14", "C14/matrix/tokenless-settlement-on-paused-bank-accepted", "risk admin's whole-debt settlement inside a deleverage bracket".into());
                    }
                    if st == BankOperationalState::ReduceOnly && !o.ok() && ctl.ok() {
                        m.r.violate("C14", "C14/matrix/tokenless-settlement-rejected-on-reduce-only-bank", o.err_string());
                    }
                }
            }
            let i = set_state(bk, BankOperationalState::Operational);
            let _ = w.exec(m, &[i], &[&admin]).await;
            let mut o = BankConfigOpt::default();
            o.tokenless_repayments_allowed = Some(false);
            let _ = w.exec(m, &[ix::configure_bank(gk, admin.pubkey(), bk, o)], &[&admin]).await;
        }
    }
    // reduce-only collateral: worth nothing for new borrowing, full for liquidation purposes
    // (with an e-mode entry in force for the collateral's tag, so that the e-mode path is covered)
    if r.gen_bool(0.7) {
        let ea = clone_kp(&w.groups[t.g0].emode);
        let z: WrappedI80F48 = wi(0.0);
        let mut entries = [EmodeEntry { collateral_bank_emode_tag: 0, flags: 0, pad0: [0; 5], asset_weight_init: z, asset_weight_maint: z }; MAX_EMODE_ENTRIES];
        entries[0] = EmodeEntry { collateral_bank_emode_tag: 7, flags: 0, pad0: [0; 5], asset_weight_init: wi(0.9), asset_weight_maint: wi(0.95) };
        let i1 = ix::configure_bank_emode(gk, ea.pubkey(), w.banks[t.a0].key, 7, [EmodeEntry { collateral_bank_emode_tag: 0, flags: 0, pad0: [0; 5], asset_weight_init: z, asset_weight_maint: z }; MAX_EMODE_ENTRIES]);
        let i2 = ix::configure_bank_emode(gk, ea.pubkey(), w.banks[t.b0].key, 0, entries);
        let o = w.exec(m, &[i1, i2], &[&ea]).await;
        m.r.count(if o.ok() { "C14.emode_configured_for_reduce_only_cell" } else { "C14.emode_configuration_rejected" });
    }
    {
        scale_price(w, t.a0, 1.0 / 0.012); // healthy again
        let lq_ix = w.ix_liquidate(t.liquidator0, t.acct0, t.a0, t.b0, lk.pubkey(), 1000);
        let before = w.probe(m, &[lq_ix.clone()], &[&lk]).await;
        let i = set_state(w.banks[t.a0].key, BankOperationalState::ReduceOnly);
        if w.exec(m, &[i], &[&admin]).await.ok() {
            let b = w.ix_borrow(t.acct0, t.b0, ak, ta_b, 1);
            let o = w.probe(m, &[b], &[&auth]).await;
            m.r.eval();
            m.r.count("C14.reduce_only_valuation_cells");
            if o.ok() {
                m.r.violate("C14", "C14/matrix/borrow-against-reduce-only-collateral-accepted", "the account's only collateral is in a reduce-only bank".into());
            }
            // the program's own three valuations of the account while its collateral is reduce-only
            // (judged by the health-pulse monitor: maintenance and equity must keep counting it)
            let pi = ix::pulse_health(w.accts[t.acct0].key, w.risk_metas(t.acct0, None, None));
            let _ = w.exec(m, &[pi], &[]).await;
            let after = w.probe(m, &[lq_ix], &[&lk]).await;
            if !before.ok() && before.custom_code() == Some(err::HEALTHY_ACCOUNT) && after.ok() {
                m.r.violate("C14", "C14/matrix/reduce-only-collateral-not-counted-for-liquidation", "account healthy before the bank became reduce-only is now liquidatable".into());
            }
            // ... and the price of the reduce-only collateral goes stale: the account (healthy with
            // that collateral at full value) cannot be assessed any more - counting the deposit as
            // nothing "because the price is unusable" would make it liquidatable / bankrupt
            let saved_px = crate::scen::save_price(w, t.a0);
            let aged = match w.banks[t.a0].oracle.clone() {
                crate::world::OracleD::Pyth(k) => {
                    let mut p = w.pyth[&k];
                    p.publish_time = w.chain.now() - 100_000;
                    w.set_pyth(&k, p);
                    true
                }
                crate::world::OracleD::Swb(k) => {
                    let mut p = w.swb[&k];
                    p.last_update = w.chain.now() - 100_000;
                    w.set_swb(&k, p);
                    true
                }
                _ => false,
            };
            if aged && !before.ok() && before.custom_code() == Some(err::HEALTHY_ACCOUNT) {
                m.r.eval();
                m.r.count("C14.reduce_only_stale_price_cells");
                let lq_ix = w.ix_liquidate(t.liquidator0, t.acct0, t.a0, t.b0, lk.pubkey(), 1000);
                let o1 = w.probe(m, &[lq_ix], &[&lk]).await;
                let with_init = !w.shadow.contains_key(&ix::liq_record_key(&w.accts[t.acct0].key));
                let tas_l = w.users[w.accts[t.liquidator0].user].tas.clone();
                let rixs = crate::scen::receivership_ixs(w, t.acct0, &lk, None, None, with_init, &tas_l);
                let o2 = w.probe(m, &rixs, &[&lk]).await;
                let bi = w.ix_bankruptcy(t.acct0, t.b0, admin.pubkey());
                let o3 = w.probe(m, &[bi], &[&admin]).await;
                for (what, o) in [("liquidate", &o1), ("start_liquidation", &o2), ("handle_bankruptcy", &o3)] {
                    if o.ok() {
                        m.r.violate("C14", &format!("C14/matrix/{}-accepted-with-reduce-only-collateral-left-out-because-its-price-is-stale", what), "account healthy with its reduce-only collateral at full value; the collateral's price is stale".into());
                    }
                }
            }
            crate::scen::restore_price(w, t.a0, saved_px);
            w.refresh_oracles();
            let i = set_state(w.banks[t.a0].key, BankOperationalState::Operational);
            let _ = w.exec(m, &[i], &[&admin]).await;
        }
    }
    // ---- protocol pause timing
    let fa = clone_kp(&w.fee_admin);
    let pause = ix::panic_pause(fa.pubkey());
    let prop = ix::propagate_fee(gk);
    let dep = |w: &World| w.ix_deposit(t.acct0, t.a0, ak, ta_a, 7, None);
    let order = r.gen_range(0..3);
    let t0 = w.chain.now();
    if r.gen_bool(0.5) {
        // somebody propagates the (unpaused) state in the very second in which the pause is then
        // declared and propagated: the later propagation is the one that counts
        let _ = w.exec(m, &[prop.clone()], &[]).await;
        m.r.count("C14.propagations_in_the_second_before_the_pause");
    }
    let o = w.exec(m, &[pause.clone()], &[&fa]).await;
    if o.ok() {
        m.r.count("C14.pauses");
        if order == 0 {
            // never propagated: the group does not know, deposits go through (not "in force for the group")
            let o = w.exec(m, &[dep(w)], &[&auth]).await;
            m.r.count(if o.ok() { "C14.deposit_before_propagation_accepted" } else { "C14.deposit_before_propagation_rejected" });
        }
        let mut window_end = t0 + 1800;
        if order == 2 {
            // extension before the group hears about the pause: the group's window is the extended one
            if w.exec(m, &[pause.clone()], &[&fa]).await.ok() {
                window_end = t0 + 3600;
                m.r.count("C14.extended_pauses_propagated");
            }
        }
        let _ = w.exec(m, &[prop.clone()], &[]).await;
        let users_ops = |w: &World| -> Vec<(Instruction, Keypair)> {
            let mut v = vec![
                (dep(w), clone_kp(&auth)),
                (w.ix_withdraw(t.acct0, t.a0, ak, ta_a, 1, None), clone_kp(&auth)),
                (w.ix_repay(t.acct0, t.b0, ak, ta_b, 3, None), clone_kp(&auth)),
                (w.ix_borrow(t.acct0, t.b0, ak, ta_b, 1), clone_kp(&auth)),
                (w.ix_collect_fees(t.b0), clone_kp(&auth)),
                (w.ix_liquidate(t.liquidator0, t.acct0, t.a0, t.b0, lk.pubkey(), 10), clone_kp(&lk)),
            ];
            if let Some(vb) = t.venue {
                let lkp = w.auth_of(t.lender0);
                for b in [vb[0], vb[2], vb[4]] {
                    let ta = w.ta_of(t.lender0, b);
                    v.push((w.ix_venue_deposit(t.lender0, b, lkp.pubkey(), ta, 500), clone_kp(&lkp)));
                    v.push((w.ix_venue_withdraw(t.lender0, b, lkp.pubkey(), ta, 5, None), clone_kp(&lkp)));
                }
            }
            v
        };
        for dt in [0i64, 1, 1799] {
            w.chain.set_time(t0 + dt);
            w.refresh_oracles();
            for (ixn, kp) in users_ops(w) {
                // committed on purpose: the behavioural oracle looks at commits during the window
                let o = w.exec(m, &[ixn], &[&kp]).await;
                m.r.eval();
                m.r.count("C14.pause_window_cells");
                m.r.distinct(&("pause", dt, o.ok(), o.custom_code()));
            }
        }
        if order == 1 {
            // extension of the global pause is not seen by the group until propagated again
            let _ = w.exec(m, &[pause.clone()], &[&fa]).await;
        }
        if order == 2 {
            // still inside the extended window
            for dt in [1800i64, 3599] {
                w.chain.set_time(t0 + dt);
                w.refresh_oracles();
                for (ixn, kp) in users_ops(w) {
                    let o = w.exec(m, &[ixn], &[&kp]).await;
                    m.r.eval();
                    m.r.count("C14.pause_window_cells");
                    m.r.distinct(&("pause-extended", dt, o.ok(), o.custom_code()));
                }
            }
        }
        for dt in [window_end - t0, window_end - t0 + 1] {
            w.chain.set_time(t0 + dt);
            w.refresh_oracles();
            let o = w.exec(m, &[dep(w)], &[&auth]).await;
            m.r.eval();
            m.r.count("C14.after_expiry_cells");
            m.r.distinct(&("expired", dt, o.ok(), o.custom_code()));
            if !o.ok() && o.custom_code() != Some(err::PROTOCOL_PAUSED) {
                m.r.note(&format!("deposit after expiry failed for another reason: {}", o.err_string()));
            }
            // every gated user instruction is accepted again once the pause has run out, without
            // anyone refreshing the group's cache (the rejection monitor judges a ProtocolPaused
            // answer at this point)
            for (ixn, kp) in users_ops(w) {
                let o = w.probe(m, &[ixn], &[&kp]).await;
                m.r.eval();
                m.r.count("C14.after_expiry_cells");
                m.r.distinct(&("expired-op", dt, o.ok(), o.custom_code()));
            }
        }
        // a second pause of which the group hears although it never heard that the first one was
        // over (it ran out, or the admin lifted it, with no propagation in between): the group's
        // window must be the second pause's
        {
            let t1 = w.chain.now() + pick(r, &[5i64, 600, 7200]);
            w.chain.set_time(t1);
            w.refresh_oracles();
            if r.gen_bool(0.5) {
                let _ = w.exec(m, &[ix::panic_unpause(fa.pubkey())], &[&fa]).await;
            }
            let o2 = w.exec(m, &[pause.clone()], &[&fa]).await;
            if o2.ok() {
                m.r.count("C14.second_pause_without_intermediate_propagation");
                let _ = w.exec(m, &[prop.clone()], &[]).await;
                for dt in [0i64, 1799, 1800] {
                    w.chain.set_time(t1 + dt);
                    w.refresh_oracles();
                    for (ixn, kp) in users_ops(w) {
                        let o = w.exec(m, &[ixn], &[&kp]).await;
                        m.r.eval();
                        m.r.count(if dt < 1800 { "C14.pause_window_cells" } else { "C14.after_expiry_cells" });
                        m.r.distinct(&("second-pause", dt, o.ok(), o.custom_code()));
                        if dt < 1800 && o.ok() {
                            m.r.count("C14.accepted_during_second_pause");
                        }
                    }
                }
            } else {
                m.r.count(&format!("C14.second_pause_refused/{}", o2.custom_code().map(|c| c.to_string()).unwrap_or_else(|| "other".into())));
            }
        }
        // clean up the global state for the next world steps
        let _ = w.exec(m, &[ix::panic_unpause(fa.pubkey())], &[&fa]).await;
        let _ = w.exec(m, &[ix::panic_unpause_permissionless()], &[]).await;
        let _ = w.exec(m, &[prop], &[]).await;
    }
}
