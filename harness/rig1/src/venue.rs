//! Stateful stand-ins for the third-party venues, registered at the venue program ids so that the
//! pass-through instructions of marginfi (kamino_deposit / kamino_withdraw, drift_deposit / ...)
//! run their real accept path: the mock moves the tokens and keeps the venue's books (reserve
//! supplies, obligation collateral, spot-market balances) with the venue's own rounding (floor in
//! the venue's favour), computed with big integers independently of the conversion helpers of the
//! program under test. They are a stand-in, not the venue: what they let the monitors observe is
//! marginfi's side of the hand-off (books vs venue collateral, caps, authorisation, pause).
use kamino_mocks::state::{MinimalObligation, MinimalReserve};
use num_bigint::BigUint;
use num_traits::{ToPrimitive, Zero};
use solana_sdk::{
    account_info::AccountInfo, entrypoint::ProgramResult, instruction::AccountMeta, instruction::Instruction,
    program_error::ProgramError, pubkey::Pubkey,
};
use std::sync::atomic::{AtomicU64, Ordering};

pub const KAMINO: Pubkey = solana_sdk::pubkey!("KLend2g3cP87fffoy8q1mQqGKjrxjC8boSyAYavgmjD");
pub const FARMS: Pubkey = solana_sdk::pubkey!("FarmsPZpWu9i7Kky8tPN37rs2TpmMrAZrC7S7vJa91Hr");

pub const K_DEPOSIT_V2: [u8; 8] = [216, 224, 191, 27, 204, 151, 102, 175];
pub const K_WITHDRAW_V2: [u8; 8] = [235, 52, 119, 152, 149, 197, 20, 7];
pub const K_REFRESH_RESERVE: [u8; 8] = [2, 218, 138, 235, 79, 201, 25, 102];
pub const K_REFRESH_OBLIGATION: [u8; 8] = [33, 132, 147, 228, 151, 192, 72, 89];

/// Fault injection for the venue (what a misbehaving or differently-rounding venue would do).
/// 0 = honest; 1 = credits one collateral unit less than the exact floor; 2 = credits two less
/// (outside marginfi's one-unit tolerance); 3 = pays one token less on withdraw; 4 = pays two less.
pub static KAMINO_FAULT: AtomicU64 = AtomicU64::new(0);
pub static KAMINO_CALLS: AtomicU64 = AtomicU64::new(0);

pub fn lending_market_authority(market: &Pubkey) -> (Pubkey, u8) {
    Pubkey::find_program_address(&[b"lma", market.as_ref()], &KAMINO)
}
pub fn kamino_obligation_key(owner: &Pubkey, market: &Pubkey) -> Pubkey {
    let sys = solana_sdk::system_program::ID;
    Pubkey::find_program_address(&[&[0u8], &[0u8], owner.as_ref(), market.as_ref(), sys.as_ref(), sys.as_ref()], &KAMINO).0
}

pub fn read_reserve(data: &[u8]) -> Option<MinimalReserve> {
    let n = std::mem::size_of::<MinimalReserve>();
    if data.len() < 8 + n || data[..8] != kamino_mocks::state::RESERVE_DISCRIMINATOR {
        return None;
    }
    Some(bytemuck::pod_read_unaligned(&data[8..8 + n]))
}
pub fn read_obligation(data: &[u8]) -> Option<MinimalObligation> {
    let n = std::mem::size_of::<MinimalObligation>();
    if data.len() < 8 + n || data[..8] != kamino_mocks::state::OBLIGATION_DISCRIMINATOR {
        return None;
    }
    Some(bytemuck::pod_read_unaligned(&data[8..8 + n]))
}
pub fn reserve_bytes(r: &MinimalReserve) -> Vec<u8> {
    let mut v = kamino_mocks::state::RESERVE_DISCRIMINATOR.to_vec();
    v.extend_from_slice(bytemuck::bytes_of(r));
    v
}
pub fn obligation_bytes(o: &MinimalObligation) -> Vec<u8> {
    let mut v = kamino_mocks::state::OBLIGATION_DISCRIMINATOR.to_vec();
    v.extend_from_slice(bytemuck::bytes_of(o));
    v
}

/// total liquidity of a reserve as a 60-bit scaled fraction (venue representation)
pub fn kamino_total_liq_sf(r: &MinimalReserve) -> BigUint {
    let sf = |b: [u8; 16]| BigUint::from(u128::from_le_bytes(b));
    let plus = (BigUint::from(r.available_amount) << 60usize) + sf(r.borrowed_amount_sf);
    let minus = sf(r.accumulated_protocol_fees_sf) + sf(r.accumulated_referrer_fees_sf) + sf(r.pending_referrer_fees_sf);
    if plus > minus {
        plus - minus
    } else {
        BigUint::zero()
    }
}
/// venue rounding: collateral = floor(liquidity * total_col / total_liq); 1:1 on an empty reserve
pub fn kamino_liq_to_col(r: &MinimalReserve, liquidity: u64) -> Option<u64> {
    let tl = kamino_total_liq_sf(r);
    if r.mint_total_supply == 0 || tl.is_zero() {
        return Some(liquidity);
    }
    let q: BigUint = (BigUint::from(liquidity) << 60usize) * BigUint::from(r.mint_total_supply) / tl;
    q.to_u64()
}
pub fn kamino_col_to_liq(r: &MinimalReserve, collateral: u64) -> Option<u64> {
    let tl = kamino_total_liq_sf(r);
    if r.mint_total_supply == 0 {
        return Some(collateral);
    }
    let q: BigUint = (BigUint::from(collateral) * tl / BigUint::from(r.mint_total_supply)) >> 60usize;
    q.to_u64()
}

fn transfer_checked<'a>(token_program: &AccountInfo<'a>, from: &AccountInfo<'a>, mint: &AccountInfo<'a>, to: &AccountInfo<'a>, auth: &AccountInfo<'a>, amount: u64, decimals: u8, seeds: Option<&[&[u8]]>) -> ProgramResult {
    let mut data = vec![12u8];
    data.extend_from_slice(&amount.to_le_bytes());
    data.push(decimals);
    let ix = Instruction {
        program_id: *token_program.key,
        accounts: vec![AccountMeta::new(*from.key, false), AccountMeta::new_readonly(*mint.key, false), AccountMeta::new(*to.key, false), AccountMeta::new_readonly(*auth.key, true)],
        data,
    };
    let infos = [from.clone(), mint.clone(), to.clone(), auth.clone()];
    match seeds {
        Some(s) => solana_sdk::program::invoke_signed(&ix, &infos, &[s]),
        None => solana_sdk::program::invoke(&ix, &infos),
    }
}

const E_BAD: ProgramError = ProgramError::Custom(0x4B01);
const E_MATH: ProgramError = ProgramError::Custom(0x4B02);
const E_STALE: ProgramError = ProgramError::Custom(0x4B03);
const E_FUNDS: ProgramError = ProgramError::Custom(0x4B04);

pub fn kamino_entry(_pid: &Pubkey, accounts: &[AccountInfo], data: &[u8]) -> ProgramResult {
    if data.len() < 8 {
        return Err(E_BAD);
    }
    KAMINO_CALLS.fetch_add(1, Ordering::Relaxed);
    let d: [u8; 8] = data[..8].try_into().unwrap();
    let fault = KAMINO_FAULT.load(Ordering::Relaxed);
    let slot = {
        use solana_sdk::sysvar::Sysvar;
        solana_sdk::clock::Clock::get()?.slot
    };
    if d == K_REFRESH_RESERVE {
        let acc = accounts.first().ok_or(E_BAD)?;
        let mut r = read_reserve(&acc.try_borrow_data()?).ok_or(E_BAD)?;
        r.slot = slot;
        r.stale = 0;
        acc.try_borrow_mut_data()?.copy_from_slice(&reserve_bytes(&r));
        return Ok(());
    }
    if d == K_REFRESH_OBLIGATION {
        let acc = accounts.get(1).ok_or(E_BAD)?;
        let mut o = read_obligation(&acc.try_borrow_data()?).ok_or(E_BAD)?;
        o.last_update_slot = slot;
        o.last_update_stale = 0;
        acc.try_borrow_mut_data()?.copy_from_slice(&obligation_bytes(&o));
        return Ok(());
    }
    if d != K_DEPOSIT_V2 && d != K_WITHDRAW_V2 {
        return Err(E_BAD);
    }
    if accounts.len() < 14 || data.len() < 16 {
        return Err(E_BAD);
    }
    let amount = u64::from_le_bytes(data[8..16].try_into().unwrap());
    let owner = &accounts[0];
    let obligation = &accounts[1];
    let market = &accounts[2];
    let lma = &accounts[3];
    let reserve = &accounts[4];
    let mint = &accounts[5];
    let liq_program = &accounts[12];
    if !owner.is_signer || obligation.owner != &KAMINO || reserve.owner != &KAMINO {
        return Err(E_BAD);
    }
    let mut r = read_reserve(&reserve.try_borrow_data()?).ok_or(E_BAD)?;
    let mut o = read_obligation(&obligation.try_borrow_data()?).ok_or(E_BAD)?;
    let (lma_key, lma_bump) = lending_market_authority(market.key);
    if o.owner != *owner.key || o.lending_market != *market.key || r.lending_market != *market.key || o.deposits[0].deposit_reserve != *reserve.key || r.mint_pubkey != *mint.key || lma.key != &lma_key {
        return Err(E_BAD);
    }
    // the venue refuses to act on a reserve that was not refreshed in this slot
    if r.slot < slot {
        return Err(E_STALE);
    }
    let dec = r.mint_decimals as u8;
    if d == K_DEPOSIT_V2 {
        let supply = &accounts[6];
        let source = &accounts[9];
        if supply.key != &r.supply_vault {
            return Err(E_BAD);
        }
        let mut col = kamino_liq_to_col(&r, amount).ok_or(E_MATH)?;
        match fault {
            1 => col = col.saturating_sub(1),
            2 => col = col.saturating_sub(2),
            _ => {}
        }
        transfer_checked(liq_program, source, mint, supply, owner, amount, dec, None)?;
        r.available_amount = r.available_amount.checked_add(amount).ok_or(E_MATH)?;
        r.mint_total_supply = r.mint_total_supply.checked_add(col).ok_or(E_MATH)?;
        o.deposits[0].deposited_amount = o.deposits[0].deposited_amount.checked_add(col).ok_or(E_MATH)?;
    } else {
        let supply = &accounts[8];
        let dest = &accounts[9];
        if supply.key != &r.supply_vault {
            return Err(E_BAD);
        }
        if o.deposits[0].deposited_amount < amount {
            return Err(E_FUNDS);
        }
        let mut liq = kamino_col_to_liq(&r, amount).ok_or(E_MATH)?;
        match fault {
            3 => liq = liq.saturating_sub(1),
            4 => liq = liq.saturating_sub(2),
            _ => {}
        }
        if liq > r.available_amount {
            return Err(E_FUNDS);
        }
        let bump = [lma_bump];
        let seeds: [&[u8]; 3] = [b"lma", market.key.as_ref(), &bump];
        transfer_checked(liq_program, supply, mint, dest, lma, liq, dec, Some(&seeds))?;
        r.available_amount -= liq;
        r.mint_total_supply = r.mint_total_supply.checked_sub(amount).ok_or(E_MATH)?;
        o.deposits[0].deposited_amount -= amount;
    }
    r.stale = 1;
    o.last_update_stale = 1;
    reserve.try_borrow_mut_data()?.copy_from_slice(&reserve_bytes(&r));
    obligation.try_borrow_mut_data()?.copy_from_slice(&obligation_bytes(&o));
    Ok(())
}

// ====================================================================== Solend stand-in
use solend_mocks::state::SolendMinimalReserve;
pub const SOLEND: Pubkey = solana_sdk::pubkey!("So1endDq2YkqhipRh3WViPa8hdiSpxWy6z3Z6tMCpAo");
pub const S_DEPOSIT: u8 = 14;
pub const S_WITHDRAW: u8 = 15;
pub const S_REFRESH_RESERVE: u8 = 3;
/// obligation layout the program reads: version(1) .. deposits_len @202, borrows_len @203,
/// first deposit @204 = reserve(32) + deposited_amount(8)
pub const S_OBL_LEN: usize = 1300;
pub const S_OBL_DEP: usize = 204;
pub static SOLEND_FAULT: AtomicU64 = AtomicU64::new(0);
pub static SOLEND_CALLS: AtomicU64 = AtomicU64::new(0);
const WAD: u128 = 1_000_000_000_000_000_000;

pub fn solend_market_authority(market: &Pubkey) -> (Pubkey, u8) {
    Pubkey::find_program_address(&[market.as_ref()], &SOLEND)
}
pub fn read_solend_reserve(data: &[u8]) -> Option<SolendMinimalReserve> {
    let n = std::mem::size_of::<SolendMinimalReserve>();
    if data.len() < 1 + n || data[0] != 1 {
        return None;
    }
    Some(bytemuck::pod_read_unaligned(&data[1..1 + n]))
}
pub fn solend_reserve_bytes(r: &SolendMinimalReserve) -> Vec<u8> {
    let mut v = vec![1u8];
    v.extend_from_slice(bytemuck::bytes_of(r));
    v
}
pub fn solend_obligation_amount(data: &[u8]) -> Option<u64> {
    if data.len() < S_OBL_LEN || data[0] != 1 {
        return None;
    }
    Some(u64::from_le_bytes(data[S_OBL_DEP + 32..S_OBL_DEP + 40].try_into().unwrap()))
}
pub fn solend_obligation_bytes(market: &Pubkey, owner: &Pubkey, reserve: &Pubkey, amount: u64, slot: u64) -> Vec<u8> {
    let mut d = vec![0u8; S_OBL_LEN];
    d[0] = 1;
    d[1..9].copy_from_slice(&slot.to_le_bytes());
    d[10..42].copy_from_slice(market.as_ref());
    d[42..74].copy_from_slice(owner.as_ref());
    d[202] = 1;
    d[203] = 0;
    d[S_OBL_DEP..S_OBL_DEP + 32].copy_from_slice(reserve.as_ref());
    d[S_OBL_DEP + 32..S_OBL_DEP + 40].copy_from_slice(&amount.to_le_bytes());
    d
}
/// total liquidity of a Solend reserve in WADs (1e18 per native unit)
pub fn solend_total_liq_wads(r: &SolendMinimalReserve) -> BigUint {
    let plus = BigUint::from(r.liquidity_available_amount) * BigUint::from(WAD) + BigUint::from(u128::from_le_bytes(r.liquidity_borrowed_amount_wads));
    let minus = BigUint::from(u128::from_le_bytes(r.liquidity_accumulated_protocol_fees_wads));
    if plus > minus {
        plus - minus
    } else {
        BigUint::zero()
    }
}
pub fn solend_liq_to_col(r: &SolendMinimalReserve, liquidity: u64) -> Option<u64> {
    let tl = solend_total_liq_wads(r);
    let sup = r.collateral_mint_total_supply;
    if sup == 0 || tl.is_zero() {
        return Some(liquidity);
    }
    let q: BigUint = BigUint::from(liquidity) * BigUint::from(WAD) * BigUint::from(sup) / tl;
    q.to_u64()
}
pub fn solend_col_to_liq(r: &SolendMinimalReserve, collateral: u64) -> Option<u64> {
    let tl = solend_total_liq_wads(r);
    let sup = r.collateral_mint_total_supply;
    if sup == 0 {
        return Some(collateral);
    }
    let q: BigUint = BigUint::from(collateral) * tl / BigUint::from(sup) / BigUint::from(WAD);
    q.to_u64()
}

fn transfer_plain<'a>(token_program: &AccountInfo<'a>, from: &AccountInfo<'a>, to: &AccountInfo<'a>, auth: &AccountInfo<'a>, amount: u64, seeds: Option<&[&[u8]]>) -> ProgramResult {
    let mut data = vec![3u8];
    data.extend_from_slice(&amount.to_le_bytes());
    let ix = Instruction { program_id: *token_program.key, accounts: vec![AccountMeta::new(*from.key, false), AccountMeta::new(*to.key, false), AccountMeta::new_readonly(*auth.key, true)], data };
    let infos = [from.clone(), to.clone(), auth.clone()];
    match seeds {
        Some(s) => solana_sdk::program::invoke_signed(&ix, &infos, &[s]),
        None => solana_sdk::program::invoke(&ix, &infos),
    }
}

pub fn solend_entry(_pid: &Pubkey, accounts: &[AccountInfo], data: &[u8]) -> ProgramResult {
    if data.is_empty() {
        return Err(E_BAD);
    }
    SOLEND_CALLS.fetch_add(1, Ordering::Relaxed);
    let fault = SOLEND_FAULT.load(Ordering::Relaxed);
    let slot = {
        use solana_sdk::sysvar::Sysvar;
        solana_sdk::clock::Clock::get()?.slot
    };
    if data[0] == S_REFRESH_RESERVE {
        let acc = accounts.first().ok_or(E_BAD)?;
        let mut r = read_solend_reserve(&acc.try_borrow_data()?).ok_or(E_BAD)?;
        r.last_update_slot = slot;
        r.last_update_stale = 0;
        acc.try_borrow_mut_data()?.copy_from_slice(&solend_reserve_bytes(&r));
        return Ok(());
    }
    if (data[0] != S_DEPOSIT && data[0] != S_WITHDRAW) || data.len() < 9 {
        return Err(E_BAD);
    }
    let amount = u64::from_le_bytes(data[1..9].try_into().unwrap());
    let dep = data[0] == S_DEPOSIT;
    if accounts.len() < if dep { 14 } else { 13 } {
        return Err(E_BAD);
    }
    // account order of the two instructions (solend-sdk)
    let (liq_user, reserve, supply, market, lma, obligation, owner, token_program) = if dep {
        (&accounts[0], &accounts[2], &accounts[3], &accounts[5], &accounts[6], &accounts[8], &accounts[9], &accounts[13])
    } else {
        (&accounts[6], &accounts[2], &accounts[8], &accounts[4], &accounts[5], &accounts[3], &accounts[9], &accounts[11])
    };
    if !owner.is_signer || obligation.owner != &SOLEND || reserve.owner != &SOLEND {
        return Err(E_BAD);
    }
    let mut r = read_solend_reserve(&reserve.try_borrow_data()?).ok_or(E_BAD)?;
    let mut od = obligation.try_borrow_data()?.to_vec();
    let cur = solend_obligation_amount(&od).ok_or(E_BAD)?;
    let (lma_key, lma_bump) = solend_market_authority(market.key);
    let lm = r.lending_market;
    let sv = r.liquidity_supply_pubkey;
    if od[10..42] != market.key.to_bytes() || od[42..74] != owner.key.to_bytes() || od[S_OBL_DEP..S_OBL_DEP + 32] != reserve.key.to_bytes() || lm != *market.key || lma.key != &lma_key || supply.key != &sv {
        return Err(E_BAD);
    }
    let last = r.last_update_slot;
    if last < slot {
        return Err(E_STALE);
    }
    let new_amount;
    if dep {
        let mut col = solend_liq_to_col(&r, amount).ok_or(E_MATH)?;
        match fault {
            1 => col = col.saturating_sub(1),
            2 => col = col.saturating_sub(2),
            _ => {}
        }
        transfer_plain(token_program, liq_user, supply, owner, amount, None)?;
        r.liquidity_available_amount = { r.liquidity_available_amount }.checked_add(amount).ok_or(E_MATH)?;
        r.collateral_mint_total_supply = { r.collateral_mint_total_supply }.checked_add(col).ok_or(E_MATH)?;
        new_amount = cur.checked_add(col).ok_or(E_MATH)?;
    } else {
        if cur < amount {
            return Err(E_FUNDS);
        }
        let mut liq = solend_col_to_liq(&r, amount).ok_or(E_MATH)?;
        match fault {
            3 => liq = liq.saturating_sub(1),
            4 => liq = liq.saturating_sub(2),
            _ => {}
        }
        if liq > { r.liquidity_available_amount } {
            return Err(E_FUNDS);
        }
        let bump = [lma_bump];
        let seeds: [&[u8]; 2] = [market.key.as_ref(), &bump];
        transfer_plain(token_program, supply, liq_user, lma, liq, Some(&seeds))?;
        r.liquidity_available_amount = { r.liquidity_available_amount } - liq;
        r.collateral_mint_total_supply = { r.collateral_mint_total_supply }.checked_sub(amount).ok_or(E_MATH)?;
        new_amount = cur - amount;
    }
    r.last_update_stale = 1;
    od[S_OBL_DEP + 32..S_OBL_DEP + 40].copy_from_slice(&new_amount.to_le_bytes());
    reserve.try_borrow_mut_data()?.copy_from_slice(&solend_reserve_bytes(&r));
    obligation.try_borrow_mut_data()?.copy_from_slice(&od);
    Ok(())
}

// ====================================================================== Drift stand-in
use drift_mocks::state::{MinimalSpotMarket, MinimalUser, SpotBalanceType};
pub const DRIFT: Pubkey = solana_sdk::pubkey!("dRiftyHA39MWEi3m9aunc5MzRF1JYuBsbn6VPcn33UH");
pub const D_DEPOSIT: [u8; 8] = [242, 35, 198, 137, 82, 225, 242, 182];
pub const D_WITHDRAW: [u8; 8] = [183, 18, 70, 156, 148, 109, 161, 34];
pub const D_UPDATE_INTEREST: [u8; 8] = [39, 166, 139, 243, 158, 165, 155, 225];
pub static DRIFT_CALLS: AtomicU64 = AtomicU64::new(0);
/// 0 honest; 1 = cumulative interest is NOT brought up to date by update_spot_market_cumulative_interest
pub static DRIFT_FAULT: AtomicU64 = AtomicU64::new(0);

pub fn drift_signer() -> (Pubkey, u8) {
    Pubkey::find_program_address(&[b"drift_signer"], &DRIFT)
}
pub fn drift_user_key(authority: &Pubkey) -> Pubkey {
    Pubkey::find_program_address(&[b"user", authority.as_ref(), &0u16.to_le_bytes()], &DRIFT).0
}
pub fn drift_user_stats_key(authority: &Pubkey) -> Pubkey {
    Pubkey::find_program_address(&[b"user_stats", authority.as_ref()], &DRIFT).0
}
pub fn read_spot_market(data: &[u8]) -> Option<MinimalSpotMarket> {
    let n = std::mem::size_of::<MinimalSpotMarket>();
    if data.len() < 8 + n || data[..8] != drift_mocks::state::SPOT_MARKET_DISCRIMINATOR {
        return None;
    }
    Some(bytemuck::pod_read_unaligned(&data[8..8 + n]))
}
pub fn spot_market_bytes(m: &MinimalSpotMarket) -> Vec<u8> {
    let mut v = drift_mocks::state::SPOT_MARKET_DISCRIMINATOR.to_vec();
    v.extend_from_slice(bytemuck::bytes_of(m));
    v
}
pub fn read_drift_user(data: &[u8]) -> Option<MinimalUser> {
    let n = std::mem::size_of::<MinimalUser>();
    if data.len() < 8 + n || data[..8] != drift_mocks::state::USER_DISCRIMINATOR {
        return None;
    }
    Some(bytemuck::pod_read_unaligned(&data[8..8 + n]))
}
pub fn drift_user_bytes(u: &MinimalUser) -> Vec<u8> {
    let mut v = drift_mocks::state::USER_DISCRIMINATOR.to_vec();
    v.extend_from_slice(bytemuck::bytes_of(u));
    v
}
pub fn drift_position_index(market_index: u16) -> usize {
    if market_index == 0 {
        0
    } else {
        1
    }
}
/// 10^(19 - decimals): scaled balances carry 9 decimals, cumulative interest 10
pub fn drift_precision_increase(decimals: u32) -> Option<u128> {
    if decimals > 19 {
        return None;
    }
    Some(10u128.pow(19 - decimals))
}
/// venue rounding: deposits floor, withdrawals round the burnt balance up by one unit
pub fn drift_scaled(m: &MinimalSpotMarket, amount: u64, round_up: bool) -> Option<u64> {
    let cum = u128::from_le_bytes(m.cumulative_deposit_interest);
    if cum == 0 {
        return None;
    }
    let q: BigUint = BigUint::from(amount) * BigUint::from(drift_precision_increase(m.decimals)?) / BigUint::from(cum);
    let mut b = q.to_u64()?;
    if round_up && b != 0 {
        b = b.checked_add(1)?;
    }
    Some(b)
}

pub fn drift_entry(_pid: &Pubkey, accounts: &[AccountInfo], data: &[u8]) -> ProgramResult {
    if data.len() < 8 {
        return Err(E_BAD);
    }
    DRIFT_CALLS.fetch_add(1, Ordering::Relaxed);
    let d: [u8; 8] = data[..8].try_into().unwrap();
    let now = {
        use solana_sdk::sysvar::Sysvar;
        solana_sdk::clock::Clock::get()?.unix_timestamp
    };
    if d == D_UPDATE_INTEREST {
        let acc = accounts.get(1).ok_or(E_BAD)?;
        if acc.owner != &DRIFT {
            return Err(E_BAD);
        }
        let mut m = read_spot_market(&acc.try_borrow_data()?).ok_or(E_BAD)?;
        if DRIFT_FAULT.load(Ordering::Relaxed) != 1 {
            m.last_interest_ts = now.max(0) as u64;
        }
        acc.try_borrow_mut_data()?.copy_from_slice(&spot_market_bytes(&m));
        return Ok(());
    }
    if d != D_DEPOSIT && d != D_WITHDRAW {
        return Err(E_BAD);
    }
    let dep = d == D_DEPOSIT;
    let fixed = if dep { 7 } else { 8 };
    if accounts.len() < fixed + 2 || data.len() < 8 + 2 + 8 + 1 {
        return Err(E_BAD);
    }
    let market_index = u16::from_le_bytes(data[8..10].try_into().unwrap());
    let amount = u64::from_le_bytes(data[10..18].try_into().unwrap());
    let user = &accounts[1];
    let authority = &accounts[3];
    let vault = &accounts[4];
    let (user_ta, token_program, signer_acc) = if dep { (&accounts[5], &accounts[6], None) } else { (&accounts[6], &accounts[7], Some(&accounts[5])) };
    // remaining accounts: [oracle..] spot market .. mint (last)
    let rem = &accounts[fixed..];
    let sm_acc = rem.iter().find(|a| a.owner == &DRIFT && a.try_borrow_data().map(|d| d.len() >= 8 && d[..8] == drift_mocks::state::SPOT_MARKET_DISCRIMINATOR).unwrap_or(false)).ok_or(E_BAD)?;
    let mint = rem.last().ok_or(E_BAD)?;
    if !authority.is_signer || user.owner != &DRIFT {
        return Err(E_BAD);
    }
    let mut m = read_spot_market(&sm_acc.try_borrow_data()?).ok_or(E_BAD)?;
    let mut u = read_drift_user(&user.try_borrow_data()?).ok_or(E_BAD)?;
    if u.authority != *authority.key || m.market_index != market_index || m.vault != *vault.key || m.mint != *mint.key {
        return Err(E_BAD);
    }
    // the venue works off interest that was brought up to date in this second
    if (m.last_interest_ts as i64) < now {
        return Err(E_STALE);
    }
    let idx = drift_position_index(market_index);
    let dec = m.decimals as u8;
    let pos = &mut u.spot_positions[idx];
    if pos.scaled_balance > 0 && (pos.market_index != market_index || pos.balance_type != SpotBalanceType::Deposit) {
        return Err(E_BAD);
    }
    let total = u128::from_le_bytes(m.deposit_balance);
    if dep {
        let inc = drift_scaled(&m, amount, false).ok_or(E_MATH)?;
        transfer_checked(token_program, user_ta, mint, vault, authority, amount, dec, None)?;
        pos.scaled_balance = pos.scaled_balance.checked_add(inc).ok_or(E_MATH)?;
        pos.market_index = market_index;
        pos.balance_type = SpotBalanceType::Deposit;
        pos.cumulative_deposits = pos.cumulative_deposits.saturating_add(amount.min(i64::MAX as u64) as i64);
        m.deposit_balance = total.checked_add(inc as u128).ok_or(E_MATH)?.to_le_bytes();
    } else {
        let signer_acc = signer_acc.ok_or(E_BAD)?;
        let (sk, sb) = drift_signer();
        if signer_acc.key != &sk {
            return Err(E_BAD);
        }
        let dec_bal = drift_scaled(&m, amount, true).ok_or(E_MATH)?;
        if dec_bal > pos.scaled_balance {
            return Err(E_FUNDS);
        }
        let bump = [sb];
        let seeds: [&[u8]; 2] = [b"drift_signer", &bump];
        transfer_checked(token_program, vault, mint, user_ta, signer_acc, amount, dec, Some(&seeds))?;
        pos.scaled_balance -= dec_bal;
        pos.cumulative_deposits = pos.cumulative_deposits.saturating_sub(amount.min(i64::MAX as u64) as i64);
        if pos.scaled_balance == 0 {
            pos.cumulative_deposits = 0;
        }
        m.deposit_balance = total.saturating_sub(dec_bal as u128).to_le_bytes();
    }
    sm_acc.try_borrow_mut_data()?.copy_from_slice(&spot_market_bytes(&m));
    user.try_borrow_mut_data()?.copy_from_slice(&drift_user_bytes(&u));
    Ok(())
}
