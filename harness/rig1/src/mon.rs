//! Monitors over tapped instructions and committed transactions (state family:
//! C01 solvency, C02 ledger, C03 no free value, C06 accrual, C16 account structure, C17 caps).
use crate::kinds::Kind;
use crate::num::*;
use crate::refm;
use crate::report::Report;
use crate::state::*;
use crate::tap::TapEvent;
use crate::world::World;
use marginfi_type_crate::types::*;
use num_traits::{Signed, Zero};
use serde_json::json;
use solana_sdk::pubkey::Pubkey;
use std::collections::{HashMap, HashSet};

pub const MFI: Pubkey = crate::ix::MFI;
pub const FLAG_TOKENLESS_ALLOWED: u64 = 1 << 5;
pub const FLAG_TOKENLESS_COMPLETE: u64 = 1 << 6;

pub struct IxInfo {
    pub kind: Kind,
    pub banks: Vec<(Pubkey, Option<Bank>, Option<Bank>)>,
    pub accts: Vec<(Pubkey, Option<MarginfiAccount>, Option<MarginfiAccount>)>,
    pub signers: Vec<Pubkey>,
    pub now: i64,
}
impl IxInfo {
    pub fn of(ev: &TapEvent, now: i64) -> IxInfo {
        let mut banks = vec![];
        let mut accts = vec![];
        let mut seen = HashSet::new();
        for (i, s) in ev.pre.iter().enumerate() {
            if !seen.insert(s.key) {
                continue;
            }
            let post = ev.post.get(i);
            let (bp, bq) = (if s.owner == MFI { bank_of(&s.data) } else { None }, post.and_then(|p| if p.owner == MFI { bank_of(&p.data) } else { None }));
            if bp.is_some() || bq.is_some() {
                banks.push((s.key, bp, bq));
                continue;
            }
            let (ap, aq) = (if s.owner == MFI { acct_of(&s.data) } else { None }, post.and_then(|p| if p.owner == MFI { acct_of(&p.data) } else { None }));
            if ap.is_some() || aq.is_some() {
                accts.push((s.key, ap, aq));
            }
        }
        IxInfo { kind: Kind::of(&ev.data), banks, accts, signers: ev.signers(), now }
    }
}

pub fn arg_u64(data: &[u8], off: usize) -> Option<u64> {
    data.get(off..off + 8).map(|b| u64::from_le_bytes(b.try_into().unwrap()))
}
pub fn arg_opt_bool(data: &[u8], off: usize) -> Option<bool> {
    match data.get(off) {
        Some(1) => data.get(off + 1).map(|x| *x != 0),
        _ => None,
    }
}

fn pos_bits(a: &Option<MarginfiAccount>, bank: &Pubkey) -> (i128, i128, bool) {
    // (asset share bits, liability share bits, active) of the position of account `a` in `bank`
    if let Some(a) = a {
        for b in a.lending_account.balances.iter() {
            if b.active != 0 && &b.bank_pk == bank {
                return (wbits(&b.asset_shares), wbits(&b.liability_shares), true);
            }
        }
    }
    (0, 0, false)
}

#[derive(Default)]
pub struct Mon {
    pub r: Report,
    pub on: HashSet<&'static str>,
    // C01
    eps_sum: HashMap<Pubkey, Rat>,
    deficit: HashMap<Pubkey, Rat>,
    // C02 (share bits)
    dust_a: HashMap<Pubkey, i128>,
    dust_l: HashMap<Pubkey, i128>,
    // C16
    tag_at_open: HashMap<(Pubkey, Pubkey), u8>,
    transferred: HashSet<Pubkey>,
    // generic
    pub ix_seen: HashMap<Kind, u64>,
    pub ix_in_bracket: u64,
    pub tx_committed: u64,
    pub tx_rejected: u64,
    pub rejects: HashMap<(Kind, u32), u64>,
    // C10/C12: health at bracket start (maintenance, equity) per account
    pub bracket: HashMap<Pubkey, (refm::RefHealth, refm::RefHealth)>,
    // C12: reference deleverage window per group (window start, whole dollars withdrawn)
    pub delev: HashMap<Pubkey, (i64, u64)>,
    // C07/C14: banks that were ever killed by bankruptcy
    pub ever_killed: HashSet<Pubkey>,
    // C08: accounts whose receivership was started inside the transaction being observed
    pub rcv_started_in_tx: HashSet<Pubkey>,
    // C14: pause window of each group as announced by the global fee state at propagation time
    pub pause_window: HashMap<Pubkey, (i64, i64)>,
    // C20 (venue): number of pass-through operations seen per bank
    pub venue_ops: HashMap<Pubkey, u64>,
    /// program panics (abort the transaction): (instruction, message | location | first program frame) -> count
    pub panic_sites: HashMap<(Kind, String), u64>,
    /// C15 (chain): pauses accepted since the last daily reset of the global pause state
    pub c15_succ: u8,
}

/// The part of the monitors' memory that describes the *committed* history (what has accumulated,
/// which banks were ever killed, which accounts were transferred, pause windows, ...). A
/// simulation is judged like a transaction that would commit, but it does not commit: this state
/// is saved before and restored after (see `World::probe`).
#[derive(Clone)]
pub struct MonState {
    eps_sum: HashMap<Pubkey, Rat>,
    deficit: HashMap<Pubkey, Rat>,
    dust_a: HashMap<Pubkey, i128>,
    dust_l: HashMap<Pubkey, i128>,
    tag_at_open: HashMap<(Pubkey, Pubkey), u8>,
    transferred: HashSet<Pubkey>,
    bracket: HashMap<Pubkey, (refm::RefHealth, refm::RefHealth)>,
    delev: HashMap<Pubkey, (i64, u64)>,
    ever_killed: HashSet<Pubkey>,
    rcv_started_in_tx: HashSet<Pubkey>,
    pause_window: HashMap<Pubkey, (i64, i64)>,
    venue_ops: HashMap<Pubkey, u64>,
    c15_succ: u8,
}

/// Program error codes (Anchor custom codes) the monitors need to recognise.
pub mod err {
    use marginfi::errors::MarginfiError as E;
    pub const fn c(e: E) -> u32 {
        6000 + e as u32
    }
    pub const BANK_ASSET_CAPACITY_EXCEEDED: u32 = c(E::BankAssetCapacityExceeded);
    pub const RISK_ENGINE_INIT_REJECTED: u32 = c(E::RiskEngineInitRejected);
    pub const ISOLATED_ILLEGAL: u32 = c(E::IsolatedAccountIllegalState);
    pub const BANK_PAUSED: u32 = c(E::BankPaused);
    pub const BANK_REDUCE_ONLY: u32 = c(E::BankReduceOnly);
    pub const BANK_KILLED: u32 = c(E::BankKilledByBankruptcy);
    pub const PROTOCOL_PAUSED: u32 = c(E::ProtocolPaused);
    pub const HEALTHY_ACCOUNT: u32 = c(E::HealthyAccount);
    pub const ILLEGAL_UTILIZATION: u32 = c(E::IllegalUtilizationRatio);
    pub const UNAUTHORIZED: u32 = c(E::Unauthorized);
    pub const ACCOUNT_NOT_BANKRUPT: u32 = c(E::AccountNotBankrupt);
}

impl Mon {
    pub fn new(prop: &str, on: &[&'static str]) -> Mon {
        let mut m = Mon { r: Report::new(prop), ..Default::default() };
        for p in on {
            m.on.insert(p);
        }
        m
    }
    fn en(&self, p: &str) -> bool {
        self.on.contains(p)
    }
    pub fn save_state(&self) -> MonState {
        MonState {
            eps_sum: self.eps_sum.clone(),
            deficit: self.deficit.clone(),
            dust_a: self.dust_a.clone(),
            dust_l: self.dust_l.clone(),
            tag_at_open: self.tag_at_open.clone(),
            transferred: self.transferred.clone(),
            bracket: self.bracket.clone(),
            delev: self.delev.clone(),
            ever_killed: self.ever_killed.clone(),
            rcv_started_in_tx: self.rcv_started_in_tx.clone(),
            pause_window: self.pause_window.clone(),
            venue_ops: self.venue_ops.clone(),
            c15_succ: self.c15_succ,
        }
    }
    pub fn restore_state(&mut self, s: MonState) {
        self.eps_sum = s.eps_sum;
        self.deficit = s.deficit;
        self.dust_a = s.dust_a;
        self.dust_l = s.dust_l;
        self.tag_at_open = s.tag_at_open;
        self.transferred = s.transferred;
        self.bracket = s.bracket;
        self.delev = s.delev;
        self.ever_killed = s.ever_killed;
        self.rcv_started_in_tx = s.rcv_started_in_tx;
        self.pause_window = s.pause_window;
        self.venue_ops = s.venue_ops;
        self.c15_succ = s.c15_succ;
    }

    /// One successfully executed marginfi instruction of a transaction that committed (or of a
    /// successful simulation).
    pub fn on_ix(&mut self, w: &World, v: &IxView) {
        let info = IxInfo::of(v.ev, w.chain.now());
        *self.ix_seen.entry(info.kind).or_insert(0) += 1;
        let in_bracket = info.accts.iter().any(|(_, p, _)| p.as_ref().map(|a| a.account_flags & (ACCOUNT_IN_FLASHLOAN | ACCOUNT_IN_RECEIVERSHIP) != 0).unwrap_or(false));
        if in_bracket {
            self.ix_in_bracket += 1;
        }
        if self.en("C01") {
            self.c01(w, v, &info, in_bracket);
        }
        if self.en("C02") {
            self.c02_ix(w, v, &info);
        }
        if self.en("C03") {
            self.c03(w, v, &info);
        }
        if self.en("C06") {
            self.c06(w, v, &info);
        }
        if self.en("C16") {
            self.c16_ix(w, v, &info);
        } else if self.en("C07") {
            self.disabled_survives_transfer(&info);
        }
        if self.en("C17") {
            self.c17(w, v, &info);
        }
        if self.on.iter().any(|p| matches!(*p, "C04" | "C05" | "C07" | "C09" | "C10" | "C11" | "C12")) {
            self.risk_on_ix(w, v, &info);
        }
        if info.kind == Kind::PulseHealth && self.on.iter().any(|p| matches!(*p, "C04" | "C07" | "C13" | "C14")) {
            self.pulse_on_ix(v, &info);
        }
        if self.on.iter().any(|p| matches!(*p, "C07" | "C14")) {
            self.killed_forever(&info);
        }
        if self.en("C20") {
            self.venue_on_ix(w, v, &info);
        }
        if self.on.iter().any(|p| matches!(*p, "C07" | "C08" | "C12" | "C13" | "C14" | "C15" | "C18" | "C19")) {
            self.admin_on_ix(w, v, &info);
        }
    }

    pub fn on_tx_commit(&mut self, w: &World, ixs: &[solana_sdk::instruction::Instruction], out: &crate::chain::TxOut) {
        self.tx_committed += 1;
        if cfg!(debug_assertions) {
            self.r.count("wrapcheck.committed_transactions_observed_under_debug_assertions");
        }
        self.rcv_started_in_tx.clear();
        self.on_commit(w);
        if self.on.iter().any(|p| matches!(*p, "C10" | "C11" | "C12")) {
            self.brackets_on_commit(w, ixs, out);
        }
        if self.en("C14") {
            self.c14_commit(w, &w.last_pre);
        }
        if self.en("C19") {
            self.c19_commit(w);
        }
    }

    /// A transaction (or simulation) that was rejected: accept/reject monitors look at it.
    pub fn on_reject(&mut self, w: &World, ixs: &[solana_sdk::instruction::Instruction], out: &crate::chain::TxOut) {
        self.tx_rejected += 1;
        if cfg!(debug_assertions) {
            self.r.count("wrapcheck.rejected_transactions_observed_under_debug_assertions");
        }
        for ev in out.events.iter().filter(|e| e.panicked) {
            let site = ev.panic_site.clone().unwrap_or_else(|| "unknown".into());
            // Overflow sanitizer (only in the `dbgassert` build): the `fixed` crate's operators and
            // `from_num` check overflow under debug assertions and wrap silently in the deployed
            // profile. Such a panic marks a place where the deployed program would have gone on
            // with a wrapped value.
            if cfg!(debug_assertions) && site.contains("fixed-") && (site.starts_with("overflow") || site.contains("overflow")) {
                self.r.count(&format!("wrapcheck.silent_wrap_site/{}/{}", Kind::of(&ev.data).name(), site));
                let venue_math = ["price", "_mocks", "adjust_", "scaled_supplies", "collateral_to_liquidity", "liquidity_to_collateral"].iter().any(|k| site.contains(k));
                if venue_math {
                    self.r.violate("C20", &format!("C20/wrap/{}", site.rsplit(" | ").next().unwrap_or("")), format!("under debug assertions the fixed-point operation overflowed ({}); the deployed profile wraps silently here instead of reporting an error", site));
                }
            }
            *self.panic_sites.entry((Kind::of(&ev.data), site)).or_insert(0) += 1;
        }
        self.bracket.clear();
        self.rcv_started_in_tx.clear();
        if let (Some(c), Some(ev)) = (out.custom_code(), out.events.iter().rev().find(|e| e.program == MFI && !e.ok())) {
            if self.on.iter().any(|p| matches!(*p, "C04" | "C11")) {
                self.c04_reject(w, ev, c);
            }
        }
        let code = out.custom_code();
        let idx = out.failing_ix().map(|i| i as usize);
        let failing = idx.and_then(|i| if i >= crate::chain::Chain::IX_SHIFT { ixs.get(i - crate::chain::Chain::IX_SHIFT) } else { None });
        if let (Some(i), Some(code)) = (idx, code) {
            if self.en("C14") && i >= crate::chain::Chain::IX_SHIFT && i - crate::chain::Chain::IX_SHIFT < ixs.len() {
                self.c14_reject(w, ixs, code, i - crate::chain::Chain::IX_SHIFT);
            }
            if self.en("C15") && i >= crate::chain::Chain::IX_SHIFT && i - crate::chain::Chain::IX_SHIFT < ixs.len() {
                self.c15_reject(w, ixs, i - crate::chain::Chain::IX_SHIFT, code);
            }
        }
        if let (Some(ix), Some(code)) = (failing, code) {
            if ix.program_id == MFI {
                let kind = Kind::of(&ix.data);
                *self.rejects.entry((kind, code)).or_insert(0) += 1;
                if self.en("C17") && kind == Kind::Deposit && arg_opt_bool(&ix.data, 16) == Some(true) {
                    self.r.eval();
                    self.r.count("C17.up_to_limit_deposits_rejected");
                    if code == err::BANK_ASSET_CAPACITY_EXCEEDED {
                        self.r.violate("C17", "C17/Deposit/up-to-limit-failed-with-capacity-error", format!("up-to-limit deposit of {} rejected with the capacity error", arg_u64(&ix.data, 8).unwrap_or(0)));
                    }
                }
            }
        }
    }

    pub fn on_commit(&mut self, w: &World) {
        if self.en("C02") {
            self.c02_global(w);
        }
        if self.en("C16") {
            self.c16_global(w);
        }
    }

    /// A bank killed by bankruptcy stays shut: no financial instruction ever succeeds on it again
    /// and it never shows another state.
    fn killed_forever(&mut self, info: &IxInfo) {
        let financial = matches!(info.kind, Kind::Deposit | Kind::Withdraw | Kind::Borrow | Kind::Repay | Kind::Liquidate | Kind::HandleBankruptcy);
        let n = if info.kind == Kind::Liquidate { 2 } else { 1 };
        for (i, (bk, pre, post)) in info.banks.iter().enumerate() {
            let killed = |b: &Option<Bank>| b.as_ref().map(|b| b.config.operational_state == BankOperationalState::KilledByBankruptcy).unwrap_or(false);
            if self.ever_killed.contains(bk) {
                if financial && i < n {
                    for p in ["C07", "C14"] {
                        self.r.violate(p, &format!("{}/{}/accepted-on-bank-previously-killed-by-bankruptcy", p, info.kind.name()), format!("bank {}", bk));
                    }
                }
                if post.is_some() && !killed(post) {
                    for p in ["C07", "C14"] {
                        self.r.violate(p, &format!("{}/{}/killed-bank-left-the-killed-state", p, info.kind.name()), format!("bank {}", bk));
                    }
                }
            }
            if killed(pre) || killed(post) {
                self.ever_killed.insert(*bk);
            }
        }
    }

    // ------------------------------------------------------------------ C01
    fn c01(&mut self, w: &World, v: &IxView, info: &IxInfo, in_bracket: bool) {
        for (bk, pre, post) in &info.banks {
            let (pre, post) = match (pre, post) {
                (Some(a), Some(b)) => (a, b),
                _ => continue,
            };
            if post.config.asset_tag > 2 {
                continue; // pass-through banks of third-party venues
            }
            let bd = match w.bank_by_key(bk) {
                Some(i) => &w.banks[i],
                None => continue,
            };
            let (vp, vq) = match (v.pre(&bd.k.lv).and_then(token_amount), v.post(&bd.k.lv).and_then(token_amount)) {
                (Some(a), Some(b)) => (a, b),
                _ => continue,
            };
            let (qp, qq) = (BankQ::of(pre), BankQ::of(post));
            let d_req = qq.required() - qp.required();
            let d_v = ri(vq as i128) - ri(vp as i128);
            let dt = (info.now - pre.last_update).max(0);
            let sv_changed = qp.asv != qq.asv || qp.lsv != qq.lsv;
            let mut eps = (&qq.asv + &qq.lsv + ri(2)) * ri(64) * ulp();
            // an accrual ran whenever time has passed, also when the interest was too small to move
            // the share values (the fee buckets may still have moved by a fraction of a unit)
            let fees_moved = qp.fees() != qq.fees();
            if sv_changed || (dt > 0 && fees_moved) {
                eps += accrual_allowance(&qp, &qq, dt);
            }
            let shortfall = &d_req - &d_v;
            self.r.eval();
            self.r.max("C01.max_eps_per_op_units", to_f64(&eps));
            if eps < rq(1, 100) {
                self.r.count("C01.ops_in_tiny_allowance_regime");
            } else {
                self.r.count("C01.ops_with_allowance_above_0.01_unit");
            }
            let class = format!("{:?}/{}", info.kind, bd.mint);
            self.r.distinct(&(info.kind.name(), w.mints[bd.mint].decimals, match w.mints[bd.mint].kind { crate::world::TokKind::Classic => 0u8, crate::world::TokKind::T22 => 1, crate::world::TokKind::T22Fee { .. } => 2 }, sv_changed, in_bracket, shortfall.is_positive()));
            let _ = class;
            if shortfall > eps {
                // sanctioned exceptions are recognised from what happened
                let tokenless = info.kind == Kind::Repay
                    && pre.flags & FLAG_TOKENLESS_ALLOWED != 0
                    && arg_opt_bool(&v.ev.data, 16) == Some(true)
                    && v.pre(&pre.group).and_then(group_of).map(|g| info.signers.contains(&g.risk_admin)).unwrap_or(false);
                let wiped = info.kind == Kind::HandleBankruptcy && post.config.operational_state == BankOperationalState::KilledByBankruptcy && pre.config.operational_state != BankOperationalState::KilledByBankruptcy;
                if tokenless {
                    self.r.count("C01.sanctioned_tokenless_repay");
                    *self.deficit.entry(*bk).or_insert_with(zero) += &shortfall;
                } else if wiped {
                    self.r.count("C01.sanctioned_bank_wipeout");
                    *self.deficit.entry(*bk).or_insert_with(zero) += &shortfall;
                } else {
                    self.r.violate("C01", &format!("C01/{}/vault-delta-below-claims-delta", info.kind.name()), format!("bank {} kind {:?}: vault changed by {} but deposits-loans+fees changed by {} (allowance {}); D {}->{} L {}->{} F {}->{} vault {}->{}", bk, info.kind, show(&d_v), show(&d_req), show(&eps), show(&qp.d), show(&qq.d), show(&qp.l), show(&qq.l), show(&qp.fees()), show(&qq.fees()), vp, vq));
                }
            }
            *self.eps_sum.entry(*bk).or_insert_with(zero) += &eps;
            let slack = ri(vq as i128) - qq.required() + self.deficit.get(bk).cloned().unwrap_or_else(zero);
            let allow = self.eps_sum.get(bk).cloned().unwrap_or_else(zero);
            self.r.min("C01.min_slack_units", to_f64(&slack));
            if slack < -allow.clone() {
                self.r.violate("C01", &format!("C01/{}/vault-below-claims", info.kind.name()), format!("bank {}: vault {} < deposits-loans+fees {} (cumulative allowance {}, sanctioned deficit {})", bk, vq, show(&qq.required()), show(&allow), show(&self.deficit.get(bk).cloned().unwrap_or_else(zero))));
            }
            if in_bracket {
                self.r.count("C01.instructions_inside_brackets");
            }
            self.r.sample_kind(info.kind.name(), json!({"bank": bk.to_string(), "vault_pre": vp, "vault_post": vq, "claims_delta": show(&d_req), "allowance": show(&eps)}));
        }
    }

    // ------------------------------------------------------------------ C02
    fn c02_ix(&mut self, w: &World, v: &IxView, info: &IxInfo) {
        let _ = (w, v);
        for (bk, pre, post) in &info.banks {
            let (pre, post) = match (pre, post) {
                (Some(a), Some(b)) => (a, b),
                _ => continue,
            };
            let d_ta = wbits(&post.total_asset_shares) - wbits(&pre.total_asset_shares);
            let d_tl = wbits(&post.total_liability_shares) - wbits(&pre.total_liability_shares);
            let (mut dp_a, mut dp_l) = (0i128, 0i128);
            // dust that may legitimately be abandoned: sides of positions closed by this instruction
            let (mut allow_a, mut allow_l) = (0i128, 0i128);
            let mut closures = 0;
            for (_ak, ap, aq) in &info.accts {
                let (pa, pl, pact) = pos_bits(ap, bk);
                let (qa, ql, qact) = pos_bits(aq, bk);
                dp_a += qa - pa;
                dp_l += ql - pl;
                if pact && !qact {
                    closures += 1;
                    // only sub-dust sides can be abandoned (value < 0.0001 unit; one whole share at
                    // whole-account closure, the program's "empty" threshold)
                    let lim = if info.kind == Kind::CloseAccount { rmax(&one(), &rq(1, 10000)) } else { rq(1, 10000) };
                    // value is what the statement bounds (a wiped-out bank's shares are worth nothing)
                    if bits_to_rat(pa) * w_(&post.asset_share_value) < lim {
                        allow_a += pa.max(0);
                    }
                    if bits_to_rat(pl) * w_(&post.liability_share_value) < lim {
                        allow_l += pl.max(0);
                    }
                }
            }
            self.r.eval();
            let (diff_a, diff_l) = (d_ta - dp_a, d_tl - dp_l);
            self.r.distinct(&(info.kind.name(), closures, d_ta.signum(), d_tl.signum(), diff_a != 0, diff_l != 0));
            if closures > 0 {
                self.r.count(&format!("C02.closures/{}", info.kind.name()));
                self.r.max("C02.max_dust_abandoned_shares", to_f64(&bits_to_rat(diff_a.max(diff_l))));
            }
            if diff_a < 0 || diff_a > allow_a {
                self.r.violate("C02", &format!("C02/{}/asset-total-vs-positions", info.kind.name()), format!("bank {}: total asset shares changed by {} bits but positions by {} bits (closure allowance {})", bk, d_ta, dp_a, allow_a));
            }
            if diff_l < 0 || diff_l > allow_l {
                self.r.violate("C02", &format!("C02/{}/liability-total-vs-positions", info.kind.name()), format!("bank {}: total liability shares changed by {} bits but positions by {} bits (closure allowance {})", bk, d_tl, dp_l, allow_l));
            }
            *self.dust_a.entry(*bk).or_insert(0) += diff_a.max(0);
            *self.dust_l.entry(*bk).or_insert(0) += diff_l.max(0);
            if (d_ta != 0 || d_tl != 0) && closures == 0 {
                self.r.sample_kind(info.kind.name(), json!({"bank": bk.to_string(), "total_asset_delta_bits": d_ta.to_string(), "positions_asset_delta_bits": dp_a.to_string(), "total_liab_delta_bits": d_tl.to_string(), "positions_liab_delta_bits": dp_l.to_string()}));
            }
        }
        // whole-account close / positions vanishing without the bank in the instruction
        for (ak, ap, aq) in &info.accts {
            if let (Some(ap), None) = (ap, aq) {
                for b in ap.lending_account.balances.iter().filter(|b| b.active != 0) {
                    if info.banks.iter().any(|(k, _, _)| k == &b.bank_pk) {
                        continue;
                    }
                    self.r.count("C02.account_close_with_residual_balance");
                    let (a, l) = (wbits(&b.asset_shares), wbits(&b.liability_shares));
                    if bits_to_rat(a) >= one() || bits_to_rat(l) >= one() {
                        self.r.violate("C02", "C02/CloseAccount/non-empty-position-destroyed", format!("account {} closed holding {} / {} share bits in bank {}", ak, a, l, b.bank_pk));
                    }
                    *self.dust_a.entry(b.bank_pk).or_insert(0) += a.max(0);
                    *self.dust_l.entry(b.bank_pk).or_insert(0) += l.max(0);
                }
            }
        }
        if info.kind == Kind::CloseBank {
            // success => nobody holds more than dust in it
            for (bk, pre, _) in &info.banks {
                if pre.is_none() {
                    continue;
                }
                let mut worst = 0i128;
                for (k, a) in w.shadow.iter() {
                    if a.owner != MFI {
                        continue;
                    }
                    if let Some(acc) = acct_of(&a.data) {
                        let (pa, pl, act) = pos_bits(&Some(acc), bk);
                        if act {
                            worst = worst.max(pa).max(pl);
                            if bits_to_rat(pa) >= one() || bits_to_rat(pl) >= one() {
                                self.r.violate("C02", "C02/CloseBank/closed-with-open-position", format!("bank {} closed while account {} holds {} / {} share bits", bk, k, pa, pl));
                            }
                        }
                    }
                }
                self.r.count("C02.close_bank_accepted");
                self.r.max("C02.close_bank_largest_outstanding_shares", to_f64(&bits_to_rat(worst)));
            }
        }
    }

    fn c02_global(&mut self, w: &World) {
        let mut sum_a: HashMap<Pubkey, i128> = HashMap::new();
        let mut sum_l: HashMap<Pubkey, i128> = HashMap::new();
        for (_k, a) in w.shadow.iter() {
            if a.owner != MFI {
                continue;
            }
            if let Some(acc) = acct_of(&a.data) {
                for b in acc.lending_account.balances.iter().filter(|b| b.active != 0) {
                    *sum_a.entry(b.bank_pk).or_insert(0) += wbits(&b.asset_shares);
                    *sum_l.entry(b.bank_pk).or_insert(0) += wbits(&b.liability_shares);
                }
            }
        }
        for bd in &w.banks {
            let b = match w.shadow.get(&bd.key).and_then(|a| bank_of(&a.data)) {
                Some(b) => b,
                None => continue,
            };
            self.r.eval();
            let (ta, tl) = (wbits(&b.total_asset_shares), wbits(&b.total_liability_shares));
            let (sa, sl) = (sum_a.get(&bd.key).cloned().unwrap_or(0), sum_l.get(&bd.key).cloned().unwrap_or(0));
            let (da, dl) = (self.dust_a.get(&bd.key).cloned().unwrap_or(0), self.dust_l.get(&bd.key).cloned().unwrap_or(0));
            if ta < sa || ta - sa > da {
                self.r.violate("C02", "C02/global/asset-total-vs-sum-of-positions", format!("bank {}: total asset share bits {} vs sum of positions {} (dust abandoned so far {})", bd.key, ta, sa, da));
            }
            if tl < sl || tl - sl > dl {
                self.r.violate("C02", "C02/global/liability-total-vs-sum-of-positions", format!("bank {}: total liability share bits {} vs sum of positions {} (dust abandoned so far {})", bd.key, tl, sl, dl));
            }
        }
    }

    // ------------------------------------------------------------------ C03
    /// A classic liquidation is an operation too: inside each of its two banks, what the parties
    /// are credited (the liquidatee's debt relief, the liquidator's seized collateral) must not
    /// exceed what the other party is debited, net of what moved to the insurance side - no prices
    /// involved, all at the share values in force after the instruction's accrual.
    fn c03_liquidate(&mut self, w: &World, v: &IxView, info: &IxInfo) {
        for slot in [1usize, 2] {
            let bk = match v.ev.pre.get(slot) {
                Some(s) => s.key,
                None => continue,
            };
            let (pre, post) = match info.banks.iter().find(|(k, _, _)| *k == bk) {
                Some((_, Some(a), Some(b))) => (a, b),
                _ => continue,
            };
            let bd = match w.bank_by_key(&bk) {
                Some(i) => &w.banks[i],
                None => continue,
            };
            let (vp, vq) = match (v.pre(&bd.k.lv).and_then(token_amount), v.post(&bd.k.lv).and_then(token_amount)) {
                (Some(a), Some(b)) => (a as i128, b as i128),
                _ => continue,
            };
            let (qp, q) = (BankQ::of(pre), BankQ::of(post));
            let mut net_credit = zero();
            for (_, ap, aq) in &info.accts {
                let (pa, pl, _) = pos_bits(ap, &bk);
                let (qa, ql, _) = pos_bits(aq, &bk);
                net_credit += bits_to_rat(qa - pa) * &q.asv - bits_to_rat(ql - pl) * &q.lsv;
            }
            // fee buckets as they would stand after this instruction's own accrual are not visible;
            // the accrual's own bucket increase is a claim of the fee side, not of the parties, so
            // only a *decrease* of the parties' joint position is required: credited <= paid in
            let vault_in = ri(vq - vp);
            let eps = (&q.asv + &q.lsv + ri(2)) * ri(16) * ulp() * ri(info.accts.len().max(1) as i128);
            self.r.eval();
            self.r.count("C03.liquidation_legs_judged");
            let _ = qp;
            // the parties together may not come out ahead of what reached (or left) the vault
            let gain = &net_credit - &vault_in;
            self.r.max("C03.worst_liquidation_gain_units", to_f64(&gain));
            if net_credit > eps.clone() && gain > eps {
                self.r.violate("C03", "C03/Liquidate/parties-credited-more-than-debited", format!("bank {}: the two accounts' joint position value changed by {} while the vault changed by {} (allowance {})", bk, show(&net_credit), show(&vault_in), show(&eps)));
            }
        }
    }

    fn c03(&mut self, w: &World, v: &IxView, info: &IxInfo) {
        let kind = info.kind;
        if kind == Kind::Liquidate {
            self.c03_liquidate(w, v, info);
            return;
        }
        if kind == Kind::CloseBalance {
            // closing a position moves no tokens: what it may take off the books in the user's favour
            // is the sub-0.0001-unit debt dust of a closure, nothing more
            if let (Some((bk, _, Some(post))), Some((ak, ap, aq))) = (info.banks.first(), info.accts.first()) {
                let (pa, pl, _) = pos_bits(ap, bk);
                let (qa, ql, _) = pos_bits(aq, bk);
                let q = BankQ::of(post);
                let net_credit = bits_to_rat(qa - pa) * &q.asv - bits_to_rat(ql - pl) * &q.lsv;
                self.r.eval();
                self.r.count("C03.balance_closures_judged");
                if net_credit > rq(1, 10_000) + (&q.asv + &q.lsv + ri(2)) * ri(8) * ulp() {
                    self.r.violate("C03", "C03/CloseBalance/debt-taken-off-the-books-without-payment", format!("account {} bank {}: position value changed by {} in the user's favour, no tokens moved", ak, bk, show(&net_credit)));
                }
            }
            return;
        }
        if !matches!(kind, Kind::Deposit | Kind::Withdraw | Kind::Borrow | Kind::Repay) {
            return;
        }
        let (bk, pre, post) = match info.banks.first() {
            Some((k, Some(a), Some(b))) => (k, a, b),
            _ => return,
        };
        let bd = match w.bank_by_key(bk) {
            Some(i) => &w.banks[i],
            None => return,
        };
        let (vp, vq) = match (v.pre(&bd.k.lv).and_then(token_amount), v.post(&bd.k.lv).and_then(token_amount)) {
            (Some(a), Some(b)) => (a as i128, b as i128),
            _ => return,
        };
        let (ap, aq) = match info.accts.first() {
            Some((_, a, b)) => (a, b),
            None => return,
        };
        let (pa, pl, _) = pos_bits(ap, bk);
        let (qa, ql, _) = pos_bits(aq, bk);
        let q = BankQ::of(post);
        let _ = pre;
        // value of the position change at the share values in force after the instruction's accrual
        let d_asset_val = bits_to_rat(qa - pa) * &q.asv;
        let d_liab_val = bits_to_rat(ql - pl) * &q.lsv;
        let net_credit = &d_asset_val - &d_liab_val; // >0: user's position got better
        let vault_in = ri(vq - vp); // >0 tokens reached the vault
        let eps = (&q.asv + &q.lsv + ri(2)) * ri(8) * ulp();
        self.r.eval();
        let all = arg_opt_bool(&v.ev.data, 16) == Some(true);
        // the sanctioned exception: the risk admin settles a whole debt without tokens on a bank the
        // group admin flagged for it - nobody else, and never a partial repayment
        let tokenless = kind == Kind::Repay
            && vault_in.is_zero()
            && pre.flags & FLAG_TOKENLESS_ALLOWED != 0
            && all
            && v.pre(&pre.group).and_then(group_of).map(|g| info.signers.contains(&g.risk_admin)).unwrap_or(false);
        let svc = if q.asv == one() && q.lsv == one() { 0 } else if q.asv < one() { 2 } else { 1 };
        self.r.distinct(&(kind.name(), all, svc, w.mints[bd.mint].decimals, matches!(w.mints[bd.mint].kind, crate::world::TokKind::T22Fee { .. })));
        match kind {
            Kind::Deposit | Kind::Repay => {
                if tokenless {
                    self.r.count("C03.tokenless_repay_exception");
                    return;
                }
                // credited value must not exceed what actually arrived in the vault
                let gain = &net_credit - &vault_in;
                self.r.max("C03.worst_user_gain_units", to_f64(&gain));
                if gain > eps {
                    self.r.violate("C03", &format!("C03/{}/credited-more-than-paid", kind.name()), format!("bank {}: position value +{} but vault received {} (allowance {})", bk, show(&net_credit), show(&vault_in), show(&eps)));
                }
                if kind == Kind::Repay && all {
                    // full repayment rounds up: vault receives at least ceil(debt)
                    self.r.count("C03.full_repay_rounding_checked");
                    let debt = bits_to_rat(pl) * &q.lsv;
                    if vault_in < &debt - &eps {
                        self.r.violate("C03", "C03/Repay/full-repay-rounded-down", format!("bank {}: debt {} cleared for {} tokens", bk, show(&debt), show(&vault_in)));
                    }
                }
            }
            Kind::Withdraw | Kind::Borrow => {
                let out = -vault_in.clone(); // tokens that left the vault
                let debit = -net_credit.clone(); // value removed from the position
                let gain = &out - &debit;
                self.r.max("C03.worst_user_gain_units", to_f64(&gain));
                if gain > eps {
                    self.r.violate("C03", &format!("C03/{}/paid-more-than-debited", kind.name()), format!("bank {}: vault paid {} but position debited {} (allowance {})", bk, show(&out), show(&debit), show(&eps)));
                }
                if kind == Kind::Withdraw && all {
                    self.r.count("C03.full_withdraw_rounding_checked");
                    let val = bits_to_rat(pa) * &q.asv;
                    if out > floor(&(&val + &eps)) {
                        self.r.violate("C03", "C03/Withdraw/full-withdraw-rounded-up", format!("bank {}: deposit worth {} paid out {}", bk, show(&val), show(&out)));
                    }
                }
            }
            _ => {}
        }
        self.r.sample_kind(kind.name(), json!({"bank": bk.to_string(), "vault_delta": show(&vault_in), "position_value_delta": show(&net_credit), "asv": show(&q.asv), "lsv": show(&q.lsv)}));
    }

    // ------------------------------------------------------------------ C06
    fn c06(&mut self, w: &World, v: &IxView, info: &IxInfo) {
        let _ = w;
        for (bk, pre, post) in &info.banks {
            let (pre, post) = match (pre, post) {
                (Some(a), Some(b)) => (a, b),
                _ => continue,
            };
            let (qp, qq) = (BankQ::of(pre), BankQ::of(post));
            let is_bk = info.kind == Kind::HandleBankruptcy;
            if qq.lsv < qp.lsv {
                self.r.violate("C06", &format!("C06/{}/liability-share-value-decreased", info.kind.name()), format!("bank {}: {} -> {}", bk, show(&qp.lsv), show(&qq.lsv)));
            }
            if qq.asv < qp.asv && !is_bk {
                self.r.violate("C06", &format!("C06/{}/asset-share-value-decreased", info.kind.name()), format!("bank {}: {} -> {}", bk, show(&qp.asv), show(&qq.asv)));
            }
            // which instructions must bring interest up to date for this bank?
            let transacts = match info.kind {
                Kind::Deposit | Kind::Withdraw | Kind::Borrow | Kind::Repay | Kind::CloseBalance | Kind::HandleBankruptcy | Kind::AccrueInterest => true,
                Kind::Liquidate => true,
                _ => false,
            };
            if !transacts || !v.ev.pre_of(bk).map(|s| s.is_writable).unwrap_or(false) {
                continue;
            }
            // only the bank(s) the instruction transacts with, i.e. the bank slot(s) of its declared
            // accounts. Banks in the trailing risk accounts are read only by the instruction; they
            // can still show up as writable here because the runtime marks an account writable for
            // every instruction of a transaction as soon as one of them writes it (a receivership
            // bracket withdraws from one bank and repays another in the same transaction).
            let slots = declared_bank_slots(info.kind);
            if !slots.is_empty() {
                let declared: Vec<Pubkey> = slots.iter().filter_map(|i| v.ev.pre.get(*i).map(|s| s.key)).collect();
                if declared.iter().any(|k| info.banks.iter().any(|(b, _, _)| b == k)) {
                    if !declared.contains(bk) {
                        self.r.count("C06.banks_in_the_risk_tail_not_judged");
                        continue;
                    }
                } else {
                    // the declared slot does not hold a bank: the account layout is not the one this
                    // table was written for; fall back to judging every writable bank
                    self.r.count("C06.declared_bank_slot_unrecognised");
                }
            }
            let g = match v.pre(&pre.group).and_then(group_of) {
                Some(g) => g,
                None => continue,
            };
            let dt = info.now - pre.last_update;
            if info.kind == Kind::Deposit && pre.total_asset_shares == post.total_asset_shares && pre.total_liability_shares == post.total_liability_shares {
                // a deposit that deposited nothing (amount 0 / no remaining capacity) transacts nothing
                // and is not required to accrue - but if it did move the share values or the fee
                // buckets (it accrued), the accrual clock must have moved with them: interest booked
                // without the clock is booked again by the next accrual ("accruing twice at the same
                // time is a no-op")
                let accrued = qq.asv != qp.asv || qq.lsv != qp.lsv || qq.f_ins != qp.f_ins || qq.f_grp != qp.f_grp || qq.f_prog != qp.f_prog;
                if accrued {
                    self.r.eval();
                    self.r.count("C06.noop_deposits_that_accrued");
                    if post.last_update != info.now {
                        self.r.violate("C06", "C06/Deposit/interest-booked-without-bringing-the-accrual-clock-to-now", format!("bank {}: share values / fees moved, last_update {} -> {} at time {}", bk, pre.last_update, post.last_update, info.now));
                    }
                }
                self.r.count("C06.noop_deposits_skipped");
                continue;
            }
            // "brought up to the current time": the bank's accrual clock must read now afterwards,
            // whether or not there was any debt to charge - otherwise the next accrual (even in the
            // same second) charges the period again
            if post.last_update != info.now {
                self.r.violate("C06", &format!("C06/{}/bank-accrual-clock-not-brought-to-now", info.kind.name()), format!("bank {}: last_update {} -> {} at time {}", bk, pre.last_update, post.last_update, info.now));
            }
            let ra = match refm::ref_accrue(pre, &g, dt) {
                Some(r) => r,
                None => {
                    self.r.count("C06.reference_curve_undefined");
                    continue;
                }
            };
            if ra.dust {
                self.r.count("C06.dust_bank_accruals_not_judged");
                continue;
            }
            self.r.eval();
            let informative = ra.active && dt > 0;
            if informative {
                self.r.count(&format!("C06.informative_accruals/{}", info.kind.name()));
                if ra.base.is_zero() {
                    self.r.count("C06.informative_accruals_at_zero_base_rate");
                }
                let dtc = if dt < 60 { 0 } else if dt < 86400 { 1 } else if dt < 86400 * 30 { 2 } else { 3 };
                let uc = (to_f64(&ra.util) * 10.0) as i64;
                self.r.distinct(&(info.kind.name(), dtc, uc.min(11)));
            }
            // liability share value must equal the reference accrual (nothing else may move it)
            let dl = abs(&(&qq.lsv - &ra.lsv.v));
            if dl > ra.lsv.e {
                self.r.violate("C06", &format!("C06/{}/liability-share-value-not-accrued-to-now", info.kind.name()), format!("bank {} dt {}: lsv {} -> {} but reference {} (+-{})", bk, dt, show(&qp.lsv), show(&qq.lsv), show(&ra.lsv.v), show(&ra.lsv.e)));
            }
            // a bankruptcy settles the whole debt *as accrued to now*: the bankrupt account's debt in
            // this bank is gone afterwards. A settlement sized at the share value of the bank's previous
            // instruction leaves the interest of the interval behind on the (disabled) account.
            if is_bk {
                for (ak, ap, aq) in &info.accts {
                    if let (Some(ap), Some(aq)) = (ap, aq) {
                        let sh = |a: &MarginfiAccount| a.lending_account.balances.iter().find(|b| b.active != 0 && &b.bank_pk == bk).map(|b| w_(&b.liability_shares)).unwrap_or_else(zero);
                        let (before, after) = (sh(ap), sh(aq));
                        if before.is_positive() {
                            self.r.count(if informative { "C06.bankruptcies_after_elapsed_time_judged" } else { "C06.bankruptcies_without_elapsed_time_judged" });
                            // what a stale sizing would leave behind is before x (1 - old/new share value);
                            // rounding leaves a few grid steps at most
                            let allow = ulp() * ri(1 << 12) + &before * ulp() * ri(16);
                            if after > allow {
                                self.r.violate("C06", "C06/HandleBankruptcy/debt-settled-at-the-share-value-before-accrual", format!("account {} bank {} dt {}: liability shares {} -> {} (share value {} -> {})", ak, bk, dt, show(&before), show(&after), show(&qp.lsv), show(&qq.lsv)));
                            }
                        }
                    }
                }
            }
            let mut socialised = false;
            if is_bk && qq.asv < ra.asv.v.clone() - &ra.asv.e {
                socialised = true; // loss socialisation, judged by C07
            }
            if !socialised {
                let da = abs(&(&qq.asv - &ra.asv.v));
                if da > ra.asv.e {
                    self.r.violate("C06", &format!("C06/{}/asset-share-value-not-accrued-to-now", info.kind.name()), format!("bank {} dt {}: asv {} -> {} but reference {} (+-{})", bk, dt, show(&qp.asv), show(&qq.asv), show(&ra.asv.v), show(&ra.asv.e)));
                }
                if informative {
                    self.r.max("C06.max_share_value_residual_over_allowance", to_f64(&(da / (&ra.asv.e + ulp()))).max(to_f64(&(dl / (&ra.lsv.e + ulp())))));
                }
            }
            if info.kind == Kind::AccrueInterest {
                // pure accrual: fee buckets move by exactly the reference increments, never negative
                let checks = [("insurance", &qq.f_ins - &qp.f_ins, &ra.d_ins), ("group", &qq.f_grp - &qp.f_grp, &ra.d_grp), ("program", &qq.f_prog - &qp.f_prog, &ra.d_prog)];
                let mut fee_total = zero();
                for (name, d, rf) in checks.iter() {
                    fee_total += d;
                    if d.is_negative() {
                        self.r.violate("C06", &format!("C06/AccrueInterest/negative-{}-fee", name), format!("bank {}: {} fee bucket changed by {}", bk, name, show(d)));
                    }
                    if abs(&(d - &rf.v)) > rf.e {
                        self.r.violate("C06", &format!("C06/AccrueInterest/{}-fee-differs-from-reference", name), format!("bank {} dt {}: booked {} reference {} (+-{})", bk, dt, show(d), show(&rf.v), show(&rf.e)));
                    }
                }
                if g.group_flags & 1 == 0 && !(&qq.f_prog - &qp.f_prog).is_zero() {
                    self.r.violate("C06", "C06/AccrueInterest/program-fee-while-disabled", format!("bank {}: program fee bucket moved by {} with program fees disabled", bk, show(&(&qq.f_prog - &qp.f_prog))));
                }
                // conservation: debt growth = deposit growth + fees
                let d_l = &qp.tls * (&qq.lsv - &qp.lsv);
                let d_d = &qp.tas * (&qq.asv - &qp.asv);
                let resid = abs(&(&d_l - &d_d - &fee_total));
                let allow = accrual_allowance(&qp, &qq, dt.max(0));
                if informative {
                    self.r.max("C06.max_conservation_residual_over_allowance", to_f64(&(&resid / &allow)));
                }
                if resid > allow {
                    self.r.violate("C06", "C06/AccrueInterest/debt-growth-differs-from-deposit-growth-plus-fees", format!("bank {} dt {}: dL {} dD {} fees {} residual {} allowance {}", bk, dt, show(&d_l), show(&d_d), show(&fee_total), show(&resid), show(&allow)));
                }
                if dt == 0 {
                    self.r.count("C06.same_time_accruals");
                    if qp.asv != qq.asv || qp.lsv != qq.lsv || !fee_total.is_zero() || pre.total_asset_shares != post.total_asset_shares || pre.total_liability_shares != post.total_liability_shares {
                        self.r.violate("C06", "C06/AccrueInterest/second-accrual-same-time-not-noop", format!("bank {}", bk));
                    }
                }
                self.r.sample_kind("AccrueInterest", json!({"bank": bk.to_string(), "dt": dt, "util": show(&ra.util), "base_rate": show(&ra.base), "asv": [show(&qp.asv), show(&qq.asv)], "lsv": [show(&qp.lsv), show(&qq.lsv)]}));
            }
        }
    }

    // ------------------------------------------------------------------ C16
    fn c16_ix(&mut self, w: &World, v: &IxView, info: &IxInfo) {
        for (ak, ap, aq) in &info.accts {
            if let Some(a) = aq {
                self.c16_structure(ak, a, Some((v, info)));
            }
            if let (Some(p), Some(_q)) = (ap, aq) {
                // a disabled account can no longer deposit, withdraw, borrow, repay or start a flash loan
                if p.account_flags & ACCOUNT_DISABLED != 0 && matches!(info.kind, Kind::Deposit | Kind::Withdraw | Kind::Borrow | Kind::Repay | Kind::StartFlashloan) {
                    self.r.violate("C16", &format!("C16/{}/disabled-account-acted", info.kind.name()), format!("account {}", ak));
                }
            }
            if info.kind == Kind::Liquidate {
                if let (Some(p), Some(q)) = (ap, aq) {
                    // positions opened inside a liquidation next to positions already held (the
                    // handler looks up two banks on the liquidator before it re-sorts)
                    let held: Vec<Pubkey> = p.lending_account.balances.iter().filter(|b| b.active != 0).map(|b| b.bank_pk).collect();
                    let opened = q.lending_account.balances.iter().filter(|b| b.active != 0 && !held.contains(&b.bank_pk)).count();
                    if opened > 0 && !held.is_empty() {
                        self.r.count("C16.liquidation_opened_position_next_to_held_ones");
                    }
                }
            }
            if info.kind == Kind::CloseAccount {
                if let (Some(p), None) = (ap, aq) {
                    self.r.count("C16.account_closed");
                    let bad_flags = p.account_flags & (ACCOUNT_DISABLED | ACCOUNT_FROZEN | ACCOUNT_IN_FLASHLOAN | ACCOUNT_IN_RECEIVERSHIP);
                    let non_empty = p.lending_account.balances.iter().any(|b| w_(&b.asset_shares) >= one() || w_(&b.liability_shares) >= one());
                    if bad_flags != 0 || non_empty {
                        self.r.violate("C16", "C16/CloseAccount/closed-non-empty-or-flagged", format!("account {} flags {:#b} non_empty {}", ak, p.account_flags, non_empty));
                    }
                }
            }
        }
        self.disabled_survives_transfer(info);
        if matches!(info.kind, Kind::TransferAccount | Kind::TransferAccountPda) && info.accts.len() >= 2 {
            // old = first, new = second (Anchor account order)
            let (ok, op, oq) = &info.accts[0];
            let (nk, _np, nq) = &info.accts[1];
            self.r.count("C16.transfers");
            if let (Some(op), Some(oq), Some(nq)) = (op, oq, nq) {
                if op.migrated_to != Pubkey::default() || self.transferred.contains(ok) {
                    self.r.violate("C16", "C16/TransferAccount/second-transfer-from-same-account", format!("old {}", ok));
                }
                self.transferred.insert(*ok);
                let old_left = oq.lending_account.balances.iter().any(|b| b.active != 0);
                let moved = nq.lending_account.balances == op.lending_account.balances;
                if old_left || !moved || oq.account_flags & ACCOUNT_DISABLED == 0 || &oq.migrated_to != nk {
                    self.r.violate("C16", "C16/TransferAccount/positions-not-moved-exactly-once", format!("old {} new {} old_left {} moved {} old_flags {:#b}", ok, nk, old_left, moved, oq.account_flags));
                }
            }
        }
        let _ = w;
    }
    /// Moving an account does not rehabilitate it: an account disabled by a bankruptcy stays disabled
    /// at its new address (C07: the bankrupt account is disabled; C16: a disabled account can no
    /// longer act).
    fn disabled_survives_transfer(&mut self, info: &IxInfo) {
        if !matches!(info.kind, Kind::TransferAccount | Kind::TransferAccountPda) || info.accts.len() < 2 {
            return;
        }
        let (ok, op, _) = &info.accts[0];
        let (nk, _, nq) = &info.accts[1];
        if let (Some(op), Some(nq)) = (op, nq) {
            if op.account_flags & ACCOUNT_DISABLED != 0 && op.migrated_to == Pubkey::default() {
                self.r.eval();
                self.r.count("C16.transfers_of_disabled_accounts");
                if nq.account_flags & ACCOUNT_DISABLED == 0 {
                    for prop in ["C07", "C16"] {
                        self.r.violate(prop, &format!("{}/{}/disabled-account-re-enabled-by-moving-it", prop, info.kind.name()), format!("old {} (flags {:#b}) -> new {} (flags {:#b})", ok, op.account_flags, nk, nq.account_flags));
                    }
                }
            }
        }
    }
    fn c16_structure(&mut self, ak: &Pubkey, a: &MarginfiAccount, ctx: Option<(&IxView, &IxInfo)>) {
        self.r.eval();
        let act: Vec<&Balance> = a.lending_account.balances.iter().filter(|b| b.active != 0).collect();
        self.r.max("C16.max_active_positions", act.len() as f64);
        let kindname = ctx.map(|(_, i)| i.kind.name()).unwrap_or("commit");
        let mut seen = HashSet::new();
        let (mut staked, mut dflt, mut integ) = (false, false, 0);
        let mut tags = vec![];
        for (i, b) in act.iter().enumerate() {
            if !seen.insert(b.bank_pk) {
                self.r.violate("C16", &format!("C16/{}/two-positions-one-bank", kindname), format!("account {} bank {}", ak, b.bank_pk));
            }
            if w_(&b.asset_shares) >= one() && w_(&b.liability_shares) >= one() {
                self.r.violate("C16", &format!("C16/{}/both-sides-non-dust", kindname), format!("account {} bank {}", ak, b.bank_pk));
            }
            if i > 0 && act[i - 1].bank_pk <= b.bank_pk {
                self.r.violate("C16", &format!("C16/{}/positions-not-sorted-descending", kindname), format!("account {}: {} then {}", ak, act[i - 1].bank_pk, b.bank_pk));
            }
            match b.bank_asset_tag {
                2 => staked = true,
                0 => dflt = true,
                3 | 4 | 5 => {
                    dflt = true;
                    integ += 1
                }
                _ => {}
            }
            tags.push(b.bank_asset_tag);
            let key = (*ak, b.bank_pk);
            match self.tag_at_open.get(&key) {
                Some(t) if *t != b.bank_asset_tag => {
                    self.r.violate("C16", &format!("C16/{}/position-tag-changed", kindname), format!("account {} bank {}: {} -> {}", ak, b.bank_pk, t, b.bank_asset_tag));
                }
                Some(_) => {}
                None => {
                    // opened now: the tag must be the bank's tag at this moment
                    // (a transfer moves existing positions with the tags they were opened with)
                    if let Some((v, _)) = ctx.filter(|(_, i)| !matches!(i.kind, Kind::TransferAccount | Kind::TransferAccountPda)) {
                        if let Some(bank) = v.post(&b.bank_pk).and_then(bank_of) {
                            if bank.config.asset_tag != b.bank_asset_tag {
                                self.r.violate("C16", &format!("C16/{}/position-opened-with-wrong-tag", kindname), format!("account {} bank {}: bank tag {} position tag {}", ak, b.bank_pk, bank.config.asset_tag, b.bank_asset_tag));
                            }
                        }
                    }
                    self.tag_at_open.insert(key, b.bank_asset_tag);
                }
            }
        }
        // forget positions that were closed so that a re-open records the tag afresh
        self.tag_at_open.retain(|(a2, bk), _| a2 != ak || seen.contains(bk));
        if staked && dflt {
            self.r.violate("C16", &format!("C16/{}/staked-mixed-with-default-class", kindname), format!("account {} tags {:?}", ak, tags));
        }
        if integ > 8 {
            self.r.violate("C16", &format!("C16/{}/too-many-integration-positions", kindname), format!("account {}: {}", ak, integ));
        }
        tags.sort();
        tags.dedup();
        self.r.distinct(&(kindname, act.len(), tags, a.account_flags));
        // holes (inactive slot before an active one) are tolerated by the engine; report them
        let mut hole = false;
        let mut seen_inactive = false;
        for b in a.lending_account.balances.iter() {
            if b.active == 0 {
                seen_inactive = true;
            } else if seen_inactive {
                hole = true;
            }
        }
        if hole {
            self.r.count("C16.accounts_with_inactive_slot_before_active_one");
        }
    }
    fn c16_global(&mut self, w: &World) {
        let keys: Vec<(Pubkey, MarginfiAccount)> = w.shadow.iter().filter(|(_, a)| a.owner == MFI).filter_map(|(k, a)| acct_of(&a.data).map(|x| (*k, x))).collect();
        for (k, a) in keys {
            self.c16_structure(&k, &a, None);
        }
    }

    // ------------------------------------------------------------------ C17
    fn c17(&mut self, w: &World, v: &IxView, info: &IxInfo) {
        let _ = (w, v);
        let venue_dep = matches!(info.kind, Kind::KaminoDeposit | Kind::SolendDeposit | Kind::DriftDeposit);
        if !matches!(info.kind, Kind::Deposit | Kind::Withdraw | Kind::Borrow) && !venue_dep {
            return;
        }
        let (bk, pre, post) = match info.banks.first() {
            Some((k, Some(a), Some(b))) => (k, a, b),
            _ => return,
        };
        let (qp, qq) = (BankQ::of(pre), BankQ::of(post));
        self.r.eval();
        let lim_class = |l: u64| if l == 0 { 0 } else if l == 1 { 1 } else if l == u64::MAX { 3 } else { 2 };
        match info.kind {
            // a deposit through a pass-through instruction is a deposit like any other: the cap holds
            Kind::KaminoDeposit | Kind::SolendDeposit | Kind::DriftDeposit => {
                let lim = post.config.deposit_limit;
                let grew = qq.tas > qp.tas;
                self.r.distinct(&(info.kind.name(), lim_class(lim), grew));
                if lim != u64::MAX && grew {
                    self.r.count("C17.venue_deposits_under_an_active_cap");
                    // a Drift bank books scaled balances of nine decimals while its limit is written
                    // in the mint's native units: the limit in booking units
                    let lim_units = if info.kind == Kind::DriftDeposit { ru(lim as u128) * ru(10u128.pow(9)) / ru(10u128.pow(post.mint_decimals as u32)) } else { ru(lim as u128) };
                    let margin = lim_units - &qq.d;
                    self.r.min("C17.min_venue_deposit_headroom_units", to_f64(&margin));
                    if !margin.is_positive() {
                        self.r.violate("C17", &format!("C17/{}/deposits-at-or-above-limit", info.kind.name()), format!("bank {}: deposits {} limit {}", bk, show(&qq.d), lim));
                    }
                }
            }
            Kind::Deposit => {
                let lim = post.config.deposit_limit;
                let grew = qq.tas > qp.tas;
                self.r.distinct(&("Deposit", lim_class(lim), grew, arg_opt_bool(&v.ev.data, 16) == Some(true), qq.asv != one()));
                if lim != u64::MAX && grew {
                    let margin = ru(lim as u128) - &qq.d;
                    self.r.min("C17.min_deposit_headroom_units", to_f64(&margin));
                    if !margin.is_positive() {
                        self.r.violate("C17", "C17/Deposit/deposits-at-or-above-limit", format!("bank {}: deposits {} limit {}", bk, show(&qq.d), lim));
                    }
                }
                if arg_opt_bool(&v.ev.data, 16) == Some(true) {
                    self.r.count("C17.up_to_limit_deposits_accepted");
                }
            }
            Kind::Borrow => {
                let lim = post.config.borrow_limit;
                let grew = qq.tls > qp.tls;
                self.r.distinct(&("Borrow", lim_class(lim), grew, false, qq.lsv != one()));
                if lim != u64::MAX && grew {
                    let margin = ru(lim as u128) - &qq.l;
                    self.r.min("C17.min_borrow_headroom_units", to_f64(&margin));
                    if !margin.is_positive() {
                        self.r.violate("C17", "C17/Borrow/debt-at-or-above-limit", format!("bank {}: debt {} limit {}", bk, show(&qq.l), lim));
                    }
                }
            }
            _ => {}
        }
        if matches!(info.kind, Kind::Withdraw | Kind::Borrow) {
            let gap = &qq.d - &qq.l;
            self.r.min("C17.min_deposits_minus_debt_units", to_f64(&gap));
            self.r.distinct(&(info.kind.name(), "util", (to_f64(&(&qq.l / (&qq.d + ulp()))) * 20.0) as i64));
            if gap < -(ulp() * ri(2)) {
                self.r.violate("C17", &format!("C17/{}/debt-exceeds-deposits", info.kind.name()), format!("bank {}: deposits {} debt {}", bk, show(&qq.d), show(&qq.l)));
            }
        }
        self.r.sample_kind(info.kind.name(), json!({"bank": bk.to_string(), "deposits": show(&qq.d), "debt": show(&qq.l), "deposit_limit": post.config.deposit_limit.to_string(), "borrow_limit": post.config.borrow_limit.to_string()}));
    }
}

/// Allowance for the value identities across an accrual: every rate (base, lending, borrowing, fee)
/// and the utilisation are truncated to the 2^-48 grid, so value deltas carry
/// (deposits + debt) * years * few ulps, plus one truncation per share-value update (totals * ulp)
/// and per fee bucket (seconds * ulp).
pub fn accrual_allowance(qp: &BankQ, qq: &BankQ, dt: i64) -> Rat {
    let years = ri(dt as i128) / ri(31_536_000);
    let mag = rmax(&qp.d, &qq.d) + rmax(&qp.l, &qq.l);
    let shares = rmax(&qp.tas, &qq.tas) + rmax(&qp.tls, &qq.tls);
    (mag * (one() + years) * ri(32) + shares * ri(8) + ri(1024 * (dt as i128 + 2))) * ulp()
}

fn w_(x: &WrappedI80F48) -> Rat {
    w(x)
}
fn w_or1(x: &WrappedI80F48) -> Rat {
    let v = w(x);
    if v.is_zero() {
        one()
    } else {
        v
    }
}

/// Index of the bank account(s) among the declared (non-remaining) accounts of the instructions
/// that transact with a bank, in the order of the program's `Accounts` structs.
fn declared_bank_slots(kind: Kind) -> &'static [usize] {
    match kind {
        Kind::Deposit | Kind::Withdraw | Kind::Borrow | Kind::Repay | Kind::CloseBalance => &[3],
        Kind::AccrueInterest => &[1],
        Kind::HandleBankruptcy => &[2],
        Kind::Liquidate => &[1, 2],
        _ => &[],
    }
}
