//! Chain rig: Agave bank + BanksClient in process, marginfi registered as a native processor.
use solana_sdk::commitment_config::CommitmentLevel;
use crate::tap::{self, TapEvent};
use solana_program_test::{processor, ProgramTest, ProgramTestContext};
use solana_sdk::{
    account::{Account, AccountSharedData},
    clock::Clock,
    compute_budget::ComputeBudgetInstruction,
    instruction::Instruction,
    message::Message,
    pubkey::Pubkey,
    signature::{Keypair, Signer},
    transaction::{Transaction, TransactionError},
};
use std::collections::HashMap;

#[derive(Debug, Clone)]
pub struct TxOut {
    pub result: Result<(), TransactionError>,
    pub events: Vec<TapEvent>,
    pub simulated: bool,
}
impl TxOut {
    pub fn ok(&self) -> bool {
        self.result.is_ok()
    }
    /// custom program error code of the failing instruction, if any
    pub fn custom_code(&self) -> Option<u32> {
        match &self.result {
            Err(TransactionError::InstructionError(_, solana_sdk::instruction::InstructionError::Custom(c))) => Some(*c),
            _ => None,
        }
    }
    pub fn failing_ix(&self) -> Option<u8> {
        match &self.result {
            Err(TransactionError::InstructionError(i, _)) => Some(*i),
            _ => None,
        }
    }
    pub fn err_string(&self) -> String {
        match &self.result {
            Ok(()) => "ok".into(),
            Err(e) => format!("{:?}", e),
        }
    }
}

/// Request context with a deadline far beyond tarpc's default of ten seconds: on a loaded machine a
/// transaction may wait that long for a core, and a transport timeout is not an observation.
/// Account-lock limit of the runtime with every feature active (`increase_tx_account_lock_limit`).
const MAX_TX_ACCOUNT_LOCKS: usize = 128;

fn long_ctx() -> tarpc::context::Context {
    let mut c = tarpc::context::current();
    let secs = std::env::var("VERIF_TX_DEADLINE_S").ok().and_then(|v| v.parse().ok()).unwrap_or(1800u64);
    c.deadline = std::time::SystemTime::now() + std::time::Duration::from_secs(secs);
    c
}

pub struct Chain {
    pub ctx: ProgramTestContext,
    pub payer: Keypair,
    nonce: u64,
    pub clock: Clock,
    pub tx_sent: u64,
    pub tx_sim: u64,
}

pub fn kp(seed: u64, tag: u64) -> Keypair {
    // deterministic keypairs: 32-byte seed from (seed, tag)
    let mut s = [0u8; 32];
    s[..8].copy_from_slice(&seed.to_le_bytes());
    s[8..16].copy_from_slice(&tag.to_le_bytes());
    s[16..24].copy_from_slice(&(seed ^ 0x9E37_79B9_7F4A_7C15).wrapping_mul(tag | 1).to_le_bytes());
    s[24..32].copy_from_slice(b"mfverif!");
    solana_sdk::signer::keypair::keypair_from_seed(&s).unwrap()
}

pub const JUP: Pubkey = solana_sdk::pubkey!("JUP6LkbZbjS1jKKwapdHNy74zcZ3tLUZoi5QNyVTaV4");
pub const FOREIGN_PROG: Pubkey = solana_sdk::pubkey!("Fore1gnProgram11111111111111111111111111111");
/// a do-nothing program at an id the receivership validator allows (Titan) and at a foreign id
pub const TITAN: Pubkey = solana_sdk::pubkey!("T1TANpTeScyeqVzzgNViGDNrkQ6qHz9KrSBS4aNXvGT");
pub const NOOP_PROG: Pubkey = solana_sdk::pubkey!("NoopProgram11111111111111111111111111111111");

impl Chain {
    pub async fn start(seed: u64, extra_accounts: Vec<(Pubkey, Account)>) -> Chain {
        let mut pt = ProgramTest::default();
        pt.prefer_bpf(false);
        pt.add_program("marginfi", marginfi::ID, processor!(tap::marginfi_entry));
        // generic CPI proxy at one of the program ids receivership allows, and at a foreign id
        pt.add_program("jupproxy", JUP, processor!(tap::proxy_entry));
        pt.add_program("foreignproxy", FOREIGN_PROG, processor!(tap::proxy_entry));
        pt.add_program("mocks", mocks::ID, processor!(tap::mocks_entry));
        pt.add_program("titan_noop", TITAN, processor!(tap::noop_entry));
        pt.add_program("noop", NOOP_PROG, processor!(tap::noop_entry));
        // stateful venue stand-ins at the venue program ids (see venue.rs)
        pt.add_program("kamino_standin", crate::venue::KAMINO, processor!(crate::venue::kamino_entry));
        pt.add_program("solend_standin", crate::venue::SOLEND, processor!(crate::venue::solend_entry));
        pt.add_program("drift_standin", crate::venue::DRIFT, processor!(crate::venue::drift_entry));
        let payer = kp(seed, 0xFEE);
        pt.add_account(
            payer.pubkey(),
            Account { lamports: 1_000_000_000_000_000_000, data: vec![], owner: solana_sdk::system_program::ID, executable: false, rent_epoch: 0 },
        );
        for (k, a) in extra_accounts {
            pt.add_account(k, a);
        }
        let ctx = pt.start_with_context().await;
        let clock: Clock = {
            let a = ctx.banks_client.get_account_with_commitment_and_context(long_ctx(), solana_sdk::sysvar::clock::id(), CommitmentLevel::default()).await.unwrap().expect("clock sysvar");
            solana_sdk::account::from_account(&a).expect("clock")
        };
        Chain { ctx, payer, nonce: 0, clock, tx_sent: 0, tx_sim: 0 }
    }

    fn build(&mut self, ixs: &[Instruction], signers: &[&Keypair], bh: solana_sdk::hash::Hash) -> Transaction {
        self.nonce += 1;
        let mut all = Vec::with_capacity(ixs.len() + 1);
        all.push(ComputeBudgetInstruction::set_compute_unit_price(self.nonce));
        all.extend_from_slice(ixs);
        let msg = Message::new(&all, Some(&self.payer.pubkey()));
        let need = &msg.account_keys[..msg.header.num_required_signatures as usize];
        let mut s: Vec<&Keypair> = vec![&self.payer];
        for k in signers {
            let pk = k.pubkey();
            if pk != self.payer.pubkey() && need.contains(&pk) && !s.iter().any(|x| x.pubkey() == pk) {
                s.push(k);
            }
        }
        // a missing signer must surface as an error result, not a harness panic
        let mut tx = Transaction::new_unsigned(msg);
        let _ = tx.try_partial_sign(&s, bh);
        tx
    }

    /// Index shift between the caller's instruction list and the transaction (leading nonce ix).
    pub const IX_SHIFT: usize = 1;

    pub async fn send(&mut self, ixs: &[Instruction], signers: &[&Keypair]) -> TxOut {
        let bh = self.latest_blockhash().await;
        let tx = self.build(ixs, signers, bh);
        let _ = tap::drain();
        self.tx_sent += 1;
        if !tx.is_signed() {
            return TxOut { result: Err(TransactionError::SignatureFailure), events: vec![], simulated: false };
        }
        if tx.message.account_keys.len() > MAX_TX_ACCOUNT_LOCKS {
            // the runtime drops such a transaction when it takes the account locks and records no
            // status for it (the banks server would poll for one for ever)
            return TxOut { result: Err(TransactionError::TooManyAccountLocks), events: vec![], simulated: false };
        }
        let (n_keys, n_ix) = (tx.message.account_keys.len(), tx.message.instructions.len());
        let progs: Vec<String> = tx.message.instructions.iter().map(|i| format!("{}:{}", tx.message.account_keys[i.program_id_index as usize], i.data.iter().take(8).map(|b| format!("{:02x}", b)).collect::<String>())).collect();
        let r = match self.ctx.banks_client.process_transaction_with_commitment_and_context(long_ctx(), tx, CommitmentLevel::default()).await {
            Ok(None) => Err(solana_program_test::BanksClientError::ClientError("invalid blockhash or fee-payer")),
            Ok(Some(Ok(()))) => Ok(()),
            Ok(Some(Err(e))) => Err(solana_program_test::BanksClientError::TransactionError(e)),
            Err(e) => Err(e),
        };
        let events = tap::drain();
        let result = match r {
            Ok(()) => Ok(()),
            Err(solana_program_test::BanksClientError::TransactionError(e)) => Err(e),
            Err(solana_program_test::BanksClientError::SimulationError { err, .. }) => Err(err),
            Err(e) => panic!("harness transport error: {:?} (transaction with {} account keys, {} instructions, programs {:?})", e, n_keys, n_ix, progs),
        };
        TxOut { result, events, simulated: false }
    }

    pub async fn simulate(&mut self, ixs: &[Instruction], signers: &[&Keypair]) -> TxOut {
        let bh = self.latest_blockhash().await;
        let tx = self.build(ixs, signers, bh);
        let _ = tap::drain();
        self.tx_sim += 1;
        if !tx.is_signed() {
            return TxOut { result: Err(TransactionError::SignatureFailure), events: vec![], simulated: true };
        }
        if tx.message.account_keys.len() > MAX_TX_ACCOUNT_LOCKS {
            return TxOut { result: Err(TransactionError::TooManyAccountLocks), events: vec![], simulated: true };
        }
        let r = self.ctx.banks_client.simulate_transaction_with_commitment_and_context(long_ctx(), tx, CommitmentLevel::default()).await.expect("simulate transport");
        let events = tap::drain();
        let result = r.result.unwrap_or(Ok(()));
        TxOut { result, events, simulated: true }
    }

    pub async fn get(&mut self, k: &Pubkey) -> Option<Account> {
        self.ctx.banks_client.get_account_with_commitment_and_context(long_ctx(), *k, CommitmentLevel::default()).await.unwrap()
    }

    pub async fn rent(&mut self) -> solana_sdk::rent::Rent {
        let a = self.get(&solana_sdk::sysvar::rent::id()).await.expect("rent sysvar");
        solana_sdk::account::from_account(&a).expect("rent")
    }

    async fn latest_blockhash(&mut self) -> solana_sdk::hash::Hash {
        self.ctx.banks_client.get_latest_blockhash_with_commitment_and_context(long_ctx(), CommitmentLevel::default()).await.unwrap().expect("blockhash").0
    }

    pub async fn get_many(&mut self, keys: &[Pubkey]) -> HashMap<Pubkey, Account> {
        let mut m = HashMap::new();
        for k in keys {
            if let Some(a) = self.get(k).await {
                m.insert(*k, a);
            }
        }
        m
    }

    pub fn set_account(&mut self, k: &Pubkey, a: Account) {
        self.ctx.set_account(k, &AccountSharedData::from(a));
    }

    /// Time never moves backwards (as on chain).
    pub fn set_time(&mut self, t: i64) {
        assert!(t >= self.clock.unix_timestamp, "clock must not go backwards");
        self.clock.unix_timestamp = t;
        self.ctx.set_sysvar(&self.clock);
    }
    pub fn advance(&mut self, dt: i64) {
        let t = self.clock.unix_timestamp + dt;
        self.set_time(t);
    }
    pub fn set_clock_slot(&mut self, slot: u64) {
        self.clock.slot = slot;
        self.ctx.set_sysvar(&self.clock);
    }
    /// the next epoch begins (what the token program keys scheduled transfer-fee changes on)
    pub fn advance_epoch(&mut self) {
        self.clock.epoch += 1;
        self.ctx.set_sysvar(&self.clock);
    }
    pub fn now(&self) -> i64 {
        self.clock.unix_timestamp
    }
}
