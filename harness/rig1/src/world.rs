//! Deterministic closed world: the harness creates every account itself and therefore knows the
//! complete key set. Oracle accounts and the clock are written by the harness.
use crate::chain::{kp, Chain, TxOut};
use crate::ix::{self, BankKeys, Roles};
use crate::state::*;
use anchor_lang::{AnchorSerialize, Discriminator};
use anchor_spl::token_2022::spl_token_2022 as t22;
use fixed::types::I80F48;
use marginfi_type_crate::types::*;
use solana_sdk::{
    account::Account,
    instruction::{AccountMeta, Instruction},
    program_pack::Pack,
    pubkey::Pubkey,
    signature::{Keypair, Signer},
    system_instruction,
};

pub const PYTH_OWNER: Pubkey = solana_sdk::pubkey!("rec5EKMGg6MxZYaMdyBfgwp4d5rB9T1VQH5pJv5LtFJ");
pub const SWB_OWNER: Pubkey = solana_sdk::pubkey!("SBondMDrcV3K4kxZR1HNVT7osZxAHVHgYXL5Ze1oMUv");
pub const SPL_SINGLE_POOL: Pubkey = solana_sdk::pubkey!("SVSPxpvHdN29nkVg9rPapPNDddN5DipNLRUFhyjFThE");

#[derive(Clone, Copy, Debug, PartialEq, Eq)]
pub enum TokKind {
    Classic,
    T22,
    T22Fee { bps: u16, max: u64 },
}
#[derive(Debug)]
pub struct MintD {
    pub key: Pubkey,
    pub decimals: u8,
    pub kind: TokKind,
}
impl MintD {
    pub fn program(&self) -> Pubkey {
        match self.kind {
            TokKind::Classic => spl_token::ID,
            _ => t22::ID,
        }
    }
    pub fn is_t22(&self) -> bool {
        self.kind != TokKind::Classic
    }
}

#[derive(Clone, Copy, Debug)]
pub struct PythPx {
    pub price: i64,
    pub conf: u64,
    pub ema: i64,
    pub ema_conf: u64,
    pub expo: i32,
    pub publish_time: i64,
    /// 0 = Full, n>0 = Partial{n}
    pub partial: u8,
}
impl PythPx {
    pub fn simple(price: i64, expo: i32, t: i64) -> PythPx {
        PythPx { price, conf: 0, ema: price, ema_conf: 0, expo, publish_time: t, partial: 0 }
    }
}
pub fn pyth_account_data(feed: &Pubkey, p: &PythPx) -> Vec<u8> {
    use pyth_solana_receiver_sdk::price_update::*;
    let pu = PriceUpdateV2 {
        write_authority: Pubkey::default(),
        verification_level: if p.partial == 0 { VerificationLevel::Full } else { VerificationLevel::Partial { num_signatures: p.partial } },
        price_message: PriceFeedMessage {
            feed_id: feed.to_bytes(),
            price: p.price,
            conf: p.conf,
            exponent: p.expo,
            publish_time: p.publish_time,
            prev_publish_time: p.publish_time,
            ema_price: p.ema,
            ema_conf: p.ema_conf,
        },
        posted_slot: 1,
    };
    let mut data = vec![];
    data.extend_from_slice(PriceUpdateV2::DISCRIMINATOR);
    pu.serialize(&mut data).unwrap();
    // real accounts are allocated with space for the Partial variant
    data.resize(PriceUpdateV2::LEN.max(data.len()), 0);
    data
}
#[derive(Clone, Copy, Debug)]
pub struct SwbPx {
    pub value: i128,
    pub std_dev: i128,
    pub last_update: i64,
}
pub fn swb_account_data(p: &SwbPx) -> Vec<u8> {
    use switchboard_on_demand::PullFeedAccountData;
    let n = std::mem::size_of::<PullFeedAccountData>();
    let mut data = vec![0u8; 8 + n];
    data[..8].copy_from_slice(&<PullFeedAccountData as switchboard_on_demand::Discriminator>::DISCRIMINATOR);
    let o_ts = std::mem::offset_of!(PullFeedAccountData, last_update_timestamp);
    let o_res = std::mem::offset_of!(PullFeedAccountData, result);
    data[8 + o_ts..8 + o_ts + 8].copy_from_slice(&p.last_update.to_le_bytes());
    data[8 + o_res..8 + o_res + 16].copy_from_slice(&p.value.to_le_bytes());
    data[8 + o_res + 16..8 + o_res + 32].copy_from_slice(&p.std_dev.to_le_bytes());
    data
}

#[derive(Clone, Debug)]
pub enum OracleD {
    None,
    Pyth(Pubkey),
    Swb(Pubkey),
    Fixed,
    Staked { oracle: Pubkey, lst_mint: Pubkey, sol_pool: Pubkey },
    /// Kamino pass-through bank: Pyth price account + venue reserve (exchange rate)
    Venue { oracle: Pubkey, reserve: Pubkey },
    /// same with a Switchboard price account
    VenueSwb { oracle: Pubkey, reserve: Pubkey },
}
impl OracleD {
    /// accounts that follow the bank in the risk-engine remaining accounts
    pub fn accounts(&self) -> Vec<Pubkey> {
        match self {
            OracleD::None | OracleD::Fixed => vec![],
            OracleD::Pyth(k) | OracleD::Swb(k) => vec![*k],
            OracleD::Staked { oracle, lst_mint, sol_pool } => vec![*oracle, *lst_mint, *sol_pool],
            OracleD::Venue { oracle, reserve } | OracleD::VenueSwb { oracle, reserve } => vec![*oracle, *reserve],
        }
    }
}

#[derive(Debug)]
pub struct BankD {
    pub key: Pubkey,
    pub group: usize,
    pub mint: usize,
    pub oracle: OracleD,
    pub k: BankKeys,
    /// venue-side accounts of a Kamino pass-through bank
    pub venue: Option<ix::VenueKeys>,
}
pub struct UserD {
    pub kp: Keypair,
    /// token account per mint index
    pub tas: Vec<Pubkey>,
}
pub struct AcctD {
    pub key: Pubkey,
    pub group: usize,
    pub user: usize,
}
pub struct GroupD {
    pub key: Pubkey,
    pub admin: Keypair,
    pub emode: Keypair,
    pub curve: Keypair,
    pub limit: Keypair,
    pub emissions: Keypair,
    pub metadata: Keypair,
    pub risk: Keypair,
}
impl GroupD {
    pub fn roles(&self) -> Roles {
        Roles { admin: self.admin.pubkey(), emode: self.emode.pubkey(), curve: self.curve.pubkey(), limit: self.limit.pubkey(), emissions: self.emissions.pubkey(), metadata: self.metadata.pubkey(), risk: self.risk.pubkey() }
    }
}

pub struct World {
    pub chain: Chain,
    pub seed: u64,
    tag: u64,
    pub fee_admin: Keypair,
    pub fee_wallet: Keypair,
    pub groups: Vec<GroupD>,
    pub mints: Vec<MintD>,
    pub banks: Vec<BankD>,
    pub users: Vec<UserD>,
    pub accts: Vec<AcctD>,
    pub shadow: Shadow,
    /// oracle parameters last written by the harness (convenience; monitors decode bytes)
    pub pyth: std::collections::HashMap<Pubkey, PythPx>,
    pub swb: std::collections::HashMap<Pubkey, SwbPx>,
    /// images of the writable accounts of the last observed transaction before it executed
    pub last_pre: Shadow,
    /// keep venue reserves refreshed to the current slot whenever oracles are refreshed
    pub venue_autorefresh: bool,
    /// when set, the next pass-through bank added uses a Switchboard price account with this value
    /// (the *SwitchboardPull variant of its oracle setup) instead of the Pyth one
    pub venue_swb_next: Option<SwbPx>,
    /// bank-creating transactions sent during set-up, with the closed world as it was just before
    /// each of them; they are shown to the monitors at the next monitored execution
    pub creation_journal: Vec<(Vec<Instruction>, TxOut, Shadow)>,
    /// when set, bank-creating instructions name this key as the group admin and are signed by it
    pub create_as: Option<Keypair>,
    /// when set, every monitored execution is preceded by simulations in which each known identity
    /// among the signers is replaced by this funded key that holds no role anywhere
    pub impostor: Option<Keypair>,
}

pub fn wi(x: f64) -> WrappedI80F48 {
    I80F48::from_num(x).into()
}
pub fn wbitsv(bits: i128) -> WrappedI80F48 {
    WrappedI80F48 { value: bits.to_le_bytes() }
}
pub fn clone_kp(k: &Keypair) -> Keypair {
    k.insecure_clone()
}

pub struct FeeCfg {
    pub bank_init_fee: u32,
    pub liq_flat_fee: u32,
    pub program_fee_fixed: f64,
    pub program_fee_rate: f64,
    pub liq_max_fee: f64,
}
impl Default for FeeCfg {
    fn default() -> Self {
        FeeCfg { bank_init_fee: 0, liq_flat_fee: 0, program_fee_fixed: 0.0, program_fee_rate: 0.0, liq_max_fee: 0.0 }
    }
}

impl World {
    pub fn next_kp(&mut self) -> Keypair {
        self.tag += 1;
        kp(self.seed, self.tag)
    }

    pub async fn new(seed: u64, start_time: i64, fee: FeeCfg) -> World {
        let chain = Chain::start(seed, vec![]).await;
        let mut w = World {
            chain,
            seed,
            tag: 1000,
            fee_admin: kp(seed, 1),
            fee_wallet: kp(seed, 2),
            groups: vec![],
            mints: vec![],
            banks: vec![],
            users: vec![],
            accts: vec![],
            shadow: Shadow::new(),
            pyth: Default::default(),
            swb: Default::default(),
            last_pre: Shadow::new(),
            venue_autorefresh: true,
            venue_swb_next: None,
            creation_journal: vec![],
            create_as: None,
            impostor: None,
        };
        w.chain.set_time(start_time.max(w.chain.now()));
        let p = w.chain.payer.pubkey();
        let fa = w.fee_admin.pubkey();
        let fw = w.fee_wallet.pubkey();
        let ixs = vec![
            system_instruction::transfer(&p, &fa, 1_000_000_000_000),
            system_instruction::transfer(&p, &fw, 1_000_000_000),
            ix::init_fee_state(p, fa, fw, fee.bank_init_fee, fee.liq_flat_fee, wi(fee.program_fee_fixed), wi(fee.program_fee_rate), wi(fee.liq_max_fee)),
        ];
        let r = w.raw_send(&ixs, &[]).await;
        assert!(r.ok(), "fee state init failed: {}", r.err_string());
        w
    }

    /// turn on the impostor probes (see `impostor_probes`): a funded system account without any role
    pub async fn enable_impostor(&mut self) {
        let k = self.next_kp();
        let p = self.chain.payer.pubkey();
        let r = self.raw_send(&[system_instruction::transfer(&p, &k.pubkey(), 100_000_000_000)], &[]).await;
        assert!(r.ok(), "funding the impostor failed: {}", r.err_string());
        self.impostor = Some(k);
    }
    /// the key that signs bank-creating instructions as the group admin
    fn creator(&self, group: usize) -> Keypair {
        self.create_as.as_ref().map(clone_kp).unwrap_or_else(|| clone_kp(&self.groups[group].admin))
    }
    /// like `raw_send`, for bank-creating transactions: an accepted one is journalled together with
    /// the world as it was before, and judged by the monitors at the next monitored execution
    pub async fn create_send(&mut self, ixs: &[Instruction], signers: &[&Keypair]) -> TxOut {
        let pre = self.shadow.clone();
        let out = self.chain.send(ixs, signers).await;
        if out.ok() {
            self.refresh_for(ixs).await;
            self.creation_journal.push((ixs.to_vec(), out.clone(), pre));
        }
        out
    }
    /// send + refresh shadow for every writable account of the transaction (no monitors)
    pub async fn raw_send(&mut self, ixs: &[Instruction], signers: &[&Keypair]) -> TxOut {
        let out = self.chain.send(ixs, signers).await;
        if out.ok() {
            self.refresh_for(ixs).await;
        }
        out
    }
    pub async fn refresh_for(&mut self, ixs: &[Instruction]) {
        let mut keys: Vec<Pubkey> = vec![];
        for i in ixs {
            for m in &i.accounts {
                if m.is_writable && !keys.contains(&m.pubkey) {
                    keys.push(m.pubkey);
                }
            }
        }
        self.refresh(&keys).await;
    }
    pub async fn refresh(&mut self, keys: &[Pubkey]) {
        for k in keys {
            match self.chain.get(k).await {
                Some(a) => {
                    self.shadow.insert(*k, Acc::from(&a));
                }
                None => {
                    self.shadow.remove(k);
                }
            }
        }
    }
    pub fn plant(&mut self, k: &Pubkey, a: Account) {
        self.shadow.insert(*k, Acc::from(&a));
        self.chain.set_account(k, a);
    }

    // ------------------------------------------------------------ oracles
    pub fn set_pyth(&mut self, key: &Pubkey, p: PythPx) {
        self.set_pyth_owned(key, p, PYTH_OWNER);
    }
    pub fn set_pyth_owned(&mut self, key: &Pubkey, p: PythPx, owner: Pubkey) {
        let data = pyth_account_data(key, &p);
        self.pyth.insert(*key, p);
        self.plant(key, Account { lamports: 10_000_000, data, owner, executable: false, rent_epoch: 0 });
    }
    pub fn set_swb(&mut self, key: &Pubkey, p: SwbPx) {
        let data = swb_account_data(&p);
        self.swb.insert(*key, p);
        self.plant(key, Account { lamports: 10_000_000, data, owner: SWB_OWNER, executable: false, rent_epoch: 0 });
    }
    /// Rewrite publish times of all harness oracles to `now` (keeps them fresh).
    pub fn refresh_oracles(&mut self) {
        let now = self.chain.now();
        let ks: Vec<(Pubkey, PythPx)> = self.pyth.iter().map(|(k, v)| (*k, *v)).collect();
        for (k, mut p) in ks {
            p.publish_time = now;
            self.set_pyth(&k, p);
        }
        let ks: Vec<(Pubkey, SwbPx)> = self.swb.iter().map(|(k, v)| (*k, *v)).collect();
        for (k, mut p) in ks {
            p.last_update = now;
            self.set_swb(&k, p);
        }
        if self.venue_autorefresh {
            self.refresh_reserves();
        }
    }
    /// What a `refresh_reserve` of the venue does: stamp every venue reserve with the current slot.
    pub fn refresh_reserves(&mut self) {
        let slot = self.chain.clock.slot;
        let ks: Vec<(Pubkey, ix::VenueKind)> = self.banks.iter().filter_map(|b| b.venue.map(|k| (k.reserve, k.kind))).collect();
        for (k, kind) in ks {
            match kind {
                ix::VenueKind::Kamino => self.edit_reserve(&k, |r| {
                    r.slot = slot;
                    r.stale = 0;
                }),
                ix::VenueKind::Solend => self.edit_solend_reserve(&k, |r| {
                    r.last_update_slot = slot;
                    r.last_update_stale = 0;
                }),
                ix::VenueKind::Drift => {
                    let now = self.chain.now().max(0) as u64;
                    self.edit_spot_market(&k, |m| m.last_interest_ts = now)
                }
            }
        }
    }
    pub fn spot_market(&self, k: &Pubkey) -> Option<drift_mocks::state::MinimalSpotMarket> {
        self.shadow.get(k).and_then(|a| crate::venue::read_spot_market(&a.data))
    }
    pub fn edit_spot_market<F: FnOnce(&mut drift_mocks::state::MinimalSpotMarket)>(&mut self, k: &Pubkey, f: F) {
        if let Some(mut m) = self.spot_market(k) {
            f(&mut m);
            let lamports = self.shadow.get(k).map(|a| a.lamports).unwrap_or(100_000_000);
            self.plant(k, Account { lamports, data: crate::venue::spot_market_bytes(&m), owner: crate::venue::DRIFT, executable: false, rent_epoch: 0 });
        }
    }
    pub fn solend_reserve(&self, k: &Pubkey) -> Option<solend_mocks::state::SolendMinimalReserve> {
        self.shadow.get(k).and_then(|a| crate::venue::read_solend_reserve(&a.data))
    }
    pub fn edit_solend_reserve<F: FnOnce(&mut solend_mocks::state::SolendMinimalReserve)>(&mut self, k: &Pubkey, f: F) {
        if let Some(mut r) = self.solend_reserve(k) {
            f(&mut r);
            let lamports = self.shadow.get(k).map(|a| a.lamports).unwrap_or(100_000_000);
            self.plant(k, Account { lamports, data: crate::venue::solend_reserve_bytes(&r), owner: crate::venue::SOLEND, executable: false, rent_epoch: 0 });
        }
    }
    /// venue yield: the borrowed side of the reserve of bank `b` grows by `frac` of total liquidity
    pub fn venue_yield(&mut self, b: usize, frac: f64, noise: u128, whole: bool) {
        use num_traits::ToPrimitive;
        let kk = match self.banks[b].venue {
            Some(k) => k,
            None => return,
        };
        match kk.kind {
            ix::VenueKind::Kamino => self.edit_reserve(&kk.reserve, |r| {
                let tl = crate::venue::kamino_total_liq_sf(r);
                let x = (tl.to_f64().unwrap_or(0.0) * frac) as u128;
                let add = if whole { (x >> 60) << 60 } else { x | (noise & 0xFFFF_FFFF) };
                let cur = u128::from_le_bytes(r.borrowed_amount_sf);
                r.borrowed_amount_sf = cur.saturating_add(add).min(u128::MAX >> 8).to_le_bytes();
                // part of the interest is not the depositors': protocol / referrer / pending referrer fees
                let cut = add / 10;
                match noise % 4 {
                    0 => r.accumulated_protocol_fees_sf = u128::from_le_bytes(r.accumulated_protocol_fees_sf).saturating_add(cut).to_le_bytes(),
                    1 => r.accumulated_referrer_fees_sf = u128::from_le_bytes(r.accumulated_referrer_fees_sf).saturating_add(cut).to_le_bytes(),
                    2 => r.pending_referrer_fees_sf = u128::from_le_bytes(r.pending_referrer_fees_sf).saturating_add(cut).to_le_bytes(),
                    _ => {}
                }
            }),
            ix::VenueKind::Solend => self.edit_solend_reserve(&kk.reserve, |r| {
                let wad: u128 = 1_000_000_000_000_000_000;
                let tl = crate::venue::solend_total_liq_wads(r);
                let x = (tl.to_f64().unwrap_or(0.0) * frac) as u128;
                let add = if whole { (x / wad) * wad } else { x | (noise & 0xFFFF_FFFF) };
                let cur = u128::from_le_bytes(r.liquidity_borrowed_amount_wads);
                r.liquidity_borrowed_amount_wads = cur.saturating_add(add).min(u128::MAX >> 8).to_le_bytes();
                if noise % 2 == 0 {
                    let f = u128::from_le_bytes(r.liquidity_accumulated_protocol_fees_wads);
                    r.liquidity_accumulated_protocol_fees_wads = f.saturating_add(add / 10).to_le_bytes();
                }
            }),
            ix::VenueKind::Drift => self.edit_spot_market(&kk.reserve, |m| {
                // deposit interest accrues: the cumulative index grows (tokens backing it arrive through `venue_repaid`)
                let cur = u128::from_le_bytes(m.cumulative_deposit_interest);
                let add = ((cur as f64) * frac) as u128 + if whole { 0 } else { noise & 0xFFFF };
                m.cumulative_deposit_interest = cur.saturating_add(add).min(1u128 << 100).to_le_bytes();
            }),
        }
    }
    /// whole native units currently lent out by the venue reserve of bank `b`
    pub fn venue_borrowed_whole(&self, b: usize) -> u64 {
        match self.banks[b].venue {
            Some(kk) if kk.kind == ix::VenueKind::Kamino => self.reserve(&kk.reserve).map(|r| (u128::from_le_bytes(r.borrowed_amount_sf) >> 60) as u64).unwrap_or(0),
            Some(kk) if kk.kind == ix::VenueKind::Solend => self.solend_reserve(&kk.reserve).map(|r| (u128::from_le_bytes(r.liquidity_borrowed_amount_wads) / 1_000_000_000_000_000_000) as u64).unwrap_or(0),
            // Drift: what the vault is short of the deposits' current worth (interest owed by borrowers)
            Some(kk) => {
                let have = self.token(&kk.supply) as u128;
                self.spot_market(&kk.reserve)
                    .and_then(|m| {
                        let p = crate::venue::drift_precision_increase(m.decimals)?;
                        let owed = u128::from_le_bytes(m.deposit_balance).checked_mul(u128::from_le_bytes(m.cumulative_deposit_interest))? / p + 1;
                        Some(owed.saturating_sub(have).min(u64::MAX as u128) as u64)
                    })
                    .unwrap_or(0)
            }
            None => 0,
        }
    }
    /// borrowers repay the venue `x` native units: real tokens arrive in the supply vault
    pub async fn venue_repaid(&mut self, b: usize, x: u64) {
        let kk = match self.banks[b].venue {
            Some(k) => k,
            None => return,
        };
        let mi = self.banks[b].mint;
        self.mint_to(mi, kk.supply, x).await;
        match kk.kind {
            ix::VenueKind::Kamino => self.edit_reserve(&kk.reserve, |r| {
                r.available_amount = r.available_amount.saturating_add(x);
                let cur = u128::from_le_bytes(r.borrowed_amount_sf);
                r.borrowed_amount_sf = cur.saturating_sub((x as u128) << 60).to_le_bytes();
            }),
            ix::VenueKind::Solend => self.edit_solend_reserve(&kk.reserve, |r| {
                r.liquidity_available_amount = { r.liquidity_available_amount }.saturating_add(x);
                let cur = u128::from_le_bytes(r.liquidity_borrowed_amount_wads);
                r.liquidity_borrowed_amount_wads = cur.saturating_sub((x as u128) * 1_000_000_000_000_000_000).to_le_bytes();
            }),
            ix::VenueKind::Drift => {}
        }
    }
    pub fn reserve(&self, k: &Pubkey) -> Option<kamino_mocks::state::MinimalReserve> {
        self.shadow.get(k).and_then(|a| crate::venue::read_reserve(&a.data))
    }
    pub fn obligation(&self, k: &Pubkey) -> Option<kamino_mocks::state::MinimalObligation> {
        self.shadow.get(k).and_then(|a| crate::venue::read_obligation(&a.data))
    }
    pub fn edit_reserve<F: FnOnce(&mut kamino_mocks::state::MinimalReserve)>(&mut self, k: &Pubkey, f: F) {
        if let Some(mut r) = self.reserve(k) {
            f(&mut r);
            let lamports = self.shadow.get(k).map(|a| a.lamports).unwrap_or(100_000_000);
            self.plant(k, Account { lamports, data: crate::venue::reserve_bytes(&r), owner: crate::venue::KAMINO, executable: false, rent_epoch: 0 });
        }
    }

    // ------------------------------------------------------------ setup
    pub async fn add_group(&mut self) -> usize {
        let gk = self.next_kp();
        let g = GroupD { key: gk.pubkey(), admin: self.next_kp(), emode: self.next_kp(), curve: self.next_kp(), limit: self.next_kp(), emissions: self.next_kp(), metadata: self.next_kp(), risk: self.next_kp() };
        let p = self.chain.payer.pubkey();
        let mut ixs = vec![];
        for k in [&g.admin, &g.emode, &g.curve, &g.limit, &g.emissions, &g.metadata, &g.risk] {
            ixs.push(system_instruction::transfer(&p, &k.pubkey(), 100_000_000_000));
        }
        // group is created by the payer as admin, then handed to the role keys
        ixs.push(ix::group_init(g.key, p));
        ixs.push(ix::group_configure(g.key, p, g.roles(), None, None));
        let r = self.raw_send(&ixs, &[&gk]).await;
        assert!(r.ok(), "group init failed: {}", r.err_string());
        self.groups.push(g);
        self.groups.len() - 1
    }

    pub async fn add_mint(&mut self, decimals: u8, kind: TokKind) -> usize {
        let mk = self.next_kp();
        let m = mk.pubkey();
        let p = self.chain.payer.pubkey();
        let rent = self.chain.rent().await;
        let ixs = match kind {
            TokKind::Classic => vec![
                system_instruction::create_account(&p, &m, rent.minimum_balance(82), 82, &spl_token::ID),
                spl_token::instruction::initialize_mint(&spl_token::ID, &m, &p, None, decimals).unwrap(),
            ],
            TokKind::T22 => vec![
                system_instruction::create_account(&p, &m, rent.minimum_balance(82), 82, &t22::ID),
                t22::instruction::initialize_mint(&t22::ID, &m, &p, None, decimals).unwrap(),
            ],
            TokKind::T22Fee { bps, max } => {
                let len = t22::extension::ExtensionType::try_calculate_account_len::<t22::state::Mint>(&[t22::extension::ExtensionType::TransferFeeConfig]).unwrap();
                vec![
                    system_instruction::create_account(&p, &m, rent.minimum_balance(len), len as u64, &t22::ID),
                    t22::extension::transfer_fee::instruction::initialize_transfer_fee_config(&t22::ID, &m, Some(&p), Some(&p), bps, max).unwrap(),
                    t22::instruction::initialize_mint(&t22::ID, &m, &p, None, decimals).unwrap(),
                ]
            }
        };
        let r = self.raw_send(&ixs, &[&mk]).await;
        assert!(r.ok(), "mint init failed: {}", r.err_string());
        self.mints.push(MintD { key: m, decimals, kind });
        // existing users get a token account for it
        let idx = self.mints.len() - 1;
        for u in 0..self.users.len() {
            let owner = self.users[u].kp.pubkey();
            let ta = self.new_token_account(idx, owner, 0).await;
            self.users[u].tas.push(ta);
        }
        idx
    }

    pub async fn new_token_account(&mut self, mint: usize, owner: Pubkey, amount: u64) -> Pubkey {
        let tk = self.next_kp();
        let ta = tk.pubkey();
        let p = self.chain.payer.pubkey();
        let rent = self.chain.rent().await;
        let (mk, kind) = (self.mints[mint].key, self.mints[mint].kind);
        let mut ixs = match kind {
            TokKind::Classic => vec![
                system_instruction::create_account(&p, &ta, rent.minimum_balance(165), 165, &spl_token::ID),
                spl_token::instruction::initialize_account3(&spl_token::ID, &ta, &mk, &owner).unwrap(),
            ],
            TokKind::T22 => vec![
                system_instruction::create_account(&p, &ta, rent.minimum_balance(165), 165, &t22::ID),
                t22::instruction::initialize_account3(&t22::ID, &ta, &mk, &owner).unwrap(),
            ],
            TokKind::T22Fee { .. } => {
                let len = t22::extension::ExtensionType::try_calculate_account_len::<t22::state::Account>(&[t22::extension::ExtensionType::TransferFeeAmount]).unwrap();
                vec![
                    system_instruction::create_account(&p, &ta, rent.minimum_balance(len), len as u64, &t22::ID),
                    t22::instruction::initialize_account3(&t22::ID, &ta, &mk, &owner).unwrap(),
                ]
            }
        };
        if amount > 0 {
            ixs.push(self.mint_to_ix(mint, ta, amount));
        }
        let r = self.raw_send(&ixs, &[&tk]).await;
        assert!(r.ok(), "token account init failed: {}", r.err_string());
        ta
    }
    pub fn mint_to_ix(&self, mint: usize, ta: Pubkey, amount: u64) -> Instruction {
        let p = self.chain.payer.pubkey();
        let m = &self.mints[mint];
        if m.is_t22() {
            t22::instruction::mint_to(&t22::ID, &m.key, &ta, &p, &[], amount).unwrap()
        } else {
            spl_token::instruction::mint_to(&spl_token::ID, &m.key, &ta, &p, &[], amount).unwrap()
        }
    }
    pub async fn mint_to(&mut self, mint: usize, ta: Pubkey, amount: u64) {
        let ixs = vec![self.mint_to_ix(mint, ta, amount)];
        let r = self.raw_send(&ixs, &[]).await;
        assert!(r.ok(), "mint_to failed: {}", r.err_string());
    }
    /// canonical ATA (created through the real ATA program)
    pub async fn create_ata(&mut self, wallet: Pubkey, mint: usize) -> Pubkey {
        let p = self.chain.payer.pubkey();
        let (mk, prog) = (self.mints[mint].key, self.mints[mint].program());
        let ixs = vec![spl_associated_token_account::instruction::create_associated_token_account_idempotent(&p, &wallet, &mk, &prog)];
        let r = self.raw_send(&ixs, &[]).await;
        assert!(r.ok(), "ata create failed: {}", r.err_string());
        let a = ix::ata(&wallet, &mk, &prog);
        self.refresh(&[a]).await;
        a
    }

    pub async fn add_user(&mut self, fund: u64) -> usize {
        let k = self.next_kp();
        let p = self.chain.payer.pubkey();
        let r = self.raw_send(&[system_instruction::transfer(&p, &k.pubkey(), 1_000_000_000_000)], &[]).await;
        assert!(r.ok());
        let mut tas = vec![];
        for m in 0..self.mints.len() {
            tas.push(self.new_token_account(m, k.pubkey(), fund).await);
        }
        self.users.push(UserD { kp: k, tas });
        self.users.len() - 1
    }

    pub async fn add_account(&mut self, group: usize, user: usize) -> usize {
        let ak = self.next_kp();
        let auth = clone_kp(&self.users[user].kp);
        let p = self.chain.payer.pubkey();
        let ixs = vec![ix::account_init(self.groups[group].key, ak.pubkey(), auth.pubkey(), p)];
        let r = self.raw_send(&ixs, &[&ak, &auth]).await;
        assert!(r.ok(), "account init failed: {}", r.err_string());
        self.accts.push(AcctD { key: ak.pubkey(), group, user });
        self.accts.len() - 1
    }

    /// Regular bank with a Pyth push oracle (fresh oracle account planted at `price`).
    pub async fn add_bank_pyth(&mut self, group: usize, mint: usize, cfg: BankConfigCompact, px: PythPx) -> Result<usize, TxOut> {
        let oracle = self.next_kp().pubkey();
        self.set_pyth(&oracle, px);
        self.add_bank_with_oracle(group, mint, cfg, OracleD::Pyth(oracle)).await
    }
    pub async fn add_bank_swb(&mut self, group: usize, mint: usize, cfg: BankConfigCompact, px: SwbPx) -> Result<usize, TxOut> {
        let oracle = self.next_kp().pubkey();
        self.set_swb(&oracle, px);
        self.add_bank_with_oracle(group, mint, cfg, OracleD::Swb(oracle)).await
    }
    pub async fn add_bank_fixed(&mut self, group: usize, mint: usize, cfg: BankConfigCompact, price: WrappedI80F48) -> Result<usize, TxOut> {
        let idx = self.add_bank_with_oracle(group, mint, cfg, OracleD::Fixed).await?;
        let g = &self.groups[group];
        let admin = clone_kp(&g.admin);
        let ixs = vec![ix::set_fixed_price(g.key, admin.pubkey(), self.banks[idx].key, price)];
        let r = self.raw_send(&ixs, &[&admin]).await;
        if !r.ok() {
            return Err(r);
        }
        Ok(idx)
    }
    pub async fn add_bank_with_oracle(&mut self, group: usize, mint: usize, cfg: BankConfigCompact, oracle: OracleD) -> Result<usize, TxOut> {
        let bk = self.next_kp();
        let b = bk.pubkey();
        let admin = self.creator(group);
        let g = &self.groups[group];
        let gk = g.key;
        let p = self.chain.payer.pubkey();
        let m = &self.mints[mint];
        let mut ixs = vec![ix::add_bank(gk, admin.pubkey(), p, self.fee_wallet.pubkey(), m.key, b, m.program(), cfg)];
        match &oracle {
            OracleD::Pyth(o) => ixs.push(ix::configure_bank_oracle(gk, admin.pubkey(), b, OracleSetup::PythPushOracle as u8, *o, vec![ix::ro(*o)])),
            OracleD::Swb(o) => ixs.push(ix::configure_bank_oracle(gk, admin.pubkey(), b, OracleSetup::SwitchboardPull as u8, *o, vec![ix::ro(*o)])),
            _ => {}
        }
        let r = self.create_send(&ixs, &[&bk, &admin]).await;
        if !r.ok() {
            return Err(r);
        }
        let k = BankKeys::of(b);
        self.refresh(&[b, k.lv, k.iv, k.fv, gk]).await;
        self.banks.push(BankD { key: b, group, mint, oracle, k, venue: None });
        Ok(self.banks.len() - 1)
    }

    /// Staked-collateral bank over planted single-pool accounts. Returns (bank idx, mint idx).
    pub async fn add_staked_bank(&mut self, group: usize, sol_oracle: Pubkey, pool_stake_lamports: u64, lst_supply_hint: u64) -> Result<usize, TxOut> {
        use solana_sdk::stake::stake_flags::StakeFlags;
        use solana_sdk::stake::state::{Delegation, Meta, Stake, StakeStateV2};
        let _ = lst_supply_hint;
        let stake_pool = self.next_kp().pubkey();
        let lst_mint = Pubkey::find_program_address(&[b"mint", stake_pool.as_ref()], &SPL_SINGLE_POOL).0;
        let sol_pool = Pubkey::find_program_address(&[b"stake", stake_pool.as_ref()], &SPL_SINGLE_POOL).0;
        let p = self.chain.payer.pubkey();
        self.plant(&stake_pool, Account { lamports: 1_000_000_000, data: vec![1u8; 33], owner: SPL_SINGLE_POOL, executable: false, rent_epoch: 0 });
        let mut md = vec![0u8; 82];
        spl_token::state::Mint { mint_authority: solana_sdk::program_option::COption::Some(p), supply: 0, decimals: 9, is_initialized: true, freeze_authority: solana_sdk::program_option::COption::None }.pack_into_slice(&mut md);
        self.plant(&lst_mint, Account { lamports: 1_000_000_000, data: md, owner: spl_token::ID, executable: false, rent_epoch: 0 });
        let st = StakeStateV2::Stake(Meta::default(), Stake { delegation: Delegation { stake: pool_stake_lamports, ..Delegation::default() }, credits_observed: 0 }, StakeFlags::empty());
        let mut sd = bincode::serialize(&st).unwrap();
        sd.resize(200, 0);
        self.plant(&sol_pool, Account { lamports: pool_stake_lamports + 1_000_000_000, data: sd, owner: solana_sdk::stake::program::ID, executable: false, rent_epoch: 0 });
        self.mints.push(MintD { key: lst_mint, decimals: 9, kind: TokKind::Classic });
        let mint_idx = self.mints.len() - 1;
        for u in 0..self.users.len() {
            let owner = self.users[u].kp.pubkey();
            let ta = self.new_token_account(mint_idx, owner, 0).await;
            self.users[u].tas.push(ta);
        }
        let gk = self.groups[group].key;
        let (ixn, b) = ix::add_bank_permissionless(gk, p, lst_mint, sol_pool, stake_pool, 0, sol_oracle);
        let r = self.create_send(&[ixn], &[]).await;
        if !r.ok() {
            return Err(r);
        }
        let k = BankKeys::of(b);
        self.refresh(&[b, k.lv, k.iv, k.fv, gk]).await;
        self.banks.push(BankD { key: b, group, mint: mint_idx, oracle: OracleD::Staked { oracle: sol_oracle, lst_mint, sol_pool }, k, venue: None });
        Ok(self.banks.len() - 1)
    }

    /// Kamino pass-through bank over a planted reserve / obligation served by the stateful venue
    /// stand-in (`venue::kamino_entry`). `liq`/`col` are the reserve's starting supplies (exchange
    /// rate liq/col), backed by real tokens in the reserve's supply vault.
    #[allow(clippy::too_many_arguments)]
    pub async fn add_bank_kamino(&mut self, group: usize, mint: usize, cfg: marginfi::state::kamino::KaminoConfigCompact, px: PythPx, liq: u64, col: u64, seed: u64) -> Result<usize, TxOut> {
        use kamino_mocks::state::{MinimalObligation, MinimalReserve};
        let oracle = self.next_kp().pubkey();
        let swb = self.venue_swb_next.take();
        match swb {
            Some(sp) => self.set_swb(&oracle, sp),
            None => self.set_pyth(&oracle, px),
        }
        let market = self.next_kp().pubkey();
        let reserve = self.next_kp().pubkey();
        let (lma, _) = crate::venue::lending_market_authority(&market);
        let supply = self.new_token_account(mint, lma, liq).await;
        let (mk, dec, prog) = (self.mints[mint].key, self.mints[mint].decimals, self.mints[mint].program());
        let gk = self.groups[group].key;
        let admin = self.creator(group);
        let p = self.chain.payer.pubkey();
        let bank = ix::bank_pda(&gk, &mk, seed);
        let k = BankKeys::of(bank);
        let obligation = crate::venue::kamino_obligation_key(&k.lva, &market);
        let kk = ix::VenueKeys { kind: ix::VenueKind::Kamino, market, lma, reserve, obligation, supply, col_mint: self.next_kp().pubkey(), col_supply: self.next_kp().pubkey(), user_collateral: Pubkey::default() };
        let mut r: MinimalReserve = bytemuck::Zeroable::zeroed();
        r.version = 1;
        r.slot = self.chain.clock.slot;
        r.price_status = 63;
        r.lending_market = market;
        r.mint_pubkey = mk;
        r.supply_vault = supply;
        r.available_amount = liq;
        r.mint_decimals = dec as u64;
        r.token_program = prog;
        r.collateral_mint_pubkey = kk.col_mint;
        r.mint_total_supply = col;
        r.collateral_supply_vault = kk.col_supply;
        self.plant(&reserve, Account { lamports: 100_000_000, data: crate::venue::reserve_bytes(&r), owner: crate::venue::KAMINO, executable: false, rent_epoch: 0 });
        let mut cfg = cfg;
        cfg.oracle = oracle;
        cfg.oracle_setup = if swb.is_some() { OracleSetup::KaminoSwitchboardPull } else { OracleSetup::KaminoPythPush };
        let (ixn, b) = ix::add_bank_kamino(gk, admin.pubkey(), p, mk, seed, reserve, obligation, prog, cfg, vec![ix::ro(oracle), ix::ro(reserve)]);
        let out = self.create_send(&[ixn], &[&admin]).await;
        if !out.ok() {
            return Err(out);
        }
        // what `kamino_init_obligation` leaves behind at the venue: an obligation owned by the
        // bank's vault authority whose first (and only) deposit slot is the bank's reserve
        let mut o: MinimalObligation = bytemuck::Zeroable::zeroed();
        o.tag = 1;
        o.last_update_slot = self.chain.clock.slot;
        o.lending_market = market;
        o.owner = k.lva;
        o.deposits[0].deposit_reserve = reserve;
        self.plant(&obligation, Account { lamports: 100_000_000, data: crate::venue::obligation_bytes(&o), owner: crate::venue::KAMINO, executable: false, rent_epoch: 0 });
        self.refresh(&[b, k.lv, k.iv, k.fv, gk, supply]).await;
        let od = if swb.is_some() { OracleD::VenueSwb { oracle, reserve } } else { OracleD::Venue { oracle, reserve } };
        self.banks.push(BankD { key: b, group, mint, oracle: od, k, venue: Some(kk) });
        Ok(self.banks.len() - 1)
    }
    /// deposit through whatever instruction the bank's kind requires
    pub fn ix_deposit_any(&self, a: usize, b: usize, signer: Pubkey, ta: Pubkey, amount: u64) -> Instruction {
        if self.banks[b].venue.is_some() {
            self.ix_venue_deposit(a, b, signer, ta, amount)
        } else {
            self.ix_deposit(a, b, signer, ta, amount, None)
        }
    }
    pub fn ix_withdraw_any(&self, a: usize, b: usize, signer: Pubkey, ta: Pubkey, amount: u64, all: Option<bool>) -> Instruction {
        if self.banks[b].venue.is_some() {
            self.ix_venue_withdraw(a, b, signer, ta, amount, all)
        } else {
            self.ix_withdraw(a, b, signer, ta, amount, all)
        }
    }
    pub fn ix_venue_deposit(&self, a: usize, b: usize, signer: Pubkey, ta: Pubkey, amount: u64) -> Instruction {
        let bd = &self.banks[b];
        let m = self.mint_of_bank(b);
        let kk = bd.venue.as_ref().expect("venue bank");
        match kk.kind {
            ix::VenueKind::Kamino => ix::kamino_deposit(self.groups[bd.group].key, self.accts[a].key, signer, bd.key, ta, m.key, m.program(), kk, amount),
            ix::VenueKind::Solend => ix::solend_deposit(self.groups[bd.group].key, self.accts[a].key, signer, bd.key, ta, m.key, m.program(), kk, amount),
            ix::VenueKind::Drift => ix::drift_deposit(self.groups[bd.group].key, self.accts[a].key, signer, bd.key, ta, m.key, m.program(), kk, amount),
        }
    }
    pub fn ix_venue_withdraw(&self, a: usize, b: usize, signer: Pubkey, ta: Pubkey, amount: u64, all: Option<bool>) -> Instruction {
        let bd = &self.banks[b];
        let m = self.mint_of_bank(b);
        let closing = all == Some(true);
        let rem = self.risk_metas(a, None, if closing { Some(b) } else { None });
        let kk = bd.venue.as_ref().expect("venue bank");
        match kk.kind {
            ix::VenueKind::Kamino => ix::kamino_withdraw(self.groups[bd.group].key, self.accts[a].key, signer, bd.key, ta, m.key, m.program(), kk, amount, all, rem),
            ix::VenueKind::Solend => ix::solend_withdraw(self.groups[bd.group].key, self.accts[a].key, signer, bd.key, ta, m.key, m.program(), kk, amount, all, rem),
            ix::VenueKind::Drift => ix::drift_withdraw(self.groups[bd.group].key, self.accts[a].key, signer, bd.key, ta, m.key, m.program(), kk, amount, all, rem),
        }
    }
    /// Drift pass-through bank over a planted spot market / user / user stats served by `venue::drift_entry`.
    /// `cum` is the starting cumulative deposit interest (1e10 = rate 1).
    #[allow(clippy::too_many_arguments)]
    pub async fn add_bank_drift(&mut self, group: usize, mint: usize, cfg: marginfi::state::drift::DriftConfigCompact, px: PythPx, cum: u128, market_index: u16, seed: u64) -> Result<usize, TxOut> {
        use drift_mocks::state::{MinimalSpotMarket, MinimalUser, MinimalUserStats};
        let oracle = self.next_kp().pubkey();
        let swb = self.venue_swb_next.take();
        match swb {
            Some(sp) => self.set_swb(&oracle, sp),
            None => self.set_pyth(&oracle, px),
        }
        let state = self.next_kp().pubkey();
        let sm_key = self.next_kp().pubkey();
        let (signer, _) = crate::venue::drift_signer();
        let vault = self.new_token_account(mint, signer, 0).await;
        let (mk, dec, prog) = (self.mints[mint].key, self.mints[mint].decimals, self.mints[mint].program());
        let gk = self.groups[group].key;
        let admin = self.creator(group);
        let p = self.chain.payer.pubkey();
        let mut m: MinimalSpotMarket = bytemuck::Zeroable::zeroed();
        m.pubkey = sm_key;
        m.oracle = oracle;
        m.mint = mk;
        m.vault = vault;
        m.cumulative_deposit_interest = cum.to_le_bytes();
        m.cumulative_borrow_interest = cum.to_le_bytes();
        m.last_interest_ts = self.chain.now().max(0) as u64;
        m.decimals = dec as u32;
        m.market_index = market_index;
        self.plant(&sm_key, Account { lamports: 100_000_000, data: crate::venue::spot_market_bytes(&m), owner: crate::venue::DRIFT, executable: false, rent_epoch: 0 });
        let mut cfg = cfg;
        cfg.oracle = oracle;
        cfg.oracle_setup = if swb.is_some() { OracleSetup::DriftSwitchboardPull } else { OracleSetup::DriftPythPull };
        let (ixn, b) = ix::add_bank_drift(gk, admin.pubkey(), p, mk, seed, sm_key, prog, cfg, vec![ix::ro(oracle), ix::ro(sm_key)]);
        let out = self.create_send(&[ixn], &[&admin]).await;
        if !out.ok() {
            return Err(out);
        }
        let k = BankKeys::of(b);
        let user = crate::venue::drift_user_key(&k.lva);
        let stats = crate::venue::drift_user_stats_key(&k.lva);
        // what `drift_init_user` leaves behind
        let mut u: MinimalUser = bytemuck::Zeroable::zeroed();
        u.authority = k.lva;
        self.plant(&user, Account { lamports: 100_000_000, data: crate::venue::drift_user_bytes(&u), owner: crate::venue::DRIFT, executable: false, rent_epoch: 0 });
        let mut st: MinimalUserStats = bytemuck::Zeroable::zeroed();
        st.authority = k.lva;
        let mut sd = drift_mocks::state::USER_STATS_DISCRIMINATOR.to_vec();
        sd.extend_from_slice(bytemuck::bytes_of(&st));
        self.plant(&stats, Account { lamports: 100_000_000, data: sd, owner: crate::venue::DRIFT, executable: false, rent_epoch: 0 });
        let kk = ix::VenueKeys { kind: ix::VenueKind::Drift, market: state, lma: signer, reserve: sm_key, obligation: user, supply: vault, col_mint: stats, col_supply: Pubkey::default(), user_collateral: Pubkey::default() };
        self.refresh(&[b, k.lv, k.iv, k.fv, gk, vault]).await;
        let od = if swb.is_some() { OracleD::VenueSwb { oracle, reserve: sm_key } } else { OracleD::Venue { oracle, reserve: sm_key } };
        self.banks.push(BankD { key: b, group, mint, oracle: od, k, venue: Some(kk) });
        Ok(self.banks.len() - 1)
    }
    /// Solend pass-through bank over a planted reserve / obligation served by `venue::solend_entry`.
    #[allow(clippy::too_many_arguments)]
    pub async fn add_bank_solend(&mut self, group: usize, mint: usize, cfg: marginfi::state::solend::SolendConfigCompact, px: PythPx, liq: u64, col: u64, seed: u64) -> Result<usize, TxOut> {
        use solend_mocks::state::SolendMinimalReserve;
        let oracle = self.next_kp().pubkey();
        let swb = self.venue_swb_next.take();
        match swb {
            Some(sp) => self.set_swb(&oracle, sp),
            None => self.set_pyth(&oracle, px),
        }
        let market = self.next_kp().pubkey();
        let reserve = self.next_kp().pubkey();
        let (lma, _) = crate::venue::solend_market_authority(&market);
        // the obligation starts with a small seed deposit (what init_obligation leaves behind)
        let seed_col: u64 = 100;
        let supply = self.new_token_account(mint, lma, liq).await;
        let col_supply = self.new_token_account(mint, lma, 0).await;
        let (mk, dec, prog) = (self.mints[mint].key, self.mints[mint].decimals, self.mints[mint].program());
        let gk = self.groups[group].key;
        let admin = self.creator(group);
        let p = self.chain.payer.pubkey();
        let mut r: SolendMinimalReserve = bytemuck::Zeroable::zeroed();
        r.last_update_slot = self.chain.clock.slot;
        r.lending_market = market;
        r.liquidity_mint_pubkey = mk;
        r.liquidity_mint_decimals = dec;
        r.liquidity_supply_pubkey = supply;
        r.liquidity_available_amount = liq;
        r.collateral_mint_pubkey = self.next_kp().pubkey();
        r.collateral_mint_total_supply = col.max(seed_col);
        r.collateral_supply_pubkey = col_supply;
        let col_mint = r.collateral_mint_pubkey;
        self.plant(&reserve, Account { lamports: 100_000_000, data: crate::venue::solend_reserve_bytes(&r), owner: crate::venue::SOLEND, executable: false, rent_epoch: 0 });
        let mut cfg = cfg;
        cfg.oracle = oracle;
        cfg.oracle_setup = if swb.is_some() { OracleSetup::SolendSwitchboardPull } else { OracleSetup::SolendPythPull };
        let (ixn, b, obligation) = ix::add_bank_solend(gk, admin.pubkey(), p, mk, seed, reserve, prog, cfg, vec![ix::ro(oracle), ix::ro(reserve)]);
        let out = self.create_send(&[ixn], &[&admin]).await;
        if !out.ok() {
            return Err(out);
        }
        let k = BankKeys::of(b);
        let kk = ix::VenueKeys { kind: ix::VenueKind::Solend, market, lma, reserve, obligation, supply, col_mint, col_supply, user_collateral: self.next_kp().pubkey() };
        let od = crate::venue::solend_obligation_bytes(&market, &k.lva, &reserve, seed_col, self.chain.clock.slot);
        self.plant(&obligation, Account { lamports: 100_000_000, data: od, owner: crate::venue::SOLEND, executable: false, rent_epoch: 0 });
        self.refresh(&[b, k.lv, k.iv, k.fv, gk, supply]).await;
        let od = if swb.is_some() { OracleD::VenueSwb { oracle, reserve } } else { OracleD::Venue { oracle, reserve } };
        self.banks.push(BankD { key: b, group, mint, oracle: od, k, venue: Some(kk) });
        Ok(self.banks.len() - 1)
    }

    // ------------------------------------------------------------ views
    pub fn bank(&self, i: usize) -> Bank {
        bank_of(&self.shadow[&self.banks[i].key].data).expect("bank decode")
    }
    pub fn bank_by_key(&self, k: &Pubkey) -> Option<usize> {
        self.banks.iter().position(|b| &b.key == k)
    }
    pub fn acct(&self, i: usize) -> MarginfiAccount {
        acct_of(&self.shadow[&self.accts[i].key].data).expect("acct decode")
    }
    pub fn token(&self, k: &Pubkey) -> u64 {
        self.shadow.get(k).and_then(|a| token_amount(&a.data)).unwrap_or(0)
    }
    /// transfer fee (basis points, maximum) the token program applies to mint `m` in the current
    /// epoch, read from the mint account (scheduled fee changes take effect at their epoch)
    pub fn transfer_fee_now(&self, m: usize) -> (u16, u64) {
        use t22::extension::{transfer_fee::TransferFeeConfig, BaseStateWithExtensions, StateWithExtensions};
        let md = &self.mints[m];
        let fallback = match md.kind {
            TokKind::T22Fee { bps, max } => (bps, max),
            _ => return (0, 0),
        };
        let data = match self.shadow.get(&md.key) {
            Some(a) => &a.data,
            None => return fallback,
        };
        match StateWithExtensions::<t22::state::Mint>::unpack(data).ok().and_then(|st| st.get_extension::<TransferFeeConfig>().ok().map(|c| *c.get_epoch_fee(self.chain.clock.epoch))) {
            Some(f) => (u16::from(f.transfer_fee_basis_points), u64::from(f.maximum_fee)),
            None => fallback,
        }
    }
    pub fn mint_of_bank(&self, b: usize) -> &MintD {
        &self.mints[self.banks[b].mint]
    }
    pub fn token_program_of_bank(&self, b: usize) -> Pubkey {
        self.mint_of_bank(b).program()
    }

    /// `[mint]` prefix for Token-2022 banks
    pub fn mint_prefix(&self, b: usize) -> Vec<AccountMeta> {
        let m = self.mint_of_bank(b);
        if m.is_t22() {
            vec![ix::ro(m.key)]
        } else {
            vec![]
        }
    }
    pub fn bank_risk_metas(&self, b: usize) -> Vec<AccountMeta> {
        let mut v = vec![ix::ro(self.banks[b].key)];
        for k in self.banks[b].oracle.accounts() {
            v.push(ix::ro(k));
        }
        v
    }
    /// Remaining accounts for a risk check of account `a` after optionally opening a position in
    /// `add` and closing the one in `remove`: `[bank, oracle..]` in descending bank-key order.
    pub fn risk_metas(&self, a: usize, add: Option<usize>, remove: Option<usize>) -> Vec<AccountMeta> {
        let acc = self.acct(a);
        let mut keys: Vec<Pubkey> = acc.lending_account.balances.iter().filter(|b| b.active != 0).map(|b| b.bank_pk).collect();
        if let Some(x) = add {
            let k = self.banks[x].key;
            if !keys.contains(&k) {
                keys.push(k);
            }
        }
        if let Some(x) = remove {
            let k = self.banks[x].key;
            keys.retain(|y| y != &k);
        }
        keys.sort();
        keys.reverse();
        let mut v = vec![];
        for k in keys {
            if let Some(bi) = self.bank_by_key(&k) {
                v.extend(self.bank_risk_metas(bi));
            } else {
                v.push(ix::ro(k));
            }
        }
        v
    }

    // ------------------------------------------------------------ user instruction helpers
    pub fn ix_deposit(&self, a: usize, b: usize, signer: Pubkey, ta: Pubkey, amount: u64, up_to: Option<bool>) -> Instruction {
        let g = self.groups[self.accts[a].group].key;
        ix::deposit(g, self.accts[a].key, signer, self.banks[b].key, ta, self.token_program_of_bank(b), amount, up_to, self.mint_prefix(b))
    }
    pub fn ix_repay(&self, a: usize, b: usize, signer: Pubkey, ta: Pubkey, amount: u64, all: Option<bool>) -> Instruction {
        let g = self.groups[self.accts[a].group].key;
        ix::repay(g, self.accts[a].key, signer, self.banks[b].key, ta, self.token_program_of_bank(b), amount, all, self.mint_prefix(b))
    }
    pub fn ix_withdraw(&self, a: usize, b: usize, signer: Pubkey, ta: Pubkey, amount: u64, all: Option<bool>) -> Instruction {
        let g = self.groups[self.accts[a].group].key;
        let mut rem = self.mint_prefix(b);
        let closing = all == Some(true);
        rem.extend(self.risk_metas(a, None, if closing { Some(b) } else { None }));
        ix::withdraw(g, self.accts[a].key, signer, self.banks[b].key, ta, self.token_program_of_bank(b), amount, all, rem)
    }
    pub fn ix_borrow(&self, a: usize, b: usize, signer: Pubkey, ta: Pubkey, amount: u64) -> Instruction {
        let g = self.groups[self.accts[a].group].key;
        let mut rem = self.mint_prefix(b);
        rem.extend(self.risk_metas(a, Some(b), None));
        ix::borrow(g, self.accts[a].key, signer, self.banks[b].key, ta, self.token_program_of_bank(b), amount, rem)
    }
    /// classic liquidation: liquidator account `lq` seizes `amount` of asset bank `ab` from `le`,
    /// taking on debt in `lb`.
    pub fn ix_liquidate(&self, lq: usize, le: usize, ab: usize, lb: usize, signer: Pubkey, amount: u64) -> Instruction {
        self.ix_liquidate_x(lq, le, ab, lb, signer, amount, None)
    }
    /// `dup`: a hostile caller names that bank twice (adjacent) among the liquidator's observation
    /// accounts - what it would have to do if its account held two positions in one bank.
    pub fn ix_liquidate_x(&self, lq: usize, le: usize, ab: usize, lb: usize, signer: Pubkey, amount: u64, dup: Option<usize>) -> Instruction {
        let g = self.groups[self.accts[lq].group].key;
        let mut rem = self.mint_prefix(lb);
        for k in self.banks[ab].oracle.accounts() {
            rem.push(ix::ro(k));
        }
        for k in self.banks[lb].oracle.accounts() {
            rem.push(ix::ro(k));
        }
        // liquidator observation accounts: after the liquidation it holds positions in both banks
        let mut lq_acc = self.risk_metas(lq, Some(ab), None);
        // add liab bank too
        {
            let k = self.banks[lb].key;
            if !lq_acc.iter().any(|m| m.pubkey == k) {
                // rebuild with both
                let acc = self.acct(lq);
                let mut keys: Vec<Pubkey> = acc.lending_account.balances.iter().filter(|b| b.active != 0).map(|b| b.bank_pk).collect();
                for x in [self.banks[ab].key, k] {
                    if !keys.contains(&x) {
                        keys.push(x);
                    }
                }
                keys.sort();
                keys.reverse();
                lq_acc = vec![];
                for kk in keys {
                    if let Some(bi) = self.bank_by_key(&kk) {
                        lq_acc.extend(self.bank_risk_metas(bi));
                    }
                }
            }
        }
        if let Some(d) = dup {
            let dk = self.banks[d].key;
            if let Some(pos) = lq_acc.iter().position(|m| m.pubkey == dk) {
                let extra = self.bank_risk_metas(d);
                for (j, e) in extra.into_iter().enumerate() {
                    lq_acc.insert(pos + j, e);
                }
            }
        }
        let le_acc = self.risk_metas(le, None, None);
        let (n_le, n_lq) = (le_acc.len() as u8, lq_acc.len() as u8);
        rem.extend(lq_acc);
        rem.extend(le_acc);
        ix::liquidate(g, self.banks[ab].key, self.banks[lb].key, self.accts[lq].key, signer, self.accts[le].key, self.token_program_of_bank(lb), amount, n_le, n_lq, rem)
    }
    pub fn ix_bankruptcy(&self, a: usize, b: usize, signer: Pubkey) -> Instruction {
        let g = self.groups[self.accts[a].group].key;
        let mut rem = self.mint_prefix(b);
        rem.extend(self.risk_metas(a, None, None));
        ix::handle_bankruptcy(g, signer, self.banks[b].key, self.accts[a].key, self.token_program_of_bank(b), rem)
    }
    pub fn ix_collect_fees(&self, b: usize) -> Instruction {
        let g = self.groups[self.banks[b].group].key;
        let m = self.mint_of_bank(b);
        let fee_ata = ix::ata(&self.fee_wallet.pubkey(), &m.key, &m.program());
        ix::collect_fees(g, self.banks[b].key, fee_ata, m.program(), self.mint_prefix(b))
    }
    pub fn ix_accrue(&self, b: usize) -> Instruction {
        ix::accrue(self.groups[self.banks[b].group].key, self.banks[b].key)
    }
    pub fn user_kp(&self, u: usize) -> Keypair {
        clone_kp(&self.users[u].kp)
    }
    pub fn auth_of(&self, a: usize) -> Keypair {
        clone_kp(&self.users[self.accts[a].user].kp)
    }
    pub fn ta_of(&self, a: usize, b: usize) -> Pubkey {
        self.users[self.accts[a].user].tas[self.banks[b].mint]
    }
}

pub fn default_bank_cfg() -> BankConfigCompact {
    let mut c = BankConfigCompact::default();
    c.asset_weight_init = wi(0.8);
    c.asset_weight_maint = wi(0.9);
    c.liability_weight_init = wi(1.2);
    c.liability_weight_maint = wi(1.1);
    c.deposit_limit = u64::MAX;
    c.borrow_limit = u64::MAX;
    c.operational_state = BankOperationalState::Operational;
    c.risk_tier = RiskTier::Collateral;
    c.oracle_max_age = 600;
    c.interest_rate_config.zero_util_rate = milli_to_u32(I80F48::from_num(0.05));
    c.interest_rate_config.hundred_util_rate = milli_to_u32(I80F48::from_num(3));
    c.interest_rate_config.points = make_points(&[RatePoint::new(centi_to_u32(I80F48::from_num(0.8)), milli_to_u32(I80F48::from_num(0.4)))]);
    c
}

// ------------------------------------------------------------------ monitored execution
use crate::mon::Mon;
impl World {
    /// Send a transaction and feed the monitors: every marginfi instruction of a committed
    /// transaction is evaluated on its own pre/post state (also inside brackets), then the commit.
    pub async fn exec(&mut self, m: &mut Mon, ixs: &[Instruction], signers: &[&Keypair]) -> TxOut {
        crate::refm::set_slot(self.chain.clock.slot);
        self.judge_creations(m);
        if self.impostor.is_some() && !signers.is_empty() {
            self.impostor_probes(m, ixs, signers).await;
        }
        let out = self.chain.send(ixs, signers).await;
        self.observe(m, ixs, &out).await;
        out
    }
    /// Bank-creating transactions of the set-up phase, each judged on the world as it was then.
    pub fn judge_creations(&mut self, m: &mut Mon) {
        if self.creation_journal.is_empty() {
            return;
        }
        let journal = std::mem::take(&mut self.creation_journal);
        let current = std::mem::take(&mut self.shadow);
        let saved_last_pre = std::mem::take(&mut self.last_pre);
        for (ixs, out, pre) in journal {
            self.shadow = pre;
            self.last_pre.clear();
            for i in &ixs {
                for mt in &i.accounts {
                    if mt.is_writable {
                        if let Some(a) = self.shadow.get(&mt.pubkey) {
                            self.last_pre.insert(mt.pubkey, a.clone());
                        }
                    }
                }
            }
            self.step_events(m, &out);
            m.on_tx_commit(self, &ixs, &out);
            m.r.count("setup.bank_creations_judged");
        }
        self.shadow = current;
        self.last_pre = saved_last_pre;
    }
    /// The same transaction with one known identity among its signers replaced, everywhere it is
    /// named, by a funded key that holds no role and owns nothing: simulated, and judged like any
    /// other probe (an acceptance that changes what only the replaced signer may change is a C08
    /// violation raised by the attribution / role monitors).
    async fn impostor_probes(&mut self, m: &mut Mon, ixs: &[Instruction], signers: &[&Keypair]) {
        let imp = match &self.impostor {
            Some(k) => clone_kp(k),
            None => return,
        };
        let mut known: std::collections::HashSet<Pubkey> = self.users.iter().map(|u| u.kp.pubkey()).collect();
        for g in &self.groups {
            let r = g.roles();
            for k in [r.admin, r.emode, r.curve, r.limit, r.emissions, r.metadata, r.risk] {
                known.insert(k);
            }
        }
        known.insert(self.fee_admin.pubkey());
        known.remove(&self.chain.payer.pubkey());
        let mut done = 0;
        for s in signers {
            let sk = s.pubkey();
            if !known.contains(&sk) || sk == imp.pubkey() {
                continue;
            }
            // only where a marginfi instruction asks for this signature
            if !ixs.iter().any(|i| i.program_id == ix::MFI && i.accounts.iter().any(|a| a.pubkey == sk && a.is_signer)) {
                continue;
            }
            let ixs2: Vec<Instruction> = ixs
                .iter()
                .map(|i| {
                    let mut j = i.clone();
                    for a in j.accounts.iter_mut() {
                        if a.pubkey == sk {
                            a.pubkey = imp.pubkey();
                        }
                    }
                    j
                })
                .collect();
            let signers2: Vec<Keypair> = signers.iter().map(|k| if k.pubkey() == sk { clone_kp(&imp) } else { clone_kp(k) }).collect();
            let refs: Vec<&Keypair> = signers2.iter().collect();
            let o = self.probe(m, &ixs2, &refs).await;
            m.r.count(if o.ok() { "impostor.probes_accepted" } else { "impostor.probes_rejected" });
            if o.ok() {
                for i in ixs.iter().filter(|i| i.program_id == ix::MFI) {
                    m.r.count(&format!("impostor.accepted_with/{}", crate::kinds::Kind::of(&i.data).name()));
                }
            }
            done += 1;
            if done >= 2 {
                break;
            }
        }
        // ... and the same transaction with one known identity named as before but *not signing*
        // (the key stays where it was, only its signature is withheld): whatever the instruction
        // compares the key with, it must also have asked for the signature
        let mut done = 0;
        for s in signers {
            let sk = s.pubkey();
            if !known.contains(&sk) {
                continue;
            }
            if !ixs.iter().any(|i| i.program_id == ix::MFI && i.accounts.iter().any(|a| a.pubkey == sk && a.is_signer)) {
                continue;
            }
            let ixs2: Vec<Instruction> = ixs
                .iter()
                .map(|i| {
                    let mut j = i.clone();
                    for a in j.accounts.iter_mut() {
                        if a.pubkey == sk {
                            a.is_signer = false;
                        }
                    }
                    j
                })
                .collect();
            let signers2: Vec<Keypair> = signers.iter().filter(|k| k.pubkey() != sk).map(|k| clone_kp(k)).collect();
            let refs: Vec<&Keypair> = signers2.iter().collect();
            let o = self.probe(m, &ixs2, &refs).await;
            m.r.count(if o.ok() { "unsigned.probes_accepted" } else { "unsigned.probes_rejected" });
            if o.ok() {
                for i in ixs.iter().filter(|i| i.program_id == ix::MFI) {
                    m.r.count(&format!("unsigned.accepted_with/{}", crate::kinds::Kind::of(&i.data).name()));
                }
            }
            done += 1;
            if done >= 2 {
                break;
            }
        }
    }
    /// Simulate (state preserving) and feed the per-instruction monitors if it would succeed.
    pub async fn probe(&mut self, m: &mut Mon, ixs: &[Instruction], signers: &[&Keypair]) -> TxOut {
        crate::refm::set_slot(self.chain.clock.slot);
        self.judge_creations(m);
        let out = self.chain.simulate(ixs, signers).await;
        if out.ok() {
            // evaluate on a scratch copy of the shadow
            let saved: Vec<(Pubkey, Option<Acc>)> = out.events.iter().flat_map(|e| e.pre.iter().map(|s| s.key)).map(|k| (k, self.shadow.get(&k).cloned())).collect();
            self.last_pre.clear();
            for (k, a) in &saved {
                if let Some(a) = a {
                    self.last_pre.insert(*k, a.clone());
                }
            }
            // the monitors' memory of the committed history must not learn from a simulation
            let mem = m.save_state();
            self.step_events(m, &out);
            // "virtual commit": the transaction would commit with exactly this state, so the
            // commit-time monitors can judge it without changing the chain
            m.on_tx_commit(self, ixs, &out);
            m.restore_state(mem);
            for (k, a) in saved {
                match a {
                    Some(a) => {
                        self.shadow.insert(k, a);
                    }
                    None => {
                        self.shadow.remove(&k);
                    }
                }
            }
        } else {
            let mem = m.save_state();
            m.on_reject(self, ixs, &out);
            m.restore_state(mem);
        }
        out
    }
    fn step_events(&mut self, m: &mut Mon, out: &TxOut) {
        for ev in &out.events {
            if ev.program != ix::MFI {
                continue;
            }
            // state changed by other programs between marginfi instructions is visible in pre-snaps
            for s in &ev.pre {
                if s.is_writable || self.shadow.contains_key(&s.key) {
                    self.shadow.insert(s.key, Acc::from(s));
                }
            }
            {
                let v = IxView { ev, cur: &self.shadow };
                m.on_ix(self, &v);
            }
            for s in &ev.post {
                if s.is_writable {
                    if s.lamports == 0 && s.data.iter().all(|b| *b == 0) {
                        self.shadow.remove(&s.key);
                    } else {
                        self.shadow.insert(s.key, Acc::from(s));
                    }
                }
            }
        }
    }
    pub async fn observe(&mut self, m: &mut Mon, ixs: &[Instruction], out: &TxOut) {
        if out.ok() {
            self.last_pre.clear();
            for i in ixs {
                for mt in &i.accounts {
                    if mt.is_writable {
                        if let Some(a) = self.shadow.get(&mt.pubkey) {
                            self.last_pre.insert(mt.pubkey, a.clone());
                        }
                    }
                }
            }
            self.step_events(m, out);
            self.refresh_for(ixs).await;
            m.on_tx_commit(self, ixs, out);
        } else {
            m.on_reject(self, ixs, out);
        }
    }
}
