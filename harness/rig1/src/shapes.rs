//! W-matrix over transaction shapes (C10 receivership, C11 flash loans): every sequence up to a
//! bounded length over an alphabet of instruction kinds / program ids / index arguments is executed
//! as a real (simulated, state-preserving) transaction; the per-instruction and commit-time
//! monitors judge what would have been committed.
use crate::chain::{JUP, NOOP_PROG, TITAN};
use crate::ix;
use crate::kinds::Kind;
use crate::matrix::Twin;
use crate::mon::Mon;
use crate::scen::scale_price;
use crate::storm::R;
use crate::world::*;
use rand::Rng;
use serde_json::json;
use solana_sdk::instruction::{AccountMeta, Instruction};
use solana_sdk::signature::{Keypair, Signer};

fn next_shape(shape: &mut Vec<usize>, n: usize) -> bool {
    // odometer; false when wrapped around
    for d in shape.iter_mut() {
        *d += 1;
        if *d < n {
            return true;
        }
        *d = 0;
    }
    false
}

pub const C11_SYMS: &[&str] = &["start->last", "start->self", "start->past", "start->out-of-range", "start->u64max", "start->second", "end", "end(other account)", "borrow-big", "borrow-small", "repay-all", "deposit", "foreign-noop-with-end-discriminator", "foreign-noop", "pulse-health(account first)", "start-via-cpi", "end-via-cpi", "liquidate-account", "bankruptcy-account"];

/// C11: all shapes up to `max_len` over C11_SYMS for account X (user) and Y (other account).
pub async fn run_c11(w: &mut World, m: &mut Mon, r: &mut R, t: &Twin, max_len: usize, exhaustive_len: usize, samples: usize) {
    let auth = w.auth_of(t.acct0);
    let ak = auth.pubkey();
    let x = w.accts[t.acct0].key;
    let y_auth = w.auth_of(t.lender0);
    let y = w.accts[t.lender0].key;
    let lk = w.auth_of(t.liquidator0);
    let admin = clone_kp(&w.groups[t.g0].admin);
    let g = w.groups[t.g0].key;
    let (ta_a, ta_b) = (w.ta_of(t.acct0, t.a0), w.ta_of(t.acct0, t.b0));
    let shift = crate::chain::Chain::IX_SHIFT as u64;
    let vault_b = w.token(&w.banks[t.b0].k.lv);
    let build = |w: &World, sym: usize, pos: usize, len: usize| -> Instruction {
        let abs = |p: usize| p as u64 + shift;
        match sym {
            0 => ix::start_flashloan(x, ak, abs(len - 1)),
            1 => ix::start_flashloan(x, ak, abs(pos)),
            2 => ix::start_flashloan(x, ak, 0),
            3 => ix::start_flashloan(x, ak, abs(len) + 5),
            4 => ix::start_flashloan(x, ak, u64::MAX),
            5 => ix::start_flashloan(x, ak, abs(1.min(len - 1))),
            6 => ix::end_flashloan(x, ak, w.risk_metas(t.acct0, None, None)),
            7 => ix::end_flashloan(y, y_auth.pubkey(), w.risk_metas(t.lender0, None, None)),
            8 => ix::borrow(g, x, ak, w.banks[t.b0].key, ta_b, w.token_program_of_bank(t.b0), vault_b / 2, {
                let mut v = w.mint_prefix(t.b0);
                v.extend(w.risk_metas(t.acct0, Some(t.b0), None));
                v
            }),
            9 => ix::borrow(g, x, ak, w.banks[t.b0].key, ta_b, w.token_program_of_bank(t.b0), 1000, {
                let mut v = w.mint_prefix(t.b0);
                v.extend(w.risk_metas(t.acct0, Some(t.b0), None));
                v
            }),
            10 => ix::repay(g, x, ak, w.banks[t.b0].key, ta_b, w.token_program_of_bank(t.b0), 0, Some(true), w.mint_prefix(t.b0)),
            11 => w.ix_deposit(t.acct0, t.a0, ak, ta_a, 1000, None),
            12 => {
                let mut data = Kind::EndFlashloan.discr().to_vec();
                data.extend_from_slice(&[0u8; 8]);
                Instruction { program_id: NOOP_PROG, accounts: vec![AccountMeta::new(x, false), AccountMeta::new_readonly(ak, true)], data }
            }
            13 => ix::foreign_noop(NOOP_PROG, pos as u64),
            14 => ix::pulse_health(x, w.risk_metas(t.acct0, None, None)),
            15 => ix::via_proxy(JUP, &ix::start_flashloan(x, ak, abs(len - 1))),
            16 => ix::via_proxy(JUP, &ix::end_flashloan(x, ak, w.risk_metas(t.acct0, None, None))),
            17 => w.ix_liquidate(t.liquidator0, t.acct0, t.a0, t.b0, lk.pubkey(), 1000),
            _ => w.ix_bankruptcy(t.acct0, t.b0, admin.pubkey()),
        }
    };
    let n = C11_SYMS.len();
    let signers: Vec<&Keypair> = vec![&auth, &y_auth, &lk, &admin];
    let run_shape = |w: &mut World, m: &mut Mon, shape: &Vec<usize>| -> (Vec<Instruction>, ()) {
        let len = shape.len();
        let ixs: Vec<Instruction> = shape.iter().enumerate().map(|(p, s)| build(w, *s, p, len)).collect();
        (ixs, ())
    };
    let mut shapes_run = 0u64;
    let mut accepted = 0u64;
    for len in 1..=exhaustive_len {
        let mut shape = vec![0usize; len];
        loop {
            // only shapes that contain a start or an end are informative
            if shape.iter().any(|s| *s <= 7 || *s == 12 || *s == 15 || *s == 16) {
                let (ixs, _) = run_shape(w, m, &shape);
                let o = w.probe(m, &ixs, &signers).await;
                shapes_run += 1;
                m.r.eval();
                m.r.distinct(&("c11-shape", shape.clone(), o.ok()));
                if o.ok() {
                    accepted += 1;
                    m.r.sample_kind("accepted-shape", json!({"shape": shape.iter().map(|s| C11_SYMS[*s]).collect::<Vec<_>>()}));
                }
            }
            if !next_shape(&mut shape, n) {
                break;
            }
        }
    }
    for _ in 0..samples {
        let len = r.gen_range(exhaustive_len + 1..=max_len.max(exhaustive_len + 1));
        let shape: Vec<usize> = (0..len).map(|_| r.gen_range(0..n)).collect();
        let (ixs, _) = run_shape(w, m, &shape);
        let o = w.probe(m, &ixs, &signers).await;
        shapes_run += 1;
        m.r.eval();
        m.r.distinct(&("c11-shape", shape.clone(), o.ok()));
        if o.ok() {
            accepted += 1;
        }
    }
    // directed shapes outside the alphabet: the bracket's account is migrated inside the bracket, and
    // the end instruction closes a sibling account of the same authority while naming the bracket's
    // account only among its trailing accounts
    {
        let p = w.chain.payer.pubkey();
        let fw = w.fee_wallet.pubkey();
        let sibling = w.add_account(t.g0, t.user).await;
        let sk = w.accts[sibling].key;
        let borrow = |w: &World, amt: u64| {
            ix::borrow(g, x, ak, w.banks[t.b0].key, ta_b, w.token_program_of_bank(t.b0), amt, {
                let mut v = w.mint_prefix(t.b0);
                v.extend(w.risk_metas(t.acct0, Some(t.b0), None));
                v
            })
        };
        let abs = |p: usize| p as u64 + shift;
        for amt in [vault_b / 2, 1000] {
            for new_auth_same in [true, false] {
                let nk = w.next_kp();
                let new_auth = if new_auth_same { ak } else { y_auth.pubkey() };
                for end_on_new in [false, true] {
                    let end_target = if end_on_new { nk.pubkey() } else { x };
                    let ixs = vec![ix::start_flashloan(x, ak, abs(3)), borrow(w, amt), ix::transfer_account(g, x, nk.pubkey(), ak, p, new_auth, fw), ix::end_flashloan(end_target, ak, if end_on_new { w.risk_metas(t.acct0, Some(t.b0), None) } else { vec![] })];
                    let mut sg: Vec<&Keypair> = signers.clone();
                    sg.push(&nk);
                    let o = w.probe(m, &ixs, &sg).await;
                    shapes_run += 1;
                    m.r.eval();
                    m.r.count("C11.directed_shapes");
                    m.r.count(if o.ok() { "C11.directed_migration_inside_bracket_accepted" } else { "C11.directed_migration_inside_bracket_rejected" });
                    m.r.distinct(&("c11-directed", "migrate", amt == 1000, new_auth_same, end_on_new, o.ok()));
                }
            }
            // end names the sibling; the bracket's account rides along as a trailing account
            for trailing in [true, false] {
                let mut rem = vec![];
                if trailing {
                    rem.push(AccountMeta::new(x, false));
                }
                let ixs = vec![ix::start_flashloan(x, ak, abs(2)), borrow(w, amt), ix::end_flashloan(sk, ak, rem)];
                let o = w.probe(m, &ixs, &signers).await;
                shapes_run += 1;
                m.r.eval();
                m.r.count("C11.directed_shapes");
                m.r.count(if o.ok() { "C11.directed_end_on_sibling_accepted" } else { "C11.directed_end_on_sibling_rejected" });
                m.r.distinct(&("c11-directed", "sibling-end", amt == 1000, trailing, false, o.ok()));
            }
        }
    }
    // directed: the account is driven under water inside its own bracket and somebody tries to
    // liquidate it (classic liquidation, then the bankruptcy handler) before the borrower repairs it
    // and closes the bracket - both are impossible while the flag is set
    for mid in [17usize, 18] {
        for amt_sym in [8usize, 9] {
            for shape in [vec![0usize, amt_sym, mid, 10, 6], vec![0, amt_sym, mid, mid, 10, 6], vec![0, amt_sym, 14, mid, 10, 6]] {
                let (ixs, _) = run_shape(w, m, &shape);
                let o = w.probe(m, &ixs, &signers).await;
                shapes_run += 1;
                m.r.eval();
                m.r.count("C11.directed_shapes");
                m.r.count(if o.ok() { "C11.directed_liquidation_inside_bracket_accepted" } else { "C11.directed_liquidation_inside_bracket_rejected" });
                m.r.distinct(&("c11-directed", "liquidation-inside", mid == 17, amt_sym == 8, shape.len() == 6, o.ok()));
                if o.ok() {
                    accepted += 1;
                }
            }
        }
    }
    // directed: the group admin freezes the account; brackets on it are refused whoever signs them
    // (the owner, or the admin who may otherwise act on a frozen account), and a bracket cannot be
    // closed on an account that was frozen inside it
    {
        let abs = |p: usize| p as u64 + shift;
        let small_borrow = |w: &World, who: solana_sdk::pubkey::Pubkey| {
            ix::borrow(g, x, who, w.banks[t.b0].key, ta_b, w.token_program_of_bank(t.b0), 1000, {
                let mut v = w.mint_prefix(t.b0);
                v.extend(w.risk_metas(t.acct0, Some(t.b0), None));
                v
            })
        };
        let repay_all = |w: &World, who: solana_sdk::pubkey::Pubkey| ix::repay(g, x, who, w.banks[t.b0].key, ta_b, w.token_program_of_bank(t.b0), 0, Some(true), w.mint_prefix(t.b0));
        // freeze inside the bracket (the account is not frozen yet)
        let ixs = vec![ix::start_flashloan(x, ak, abs(2)), ix::set_freeze(g, x, admin.pubkey(), true), ix::end_flashloan(x, ak, w.risk_metas(t.acct0, None, None))];
        let o = w.probe(m, &ixs, &signers).await;
        shapes_run += 1;
        m.r.eval();
        m.r.count("C11.directed_shapes");
        m.r.count(if o.ok() { "C11.directed_freeze_inside_bracket_accepted" } else { "C11.directed_freeze_inside_bracket_rejected" });
        let fz = ix::set_freeze(g, x, admin.pubkey(), true);
        if w.exec(m, &[fz], &[&admin]).await.ok() {
            for who in [ak, admin.pubkey()] {
                for shape in 0..3 {
                    let ixs = match shape {
                        0 => vec![ix::start_flashloan(x, who, abs(1)), ix::end_flashloan(x, who, w.risk_metas(t.acct0, None, None))],
                        1 => vec![ix::start_flashloan(x, who, abs(3)), small_borrow(w, who), repay_all(w, who), ix::end_flashloan(x, who, w.risk_metas(t.acct0, None, None))],
                        _ => vec![ix::start_flashloan(x, ak, abs(3)), small_borrow(w, admin.pubkey()), repay_all(w, admin.pubkey()), ix::end_flashloan(x, ak, w.risk_metas(t.acct0, None, None))],
                    };
                    let o = w.probe(m, &ixs, &signers).await;
                    shapes_run += 1;
                    m.r.eval();
                    m.r.count("C11.directed_shapes");
                    m.r.count("C11.directed_frozen_account_shapes");
                    m.r.count(if o.ok() { "C11.directed_bracket_on_frozen_account_accepted" } else { "C11.directed_bracket_on_frozen_account_rejected" });
                    m.r.distinct(&("c11-directed", "frozen", who == ak, shape, o.ok()));
                }
            }
            let uf = ix::set_freeze(g, x, admin.pubkey(), false);
            let _ = w.exec(m, &[uf], &[&admin]).await;
        }
    }
    m.r.add("C11.shapes_executed", shapes_run);
    m.r.add("C11.shapes_accepted", accepted);
    m.r.note(&format!("C11 alphabet: {:?}; exhaustive up to length {}, random up to {}", C11_SYMS, exhaustive_len, max_len));
}

pub const C10_SYMS: &[&str] = &["init-record", "start", "start(second)", "withdraw", "repay", "end", "end(other account)", "deposit", "borrow", "allowed-program-noop", "foreign-program-noop", "compute-budget", "start-via-cpi", "end-via-cpi", "withdraw-via-cpi", "start-deleverage(not risk admin)", "flashloan-start", "pulse-health", "start(second unhealthy account, padded data)", "end(second unhealthy account)", "start(padded data)", "end(padded data)", "repay(second unhealthy account)", "start(second unhealthy account)", "allowed-program-instruction(3 bytes of data)", "allowed-program-instruction(no data)"];

/// C10: all shapes up to a bounded length over C10_SYMS for an unhealthy victim account.
pub async fn run_c10(w: &mut World, m: &mut Mon, r: &mut R, t: &Twin, max_len: usize, exhaustive_len: usize, samples: usize, with_record: bool) {
    scale_price(w, t.a0, 0.012);
    scale_price(w, t.a1, 0.012);
    let victim = t.acct0;
    let victim2 = t.acct1;
    let v2 = w.accts[victim2].key;
    let g1 = w.groups[t.g1].key;
    let v = w.accts[victim].key;
    let rk = w.auth_of(t.liquidator0);
    let ru = w.accts[t.liquidator0].user;
    let tas = w.users[ru].tas.clone();
    let g = w.groups[t.g0].key;
    let other = w.accts[t.lender0].key;
    if with_record && !w.shadow.contains_key(&ix::liq_record_key(&v)) {
        let i = ix::init_liq_record(v, rk.pubkey());
        let _ = w.exec(m, &[i], &[&rk]).await;
    }
    if !w.shadow.contains_key(&ix::liq_record_key(&v2)) {
        let i = ix::init_liq_record(v2, rk.pubkey());
        let _ = w.exec(m, &[i], &[&rk]).await;
    }
    let fw = w.fee_wallet.pubkey();
    let pad = |mut i: Instruction| -> Instruction {
        i.data.push(0);
        i
    };
    let build = |w: &World, sym: usize, pos: usize, len: usize| -> Instruction {
        let risk = w.risk_metas(victim, None, None);
        let risk2 = w.risk_metas(victim2, None, None);
        let wd = |amt: u64| {
            let mut rem = w.mint_prefix(t.a0);
            rem.extend(w.risk_metas(victim, None, None));
            ix::withdraw(g, v, rk.pubkey(), w.banks[t.a0].key, tas[w.banks[t.a0].mint], w.token_program_of_bank(t.a0), amt, None, rem)
        };
        match sym {
            0 => ix::init_liq_record(v, rk.pubkey()),
            1 | 2 => ix::start_liquidation(v, rk.pubkey(), risk),
            3 => wd(1000),
            4 => ix::repay(g, v, rk.pubkey(), w.banks[t.b0].key, tas[w.banks[t.b0].mint], w.token_program_of_bank(t.b0), 100_000, None, w.mint_prefix(t.b0)),
            5 => ix::end_liquidation(v, rk.pubkey(), fw, risk),
            6 => ix::end_liquidation(other, rk.pubkey(), fw, w.risk_metas(t.lender0, None, None)),
            7 => ix::deposit(g, v, rk.pubkey(), w.banks[t.a0].key, tas[w.banks[t.a0].mint], w.token_program_of_bank(t.a0), 10, None, w.mint_prefix(t.a0)),
            8 => ix::borrow(g, v, rk.pubkey(), w.banks[t.b0].key, tas[w.banks[t.b0].mint], w.token_program_of_bank(t.b0), 10, {
                let mut x = w.mint_prefix(t.b0);
                x.extend(w.risk_metas(victim, None, None));
                x
            }),
            9 => ix::foreign_noop(TITAN, pos as u64),
            10 => ix::foreign_noop(NOOP_PROG, pos as u64),
            11 => solana_sdk::compute_budget::ComputeBudgetInstruction::set_compute_unit_limit(1_000_000 + (pos + len) as u32),
            12 => ix::via_proxy(JUP, &ix::start_liquidation(v, rk.pubkey(), risk)),
            13 => ix::via_proxy(JUP, &ix::end_liquidation(v, rk.pubkey(), fw, risk)),
            14 => ix::via_proxy(JUP, &wd(1000)),
            15 => ix::start_deleverage(g, v, rk.pubkey(), risk),
            16 => ix::start_flashloan(v, rk.pubkey(), (len - 1 + crate::chain::Chain::IX_SHIFT) as u64),
            17 => ix::pulse_health(v, risk),
            18 => pad(ix::start_liquidation(v2, rk.pubkey(), risk2)),
            19 => ix::end_liquidation(v2, rk.pubkey(), fw, risk2),
            20 => pad(ix::start_liquidation(v, rk.pubkey(), risk)),
            21 => pad(ix::end_liquidation(v, rk.pubkey(), fw, risk)),
            22 => ix::repay(g1, v2, rk.pubkey(), w.banks[t.b1].key, tas[w.banks[t.b1].mint], w.token_program_of_bank(t.b1), 100_000, None, w.mint_prefix(t.b1)),
            23 => ix::start_liquidation(v2, rk.pubkey(), risk2),
            // instructions of a program the bracket tolerates that are too short to carry a discriminator
            // (what the associated-token-account program's instructions look like)
            24 => Instruction { program_id: TITAN, accounts: vec![], data: vec![1, (pos % 250) as u8, (len % 250) as u8] },
            _ => Instruction { program_id: TITAN, accounts: vec![solana_sdk::instruction::AccountMeta::new_readonly(fw, false)], data: vec![] },
        }
    };
    let n = C10_SYMS.len();
    let signers: Vec<&Keypair> = vec![&rk];
    let mut shapes_run = 0u64;
    let mut accepted = 0u64;
    // directed: a short instruction of a tolerated program before, inside and after the bracket
    for short in [24usize, 25] {
        for shape in [vec![short, 1, 5], vec![short, 1, 3, 4, 5], vec![11, short, 1, 3, 4, 5], vec![0, short, 1, 5], vec![1, short, 5], vec![1, 3, short, 4, 5], vec![1, 5, short]] {
            let len = shape.len();
            let ixs: Vec<Instruction> = shape.iter().enumerate().map(|(p, s)| build(w, *s, p, len)).collect();
            let o = w.probe(m, &ixs, &signers).await;
            shapes_run += 1;
            m.r.eval();
            m.r.count("C10.directed_short_instruction_shapes");
            m.r.distinct(&("c10-shape", shape.clone(), o.ok(), with_record));
            if o.ok() {
                accepted += 1;
            }
        }
    }
    for len in 1..=exhaustive_len {
        let mut shape = vec![0usize; len];
        loop {
            if shape.iter().any(|s| matches!(*s, 1 | 2 | 5 | 6 | 12 | 13 | 15 | 18 | 19 | 20 | 21 | 23)) {
                let ixs: Vec<Instruction> = shape.iter().enumerate().map(|(p, s)| build(w, *s, p, len)).collect();
                let o = w.probe(m, &ixs, &signers).await;
                shapes_run += 1;
                m.r.eval();
                m.r.distinct(&("c10-shape", shape.clone(), o.ok(), with_record));
                if o.ok() {
                    accepted += 1;
                    m.r.sample_kind("accepted-shape", json!({"shape": shape.iter().map(|s| C10_SYMS[*s]).collect::<Vec<_>>(), "record_preexisting": with_record}));
                }
            }
            if !next_shape(&mut shape, n) {
                break;
            }
        }
    }
    for _ in 0..samples {
        let len = r.gen_range(exhaustive_len + 1..=max_len.max(exhaustive_len + 1));
        // bias towards plausible brackets: start ... end with random middle
        let mut shape: Vec<usize> = (0..len).map(|_| r.gen_range(0..n)).collect();
        if r.gen_bool(0.7) {
            shape[0] = crate::storm::pick(r, &[1usize, 0, 11, 9]);
            if shape[0] != 1 && len > 1 {
                shape[1] = 1;
            }
            shape[len - 1] = 5;
        }
        let ixs: Vec<Instruction> = shape.iter().enumerate().map(|(p, s)| build(w, *s, p, len)).collect();
        let o = w.probe(m, &ixs, &signers).await;
        shapes_run += 1;
        m.r.eval();
        m.r.distinct(&("c10-shape", shape.clone(), o.ok(), with_record));
        if o.ok() {
            accepted += 1;
        }
    }
    // directed shapes with two unhealthy accounts (length 3..5)
    for sa in [1usize, 20] {
        for sb in [18usize, 23] {
            for mid in [vec![3usize, 22], vec![3], vec![22], vec![]] {
                for e in [vec![19usize], vec![5], vec![5, 19], vec![19, 5], vec![21]] {
                    for order in 0..2 {
                        let mut shape = if order == 0 { vec![sa, sb] } else { vec![sb, sa] };
                        shape.extend(mid.iter());
                        shape.extend(e.iter());
                        let len = shape.len();
                        let ixs: Vec<Instruction> = shape.iter().enumerate().map(|(p, s)| build(w, *s, p, len)).collect();
                        let o = w.probe(m, &ixs, &signers).await;
                        shapes_run += 1;
                        m.r.eval();
                        m.r.distinct(&("c10-shape", shape.clone(), o.ok(), with_record));
                        if o.ok() {
                            accepted += 1;
                        }
                    }
                }
            }
        }
    }
    m.r.add("C10.shapes_executed", shapes_run);
    m.r.add("C10.shapes_accepted", accepted);
    m.r.note(&format!("C10 alphabet: {:?}; exhaustive up to length {}, random up to {}", C10_SYMS, exhaustive_len, max_len));
    scale_price(w, t.a0, 1.0 / 0.012);
    scale_price(w, t.a1, 1.0 / 0.012);
}
