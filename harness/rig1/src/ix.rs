//! Instruction builders. Only the Anchor-generated `marginfi::instruction::*` /
//! `marginfi::accounts::*` encodings and PDA seeds are used from the program.
use anchor_lang::{InstructionData, ToAccountMetas};
use marginfi_type_crate::constants::*;
use marginfi_type_crate::types::*;
use solana_sdk::{
    instruction::{AccountMeta, Instruction},
    pubkey::Pubkey,
    system_program, sysvar,
};

pub const MFI: Pubkey = solana_sdk::pubkey!("MFv2hWf31Z9kbCa1snEPYctwafyhdvnV7FZnsebVacA");

pub fn mk<A: ToAccountMetas, D: InstructionData>(a: A, d: D, rem: Vec<AccountMeta>) -> Instruction {
    let mut accounts = a.to_account_metas(None);
    accounts.extend(rem);
    Instruction { program_id: MFI, accounts, data: d.data() }
}
pub fn ro(k: Pubkey) -> AccountMeta {
    AccountMeta::new_readonly(k, false)
}
pub fn rw(k: Pubkey) -> AccountMeta {
    AccountMeta::new(k, false)
}

pub fn pda(seed: &str, bank: &Pubkey) -> Pubkey {
    Pubkey::find_program_address(&[seed.as_bytes(), bank.as_ref()], &MFI).0
}
pub fn fee_state_key() -> Pubkey {
    Pubkey::find_program_address(&[FEE_STATE_SEED.as_bytes()], &MFI).0
}
pub fn liq_record_key(acct: &Pubkey) -> Pubkey {
    Pubkey::find_program_address(&[LIQUIDATION_RECORD_SEED.as_bytes(), acct.as_ref()], &MFI).0
}
pub fn staked_settings_key(group: &Pubkey) -> Pubkey {
    Pubkey::find_program_address(&[STAKED_SETTINGS_SEED.as_bytes(), group.as_ref()], &MFI).0
}
pub fn emissions_auth(bank: &Pubkey, mint: &Pubkey) -> Pubkey {
    Pubkey::find_program_address(&[EMISSIONS_AUTH_SEED.as_bytes(), bank.as_ref(), mint.as_ref()], &MFI).0
}
pub fn emissions_vault(bank: &Pubkey, mint: &Pubkey) -> Pubkey {
    Pubkey::find_program_address(&[EMISSIONS_TOKEN_ACCOUNT_SEED.as_bytes(), bank.as_ref(), mint.as_ref()], &MFI).0
}
pub fn metadata_key(bank: &Pubkey) -> Pubkey {
    Pubkey::find_program_address(&[METADATA_SEED.as_bytes(), bank.as_ref()], &MFI).0
}
pub fn account_pda(group: &Pubkey, authority: &Pubkey, idx: u16, third: Option<u16>) -> Pubkey {
    MarginfiAccount::derive_pda(group, authority, idx, third, &MFI).0
}
pub fn bank_pda(group: &Pubkey, mint: &Pubkey, seed: u64) -> Pubkey {
    Pubkey::find_program_address(&[group.as_ref(), mint.as_ref(), &seed.to_le_bytes()], &MFI).0
}
pub fn ata(wallet: &Pubkey, mint: &Pubkey, token_program: &Pubkey) -> Pubkey {
    spl_associated_token_account::get_associated_token_address_with_program_id(wallet, mint, token_program)
}

#[derive(Clone, Copy, Debug)]
pub struct BankKeys {
    pub bank: Pubkey,
    pub lv: Pubkey,
    pub lva: Pubkey,
    pub iv: Pubkey,
    pub iva: Pubkey,
    pub fv: Pubkey,
    pub fva: Pubkey,
}
impl BankKeys {
    pub fn of(bank: Pubkey) -> BankKeys {
        BankKeys {
            bank,
            lv: pda(LIQUIDITY_VAULT_SEED, &bank),
            lva: pda(LIQUIDITY_VAULT_AUTHORITY_SEED, &bank),
            iv: pda(INSURANCE_VAULT_SEED, &bank),
            iva: pda(INSURANCE_VAULT_AUTHORITY_SEED, &bank),
            fv: pda(FEE_VAULT_SEED, &bank),
            fva: pda(FEE_VAULT_AUTHORITY_SEED, &bank),
        }
    }
}

// ---------------------------------------------------------------- global / group
#[allow(clippy::too_many_arguments)]
pub fn init_fee_state(payer: Pubkey, admin: Pubkey, wallet: Pubkey, bank_fee: u32, liq_fee: u32, fixed: WrappedI80F48, rate: WrappedI80F48, liq_max: WrappedI80F48) -> Instruction {
    mk(
        marginfi::accounts::InitFeeState { payer, fee_state: fee_state_key(), system_program: system_program::ID },
        marginfi::instruction::InitGlobalFeeState { admin, fee_wallet: wallet, bank_init_flat_sol_fee: bank_fee, liquidation_flat_sol_fee: liq_fee, program_fee_fixed: fixed, program_fee_rate: rate, liquidation_max_fee: liq_max },
        vec![],
    )
}
#[allow(clippy::too_many_arguments)]
pub fn edit_fee_state(signer: Pubkey, admin: Pubkey, wallet: Pubkey, bank_fee: u32, liq_fee: u32, fixed: WrappedI80F48, rate: WrappedI80F48, liq_max: WrappedI80F48) -> Instruction {
    mk(
        marginfi::accounts::EditFeeState { global_fee_admin: signer, fee_state: fee_state_key() },
        marginfi::instruction::EditGlobalFeeState { admin, fee_wallet: wallet, bank_init_flat_sol_fee: bank_fee, liquidation_flat_sol_fee: liq_fee, program_fee_fixed: fixed, program_fee_rate: rate, liquidation_max_fee: liq_max },
        vec![],
    )
}
pub fn group_init(group: Pubkey, admin: Pubkey) -> Instruction {
    mk(
        marginfi::accounts::MarginfiGroupInitialize { marginfi_group: group, admin, fee_state: fee_state_key(), system_program: system_program::ID },
        marginfi::instruction::MarginfiGroupInitialize {},
        vec![],
    )
}
#[derive(Clone, Copy, Debug)]
pub struct Roles {
    pub admin: Pubkey,
    pub emode: Pubkey,
    pub curve: Pubkey,
    pub limit: Pubkey,
    pub emissions: Pubkey,
    pub metadata: Pubkey,
    pub risk: Pubkey,
}
pub fn group_configure(group: Pubkey, signer: Pubkey, r: Roles, init_lev: Option<WrappedI80F48>, maint_lev: Option<WrappedI80F48>) -> Instruction {
    mk(
        marginfi::accounts::MarginfiGroupConfigure { marginfi_group: group, admin: signer },
        marginfi::instruction::MarginfiGroupConfigure {
            new_admin: r.admin,
            new_emode_admin: r.emode,
            new_curve_admin: r.curve,
            new_limit_admin: r.limit,
            new_emissions_admin: r.emissions,
            new_metadata_admin: r.metadata,
            new_risk_admin: r.risk,
            emode_max_init_leverage: init_lev,
            emode_max_maint_leverage: maint_lev,
        },
        vec![],
    )
}
pub fn propagate_fee(group: Pubkey) -> Instruction {
    mk(marginfi::accounts::PropagateFee { fee_state: fee_state_key(), marginfi_group: group }, marginfi::instruction::PropagateFeeState {}, vec![])
}
pub fn config_group_fee(group: Pubkey, signer: Pubkey, enable: bool) -> Instruction {
    mk(marginfi::accounts::ConfigGroupFee { marginfi_group: group, global_fee_admin: signer, fee_state: fee_state_key() }, marginfi::instruction::ConfigGroupFee { enable_program_fee: enable }, vec![])
}
pub fn panic_pause(signer: Pubkey) -> Instruction {
    mk(marginfi::accounts::PanicPause { global_fee_admin: signer, fee_state: fee_state_key() }, marginfi::instruction::PanicPause {}, vec![])
}
pub fn panic_unpause(signer: Pubkey) -> Instruction {
    mk(marginfi::accounts::PanicUnpause { global_fee_admin: signer, fee_state: fee_state_key() }, marginfi::instruction::PanicUnpause {}, vec![])
}
pub fn panic_unpause_permissionless() -> Instruction {
    mk(marginfi::accounts::PanicUnpausePermissionless { fee_state: fee_state_key() }, marginfi::instruction::PanicUnpausePermissionless {}, vec![])
}
pub fn configure_delev_limit(group: Pubkey, admin: Pubkey, limit: u32) -> Instruction {
    mk(marginfi::accounts::ConfigureDeleverageWithdrawalLimit { marginfi_group: group, admin }, marginfi::instruction::ConfigureDeleverageWithdrawalLimit { limit }, vec![])
}

// ---------------------------------------------------------------- banks
#[allow(clippy::too_many_arguments)]
pub fn add_bank(group: Pubkey, admin: Pubkey, fee_payer: Pubkey, fee_wallet: Pubkey, mint: Pubkey, bank: Pubkey, token_program: Pubkey, cfg: BankConfigCompact) -> Instruction {
    let k = BankKeys::of(bank);
    mk(
        marginfi::accounts::LendingPoolAddBank {
            marginfi_group: group, admin, fee_payer, fee_state: fee_state_key(), global_fee_wallet: fee_wallet, bank_mint: mint, bank,
            liquidity_vault_authority: k.lva, liquidity_vault: k.lv, insurance_vault_authority: k.iva, insurance_vault: k.iv, fee_vault_authority: k.fva, fee_vault: k.fv,
            token_program, system_program: system_program::ID,
        },
        marginfi::instruction::LendingPoolAddBank { bank_config: cfg },
        vec![],
    )
}
#[allow(clippy::too_many_arguments)]
pub fn add_bank_with_seed(group: Pubkey, admin: Pubkey, fee_payer: Pubkey, fee_wallet: Pubkey, mint: Pubkey, seed: u64, token_program: Pubkey, cfg: BankConfigCompact) -> (Instruction, Pubkey) {
    let bank = bank_pda(&group, &mint, seed);
    let k = BankKeys::of(bank);
    (
        mk(
            marginfi::accounts::LendingPoolAddBankWithSeed {
                marginfi_group: group, admin, fee_payer, fee_state: fee_state_key(), global_fee_wallet: fee_wallet, bank_mint: mint, bank,
                liquidity_vault_authority: k.lva, liquidity_vault: k.lv, insurance_vault_authority: k.iva, insurance_vault: k.iv, fee_vault_authority: k.fva, fee_vault: k.fv,
                token_program, system_program: system_program::ID,
            },
            marginfi::instruction::LendingPoolAddBankWithSeed { bank_config: cfg, bank_seed: seed },
            vec![],
        ),
        bank,
    )
}
#[allow(clippy::too_many_arguments)]
pub fn add_bank_permissionless(group: Pubkey, fee_payer: Pubkey, lst_mint: Pubkey, sol_pool: Pubkey, stake_pool: Pubkey, seed: u64, sol_oracle: Pubkey) -> (Instruction, Pubkey) {
    let bank = bank_pda(&group, &lst_mint, seed);
    let k = BankKeys::of(bank);
    (
        mk(
            marginfi::accounts::LendingPoolAddBankPermissionless {
                marginfi_group: group, staked_settings: staked_settings_key(&group), fee_payer, bank_mint: lst_mint, sol_pool, stake_pool, bank,
                liquidity_vault_authority: k.lva, liquidity_vault: k.lv, insurance_vault_authority: k.iva, insurance_vault: k.iv, fee_vault_authority: k.fva, fee_vault: k.fv,
                token_program: spl_token::ID, system_program: system_program::ID,
            },
            marginfi::instruction::LendingPoolAddBankPermissionless { bank_seed: seed },
            vec![ro(sol_oracle), ro(lst_mint), ro(sol_pool)],
        ),
        bank,
    )
}
pub fn configure_bank(group: Pubkey, admin: Pubkey, bank: Pubkey, opt: BankConfigOpt) -> Instruction {
    mk(marginfi::accounts::LendingPoolConfigureBank { group, admin, bank }, marginfi::instruction::LendingPoolConfigureBank { bank_config_opt: opt }, vec![])
}
pub fn configure_bank_interest(group: Pubkey, signer: Pubkey, bank: Pubkey, opt: InterestRateConfigOpt) -> Instruction {
    mk(marginfi::accounts::LendingPoolConfigureBankInterestOnly { group, delegate_curve_admin: signer, bank }, marginfi::instruction::LendingPoolConfigureBankInterestOnly { interest_rate_config: opt }, vec![])
}
pub fn configure_bank_limits(group: Pubkey, signer: Pubkey, bank: Pubkey, dep: Option<u64>, bor: Option<u64>, cap: Option<u64>) -> Instruction {
    mk(marginfi::accounts::LendingPoolConfigureBankLimitsOnly { group, delegate_limit_admin: signer, bank }, marginfi::instruction::LendingPoolConfigureBankLimitsOnly { deposit_limit: dep, borrow_limit: bor, total_asset_value_init_limit: cap }, vec![])
}
pub fn force_tokenless_complete(group: Pubkey, signer: Pubkey, bank: Pubkey) -> Instruction {
    mk(marginfi::accounts::LendingPoolForceTokenlessRepayComplete { group, risk_admin: signer, bank }, marginfi::instruction::LendingPoolForceTokenlessRepayComplete {}, vec![])
}
pub fn configure_bank_oracle(group: Pubkey, admin: Pubkey, bank: Pubkey, setup: u8, oracle: Pubkey, rem: Vec<AccountMeta>) -> Instruction {
    mk(marginfi::accounts::LendingPoolConfigureBankOracle { group, admin, bank }, marginfi::instruction::LendingPoolConfigureBankOracle { setup, oracle }, rem)
}
pub fn set_fixed_price(group: Pubkey, admin: Pubkey, bank: Pubkey, price: WrappedI80F48) -> Instruction {
    mk(marginfi::accounts::LendingPoolSetFixedOraclePrice { group, admin, bank }, marginfi::instruction::LendingPoolSetFixedOraclePrice { price }, vec![])
}
pub fn configure_bank_emode(group: Pubkey, signer: Pubkey, bank: Pubkey, tag: u16, entries: [EmodeEntry; MAX_EMODE_ENTRIES]) -> Instruction {
    mk(marginfi::accounts::LendingPoolConfigureBankEmode { group, emode_admin: signer, bank }, marginfi::instruction::LendingPoolConfigureBankEmode { emode_tag: tag, entries }, vec![])
}
pub fn clone_emode(group: Pubkey, signer: Pubkey, from: Pubkey, to: Pubkey) -> Instruction {
    mk(marginfi::accounts::LendingPoolCloneEmode { group, signer, copy_from_bank: from, copy_to_bank: to }, marginfi::instruction::LendingPoolCloneEmode {}, vec![])
}
#[allow(clippy::too_many_arguments)]
pub fn setup_emissions(group: Pubkey, signer: Pubkey, bank: Pubkey, emint: Pubkey, funding: Pubkey, token_program: Pubkey, flags: u64, rate: u64, total: u64) -> Instruction {
    mk(
        marginfi::accounts::LendingPoolSetupEmissions { group, delegate_emissions_admin: signer, bank, emissions_mint: emint, emissions_auth: emissions_auth(&bank, &emint), emissions_token_account: emissions_vault(&bank, &emint), emissions_funding_account: funding, token_program, system_program: system_program::ID },
        marginfi::instruction::LendingPoolSetupEmissions { flags, rate, total_emissions: total },
        vec![],
    )
}
#[allow(clippy::too_many_arguments)]
pub fn update_emissions(group: Pubkey, signer: Pubkey, bank: Pubkey, emint: Pubkey, funding: Pubkey, token_program: Pubkey, flags: Option<u64>, rate: Option<u64>, additional: Option<u64>) -> Instruction {
    mk(
        marginfi::accounts::LendingPoolUpdateEmissionsParameters { group, delegate_emissions_admin: signer, bank, emissions_mint: emint, emissions_token_account: emissions_vault(&bank, &emint), emissions_funding_account: funding, token_program },
        marginfi::instruction::LendingPoolUpdateEmissionsParameters { emissions_flags: flags, emissions_rate: rate, additional_emissions: additional },
        vec![],
    )
}
pub fn accrue(group: Pubkey, bank: Pubkey) -> Instruction {
    mk(marginfi::accounts::LendingPoolAccrueBankInterest { group, bank }, marginfi::instruction::LendingPoolAccrueBankInterest {}, vec![])
}
pub fn collect_fees(group: Pubkey, bank: Pubkey, fee_ata: Pubkey, token_program: Pubkey, rem: Vec<AccountMeta>) -> Instruction {
    let k = BankKeys::of(bank);
    mk(
        marginfi::accounts::LendingPoolCollectBankFees { group, bank, liquidity_vault_authority: k.lva, liquidity_vault: k.lv, insurance_vault: k.iv, fee_vault: k.fv, fee_state: fee_state_key(), fee_ata, token_program },
        marginfi::instruction::LendingPoolCollectBankFees {},
        rem,
    )
}
pub fn withdraw_fees(group: Pubkey, admin: Pubkey, bank: Pubkey, dst: Pubkey, token_program: Pubkey, amount: u64, rem: Vec<AccountMeta>) -> Instruction {
    let k = BankKeys::of(bank);
    mk(marginfi::accounts::LendingPoolWithdrawFees { group, bank, admin, fee_vault: k.fv, fee_vault_authority: k.fva, dst_token_account: dst, token_program }, marginfi::instruction::LendingPoolWithdrawFees { amount }, rem)
}
pub fn withdraw_insurance(group: Pubkey, admin: Pubkey, bank: Pubkey, dst: Pubkey, token_program: Pubkey, amount: u64, rem: Vec<AccountMeta>) -> Instruction {
    let k = BankKeys::of(bank);
    mk(marginfi::accounts::LendingPoolWithdrawInsurance { group, bank, admin, insurance_vault: k.iv, insurance_vault_authority: k.iva, dst_token_account: dst, token_program }, marginfi::instruction::LendingPoolWithdrawInsurance { amount }, rem)
}
pub fn update_fees_destination(group: Pubkey, admin: Pubkey, bank: Pubkey, dest: Pubkey) -> Instruction {
    mk(marginfi::accounts::LendingPoolUpdateFeesDestinationAccount { group, bank, admin, destination_account: dest }, marginfi::instruction::LendingPoolUpdateFeesDestinationAccount {}, vec![])
}
pub fn withdraw_fees_permissionless(group: Pubkey, bank: Pubkey, dest: Pubkey, token_program: Pubkey, amount: u64, rem: Vec<AccountMeta>) -> Instruction {
    let k = BankKeys::of(bank);
    mk(marginfi::accounts::LendingPoolWithdrawFeesPermissionless { group, bank, fee_vault: k.fv, fee_vault_authority: k.fva, fees_destination_account: dest, token_program }, marginfi::instruction::LendingPoolWithdrawFeesPermissionless { amount }, rem)
}
pub fn close_bank(group: Pubkey, admin: Pubkey, bank: Pubkey) -> Instruction {
    mk(marginfi::accounts::LendingPoolCloseBank { group, bank, admin }, marginfi::instruction::LendingPoolCloseBank {}, vec![])
}
pub fn handle_bankruptcy(group: Pubkey, signer: Pubkey, bank: Pubkey, acct: Pubkey, token_program: Pubkey, rem: Vec<AccountMeta>) -> Instruction {
    let k = BankKeys::of(bank);
    mk(
        marginfi::accounts::LendingPoolHandleBankruptcy { group, signer, bank, marginfi_account: acct, liquidity_vault: k.lv, insurance_vault: k.iv, insurance_vault_authority: k.iva, token_program },
        marginfi::instruction::LendingPoolHandleBankruptcy {},
        rem,
    )
}
pub fn pulse_bank_price(group: Pubkey, bank: Pubkey, rem: Vec<AccountMeta>) -> Instruction {
    mk(marginfi::accounts::LendingPoolPulseBankPriceCache { group, bank }, marginfi::instruction::LendingPoolPulseBankPriceCache {}, rem)
}
pub fn migrate_curve(bank: Pubkey) -> Instruction {
    mk(marginfi::accounts::MigrateCurve { bank }, marginfi::instruction::MigrateCurve {}, vec![])
}
pub fn init_bank_metadata(bank: Pubkey, payer: Pubkey) -> Instruction {
    mk(marginfi::accounts::InitBankMetadata { bank, fee_payer: payer, metadata: metadata_key(&bank), system_program: system_program::ID }, marginfi::instruction::InitBankMetadata {}, vec![])
}
pub fn write_bank_metadata(group: Pubkey, bank: Pubkey, signer: Pubkey, ticker: Option<Vec<u8>>, description: Option<Vec<u8>>) -> Instruction {
    mk(marginfi::accounts::WriteBankMetadata { group, bank, metadata_admin: signer, metadata: metadata_key(&bank) }, marginfi::instruction::WriteBankMetadata { ticker, description }, vec![])
}
pub fn init_staked_settings(group: Pubkey, admin: Pubkey, payer: Pubkey, s: marginfi::instructions::StakedSettingsConfig) -> Instruction {
    mk(marginfi::accounts::InitStakedSettings { marginfi_group: group, admin, fee_payer: payer, staked_settings: staked_settings_key(&group), system_program: system_program::ID }, marginfi::instruction::InitStakedSettings { settings: s }, vec![])
}
pub fn edit_staked_settings(group: Pubkey, admin: Pubkey, s: marginfi::instructions::StakedSettingsEditConfig) -> Instruction {
    mk(marginfi::accounts::EditStakedSettings { marginfi_group: group, admin, staked_settings: staked_settings_key(&group) }, marginfi::instruction::EditStakedSettings { settings: s }, vec![])
}
pub fn propagate_staked_settings(group: Pubkey, bank: Pubkey, rem: Vec<AccountMeta>) -> Instruction {
    mk(marginfi::accounts::PropagateStakedSettings { marginfi_group: group, staked_settings: staked_settings_key(&group), bank }, marginfi::instruction::PropagateStakedSettings {}, rem)
}

// ---------------------------------------------------------------- accounts
pub fn account_init(group: Pubkey, acct: Pubkey, authority: Pubkey, payer: Pubkey) -> Instruction {
    mk(marginfi::accounts::MarginfiAccountInitialize { marginfi_group: group, marginfi_account: acct, authority, fee_payer: payer, system_program: system_program::ID }, marginfi::instruction::MarginfiAccountInitialize {}, vec![])
}
pub fn account_init_pda(group: Pubkey, authority: Pubkey, payer: Pubkey, idx: u16, third: Option<u16>) -> (Instruction, Pubkey) {
    let acct = account_pda(&group, &authority, idx, third);
    (
        mk(
            marginfi::accounts::MarginfiAccountInitializePda { marginfi_group: group, marginfi_account: acct, authority, fee_payer: payer, instructions_sysvar: sysvar::instructions::ID, system_program: system_program::ID },
            marginfi::instruction::MarginfiAccountInitializePda { account_index: idx, third_party_id: third },
            vec![],
        ),
        acct,
    )
}
pub fn init_liq_record(acct: Pubkey, payer: Pubkey) -> Instruction {
    mk(marginfi::accounts::InitLiquidationRecord { marginfi_account: acct, fee_payer: payer, liquidation_record: liq_record_key(&acct), system_program: system_program::ID }, marginfi::instruction::MarginfiAccountInitLiqRecord {}, vec![])
}
#[allow(clippy::too_many_arguments)]
pub fn deposit(group: Pubkey, acct: Pubkey, authority: Pubkey, bank: Pubkey, ta: Pubkey, token_program: Pubkey, amount: u64, up_to: Option<bool>, rem: Vec<AccountMeta>) -> Instruction {
    mk(
        marginfi::accounts::LendingAccountDeposit { group, marginfi_account: acct, authority, bank, signer_token_account: ta, liquidity_vault: pda(LIQUIDITY_VAULT_SEED, &bank), token_program },
        marginfi::instruction::LendingAccountDeposit { amount, deposit_up_to_limit: up_to },
        rem,
    )
}
#[allow(clippy::too_many_arguments)]
pub fn repay(group: Pubkey, acct: Pubkey, authority: Pubkey, bank: Pubkey, ta: Pubkey, token_program: Pubkey, amount: u64, all: Option<bool>, rem: Vec<AccountMeta>) -> Instruction {
    mk(
        marginfi::accounts::LendingAccountRepay { group, marginfi_account: acct, authority, bank, signer_token_account: ta, liquidity_vault: pda(LIQUIDITY_VAULT_SEED, &bank), token_program },
        marginfi::instruction::LendingAccountRepay { amount, repay_all: all },
        rem,
    )
}
#[allow(clippy::too_many_arguments)]
pub fn withdraw(group: Pubkey, acct: Pubkey, authority: Pubkey, bank: Pubkey, ta: Pubkey, token_program: Pubkey, amount: u64, all: Option<bool>, rem: Vec<AccountMeta>) -> Instruction {
    mk(
        marginfi::accounts::LendingAccountWithdraw { group, marginfi_account: acct, authority, bank, destination_token_account: ta, bank_liquidity_vault_authority: pda(LIQUIDITY_VAULT_AUTHORITY_SEED, &bank), liquidity_vault: pda(LIQUIDITY_VAULT_SEED, &bank), token_program },
        marginfi::instruction::LendingAccountWithdraw { amount, withdraw_all: all },
        rem,
    )
}
#[allow(clippy::too_many_arguments)]
pub fn borrow(group: Pubkey, acct: Pubkey, authority: Pubkey, bank: Pubkey, ta: Pubkey, token_program: Pubkey, amount: u64, rem: Vec<AccountMeta>) -> Instruction {
    mk(
        marginfi::accounts::LendingAccountBorrow { group, marginfi_account: acct, authority, bank, destination_token_account: ta, bank_liquidity_vault_authority: pda(LIQUIDITY_VAULT_AUTHORITY_SEED, &bank), liquidity_vault: pda(LIQUIDITY_VAULT_SEED, &bank), token_program },
        marginfi::instruction::LendingAccountBorrow { amount },
        rem,
    )
}
pub fn close_balance(group: Pubkey, acct: Pubkey, authority: Pubkey, bank: Pubkey) -> Instruction {
    mk(marginfi::accounts::LendingAccountCloseBalance { group, marginfi_account: acct, authority, bank }, marginfi::instruction::LendingAccountCloseBalance {}, vec![])
}
#[allow(clippy::too_many_arguments)]
pub fn liquidate(group: Pubkey, asset_bank: Pubkey, liab_bank: Pubkey, liquidator: Pubkey, authority: Pubkey, liquidatee: Pubkey, token_program: Pubkey, amount: u64, liquidatee_accounts: u8, liquidator_accounts: u8, rem: Vec<AccountMeta>) -> Instruction {
    mk(
        marginfi::accounts::LendingAccountLiquidate {
            group, asset_bank, liab_bank, liquidator_marginfi_account: liquidator, authority, liquidatee_marginfi_account: liquidatee,
            bank_liquidity_vault_authority: pda(LIQUIDITY_VAULT_AUTHORITY_SEED, &liab_bank), bank_liquidity_vault: pda(LIQUIDITY_VAULT_SEED, &liab_bank), bank_insurance_vault: pda(INSURANCE_VAULT_SEED, &liab_bank), token_program,
        },
        marginfi::instruction::LendingAccountLiquidate { asset_amount: amount, liquidatee_accounts, liquidator_accounts },
        rem,
    )
}
pub fn start_flashloan(acct: Pubkey, authority: Pubkey, end_index: u64) -> Instruction {
    mk(marginfi::accounts::LendingAccountStartFlashloan { marginfi_account: acct, authority, ixs_sysvar: sysvar::instructions::ID }, marginfi::instruction::LendingAccountStartFlashloan { end_index }, vec![])
}
pub fn end_flashloan(acct: Pubkey, authority: Pubkey, rem: Vec<AccountMeta>) -> Instruction {
    mk(marginfi::accounts::LendingAccountEndFlashloan { marginfi_account: acct, authority }, marginfi::instruction::LendingAccountEndFlashloan {}, rem)
}
pub fn start_liquidation(acct: Pubkey, receiver: Pubkey, rem: Vec<AccountMeta>) -> Instruction {
    mk(marginfi::accounts::StartLiquidation { marginfi_account: acct, liquidation_record: liq_record_key(&acct), liquidation_receiver: receiver, instruction_sysvar: sysvar::instructions::ID }, marginfi::instruction::StartLiquidation {}, rem)
}
pub fn end_liquidation(acct: Pubkey, receiver: Pubkey, fee_wallet: Pubkey, rem: Vec<AccountMeta>) -> Instruction {
    mk(marginfi::accounts::EndLiquidation { marginfi_account: acct, liquidation_record: liq_record_key(&acct), liquidation_receiver: receiver, fee_state: fee_state_key(), global_fee_wallet: fee_wallet, system_program: system_program::ID }, marginfi::instruction::EndLiquidation {}, rem)
}
pub fn start_deleverage(group: Pubkey, acct: Pubkey, risk_admin: Pubkey, rem: Vec<AccountMeta>) -> Instruction {
    mk(marginfi::accounts::StartDeleverage { marginfi_account: acct, liquidation_record: liq_record_key(&acct), group, risk_admin, instruction_sysvar: sysvar::instructions::ID }, marginfi::instruction::StartDeleverage {}, rem)
}
pub fn end_deleverage(group: Pubkey, acct: Pubkey, risk_admin: Pubkey, rem: Vec<AccountMeta>) -> Instruction {
    mk(marginfi::accounts::EndDeleverage { marginfi_account: acct, liquidation_record: liq_record_key(&acct), group, risk_admin }, marginfi::instruction::EndDeleverage {}, rem)
}
pub fn pulse_health(acct: Pubkey, rem: Vec<AccountMeta>) -> Instruction {
    mk(marginfi::accounts::PulseHealth { marginfi_account: acct }, marginfi::instruction::LendingAccountPulseHealth {}, rem)
}
pub fn purge_delev_balance(group: Pubkey, acct: Pubkey, risk_admin: Pubkey, bank: Pubkey) -> Instruction {
    mk(marginfi::accounts::LendingAccountPurgeDelevBalance { group, marginfi_account: acct, risk_admin, bank }, marginfi::instruction::PurgeDeleverageBalance {}, vec![])
}
#[allow(clippy::too_many_arguments)]
pub fn transfer_account(group: Pubkey, old: Pubkey, new: Pubkey, authority: Pubkey, payer: Pubkey, new_authority: Pubkey, fee_wallet: Pubkey) -> Instruction {
    mk(
        marginfi::accounts::TransferToNewAccount { group, old_marginfi_account: old, new_marginfi_account: new, authority, fee_payer: payer, new_authority, global_fee_wallet: fee_wallet, system_program: system_program::ID },
        marginfi::instruction::TransferToNewAccount {},
        vec![],
    )
}
#[allow(clippy::too_many_arguments)]
pub fn transfer_account_pda(group: Pubkey, old: Pubkey, authority: Pubkey, payer: Pubkey, new_authority: Pubkey, fee_wallet: Pubkey, idx: u16, third: Option<u16>) -> (Instruction, Pubkey) {
    let new = account_pda(&group, &new_authority, idx, third);
    (
        mk(
            marginfi::accounts::TransferToNewAccountPda { group, old_marginfi_account: old, new_marginfi_account: new, authority, fee_payer: payer, new_authority, global_fee_wallet: fee_wallet, instructions_sysvar: sysvar::instructions::ID, system_program: system_program::ID },
            marginfi::instruction::TransferToNewAccountPda { account_index: idx, third_party_id: third },
            vec![],
        ),
        new,
    )
}
pub fn set_freeze(group: Pubkey, acct: Pubkey, admin: Pubkey, frozen: bool) -> Instruction {
    mk(marginfi::accounts::SetAccountFreeze { group, marginfi_account: acct, admin }, marginfi::instruction::MarginfiAccountSetFreeze { frozen }, vec![])
}
pub fn close_account(acct: Pubkey, authority: Pubkey, payer: Pubkey) -> Instruction {
    mk(marginfi::accounts::MarginfiAccountClose { marginfi_account: acct, authority, fee_payer: payer }, marginfi::instruction::MarginfiAccountClose {}, vec![])
}
#[allow(clippy::too_many_arguments)]
pub fn withdraw_emissions(group: Pubkey, acct: Pubkey, authority: Pubkey, bank: Pubkey, emint: Pubkey, dest: Pubkey, token_program: Pubkey) -> Instruction {
    mk(
        marginfi::accounts::LendingAccountWithdrawEmissions { group, marginfi_account: acct, authority, bank, emissions_mint: emint, emissions_auth: emissions_auth(&bank, &emint), emissions_vault: emissions_vault(&bank, &emint), destination_account: dest, token_program },
        marginfi::instruction::LendingAccountWithdrawEmissions {},
        vec![],
    )
}
pub fn withdraw_emissions_permissionless(group: Pubkey, acct: Pubkey, bank: Pubkey, emint: Pubkey, dest: Pubkey, token_program: Pubkey) -> Instruction {
    mk(
        marginfi::accounts::LendingAccountWithdrawEmissionsPermissionless { group, marginfi_account: acct, bank, emissions_mint: emint, emissions_auth: emissions_auth(&bank, &emint), emissions_vault: emissions_vault(&bank, &emint), destination_account: dest, token_program },
        marginfi::instruction::LendingAccountWithdrawEmissionsPermissionless {},
        vec![],
    )
}
pub fn settle_emissions(acct: Pubkey, bank: Pubkey) -> Instruction {
    mk(marginfi::accounts::LendingAccountSettleEmissions { marginfi_account: acct, bank }, marginfi::instruction::LendingAccountSettleEmissions {}, vec![])
}
pub fn update_emissions_destination(acct: Pubkey, authority: Pubkey, dest: Pubkey) -> Instruction {
    mk(marginfi::accounts::MarginfiAccountUpdateEmissionsDestinationAccount { marginfi_account: acct, authority, destination_account: dest }, marginfi::instruction::MarginfiAccountUpdateEmissionsDestinationAccount {}, vec![])
}

/// Wrap an instruction so that it is executed through the generic CPI proxy at `proxy_id`.
pub fn via_proxy(proxy_id: Pubkey, ix: &Instruction) -> Instruction {
    let mut metas = vec![AccountMeta::new_readonly(ix.program_id, false)];
    metas.extend(ix.accounts.iter().cloned());
    Instruction { program_id: proxy_id, accounts: metas, data: ix.data.clone() }
}
/// A no-op instruction of a foreign program (proxy with no accounts).
pub fn foreign_noop(proxy_id: Pubkey, tag: u64) -> Instruction {
    let mut data = vec![0u8; 8];
    data.extend_from_slice(&tag.to_le_bytes());
    Instruction { program_id: proxy_id, accounts: vec![], data }
}

/// The 8-byte Anchor discriminator of an instruction data struct.
pub fn discr<D: InstructionData>(d: D) -> [u8; 8] {
    let v = d.data();
    let mut o = [0u8; 8];
    o.copy_from_slice(&v[..8]);
    o
}

// ---------------------------------------------------------------- Kamino pass-through
#[derive(Clone, Copy, Debug, PartialEq, Eq)]
pub enum VenueKind {
    Kamino,
    Solend,
    /// fields reused: market = drift state, lma = drift signer, reserve = spot market,
    /// obligation = drift user, supply = spot market vault, col_mint = user stats
    Drift,
}
/// Venue-side accounts of a pass-through bank (Kamino and Solend share the reserve/obligation shape).
#[derive(Clone, Copy, Debug)]
pub struct VenueKeys {
    pub kind: VenueKind,
    pub market: Pubkey,
    pub lma: Pubkey,
    pub reserve: Pubkey,
    pub obligation: Pubkey,
    pub supply: Pubkey,
    pub col_mint: Pubkey,
    pub col_supply: Pubkey,
    /// Solend only: the (unchecked) user collateral token account slot
    pub user_collateral: Pubkey,
}
#[allow(clippy::too_many_arguments)]
pub fn add_bank_kamino(group: Pubkey, admin: Pubkey, fee_payer: Pubkey, mint: Pubkey, seed: u64, reserve: Pubkey, obligation: Pubkey, token_program: Pubkey, cfg: marginfi::state::kamino::KaminoConfigCompact, rem: Vec<AccountMeta>) -> (Instruction, Pubkey) {
    let bank = bank_pda(&group, &mint, seed);
    let k = BankKeys::of(bank);
    (
        mk(
            marginfi::accounts::LendingPoolAddBankKamino {
                group, admin, fee_payer, bank_mint: mint, bank, integration_acc_1: reserve, integration_acc_2: obligation,
                liquidity_vault_authority: k.lva, liquidity_vault: k.lv, insurance_vault_authority: k.iva, insurance_vault: k.iv, fee_vault_authority: k.fva, fee_vault: k.fv,
                token_program, system_program: system_program::ID,
            },
            marginfi::instruction::LendingPoolAddBankKamino { bank_config: cfg, bank_seed: seed },
            rem,
        ),
        bank,
    )
}
#[allow(clippy::too_many_arguments)]
pub fn kamino_deposit(group: Pubkey, acct: Pubkey, authority: Pubkey, bank: Pubkey, ta: Pubkey, mint: Pubkey, token_program: Pubkey, kk: &VenueKeys, amount: u64) -> Instruction {
    mk(
        marginfi::accounts::KaminoDeposit {
            group, marginfi_account: acct, authority, bank, signer_token_account: ta,
            liquidity_vault_authority: pda(LIQUIDITY_VAULT_AUTHORITY_SEED, &bank), liquidity_vault: pda(LIQUIDITY_VAULT_SEED, &bank),
            integration_acc_2: kk.obligation, lending_market: kk.market, lending_market_authority: kk.lma, integration_acc_1: kk.reserve, mint,
            reserve_liquidity_supply: kk.supply, reserve_collateral_mint: kk.col_mint, reserve_destination_deposit_collateral: kk.col_supply,
            obligation_farm_user_state: None, reserve_farm_state: None,
            kamino_program: marginfi::constants::KAMINO_PROGRAM_ID, farms_program: marginfi::constants::FARMS_PROGRAM_ID,
            collateral_token_program: spl_token::ID, liquidity_token_program: token_program, instruction_sysvar_account: sysvar::instructions::ID,
        },
        marginfi::instruction::KaminoDeposit { amount },
        vec![],
    )
}
#[allow(clippy::too_many_arguments)]
pub fn kamino_withdraw(group: Pubkey, acct: Pubkey, authority: Pubkey, bank: Pubkey, ta: Pubkey, mint: Pubkey, token_program: Pubkey, kk: &VenueKeys, amount: u64, all: Option<bool>, rem: Vec<AccountMeta>) -> Instruction {
    mk(
        marginfi::accounts::KaminoWithdraw {
            group, marginfi_account: acct, authority, bank, destination_token_account: ta,
            liquidity_vault_authority: pda(LIQUIDITY_VAULT_AUTHORITY_SEED, &bank), liquidity_vault: pda(LIQUIDITY_VAULT_SEED, &bank),
            integration_acc_2: kk.obligation, lending_market: kk.market, lending_market_authority: kk.lma, integration_acc_1: kk.reserve, reserve_liquidity_mint: mint,
            reserve_liquidity_supply: kk.supply, reserve_collateral_mint: kk.col_mint, reserve_source_collateral: kk.col_supply,
            obligation_farm_user_state: None, reserve_farm_state: None,
            kamino_program: marginfi::constants::KAMINO_PROGRAM_ID, farms_program: marginfi::constants::FARMS_PROGRAM_ID,
            collateral_token_program: spl_token::ID, liquidity_token_program: token_program, instruction_sysvar_account: sysvar::instructions::ID,
        },
        marginfi::instruction::KaminoWithdraw { amount, withdraw_all: all },
        rem,
    )
}

// ---------------------------------------------------------------- Solend pass-through
#[allow(clippy::too_many_arguments)]
pub fn add_bank_solend(group: Pubkey, admin: Pubkey, fee_payer: Pubkey, mint: Pubkey, seed: u64, reserve: Pubkey, token_program: Pubkey, cfg: marginfi::state::solend::SolendConfigCompact, rem: Vec<AccountMeta>) -> (Instruction, Pubkey, Pubkey) {
    let bank = bank_pda(&group, &mint, seed);
    let k = BankKeys::of(bank);
    let obligation = Pubkey::find_program_address(&[marginfi::constants::SOLEND_OBLIGATION_SEED.as_bytes(), bank.as_ref()], &MFI).0;
    (
        mk(
            marginfi::accounts::LendingPoolAddBankSolend {
                group, admin, fee_payer, bank_mint: mint, bank, integration_acc_1: reserve, integration_acc_2: obligation,
                liquidity_vault_authority: k.lva, liquidity_vault: k.lv, insurance_vault_authority: k.iva, insurance_vault: k.iv, fee_vault_authority: k.fva, fee_vault: k.fv,
                token_program, system_program: system_program::ID,
            },
            marginfi::instruction::LendingPoolAddBankSolend { bank_config: cfg, bank_seed: seed },
            rem,
        ),
        bank,
        obligation,
    )
}
#[allow(clippy::too_many_arguments)]
pub fn solend_deposit(group: Pubkey, acct: Pubkey, authority: Pubkey, bank: Pubkey, ta: Pubkey, mint: Pubkey, token_program: Pubkey, kk: &VenueKeys, amount: u64) -> Instruction {
    mk(
        marginfi::accounts::SolendDeposit {
            group, marginfi_account: acct, authority, bank, signer_token_account: ta,
            liquidity_vault_authority: pda(LIQUIDITY_VAULT_AUTHORITY_SEED, &bank), liquidity_vault: pda(LIQUIDITY_VAULT_SEED, &bank),
            integration_acc_2: kk.obligation, lending_market: kk.market, lending_market_authority: kk.lma, integration_acc_1: kk.reserve, mint,
            reserve_liquidity_supply: kk.supply, reserve_collateral_mint: kk.col_mint, reserve_collateral_supply: kk.col_supply, user_collateral: kk.user_collateral,
            pyth_price: system_program::ID, switchboard_feed: system_program::ID,
            solend_program: marginfi::constants::SOLEND_PROGRAM_ID, token_program,
        },
        marginfi::instruction::SolendDeposit { amount },
        vec![],
    )
}
#[allow(clippy::too_many_arguments)]
pub fn solend_withdraw(group: Pubkey, acct: Pubkey, authority: Pubkey, bank: Pubkey, ta: Pubkey, mint: Pubkey, token_program: Pubkey, kk: &VenueKeys, amount: u64, all: Option<bool>, rem: Vec<AccountMeta>) -> Instruction {
    mk(
        marginfi::accounts::SolendWithdraw {
            group, marginfi_account: acct, authority, bank, destination_token_account: ta,
            liquidity_vault_authority: pda(LIQUIDITY_VAULT_AUTHORITY_SEED, &bank), liquidity_vault: pda(LIQUIDITY_VAULT_SEED, &bank),
            integration_acc_2: kk.obligation, lending_market: kk.market, lending_market_authority: kk.lma, integration_acc_1: kk.reserve, mint,
            reserve_liquidity_supply: kk.supply, reserve_collateral_mint: kk.col_mint, reserve_collateral_supply: kk.col_supply, user_collateral: kk.user_collateral,
            solend_program: marginfi::constants::SOLEND_PROGRAM_ID, token_program,
        },
        marginfi::instruction::SolendWithdraw { amount, withdraw_all: all },
        rem,
    )
}

// ---------------------------------------------------------------- Drift pass-through
#[allow(clippy::too_many_arguments)]
pub fn add_bank_drift(group: Pubkey, admin: Pubkey, fee_payer: Pubkey, mint: Pubkey, seed: u64, spot_market: Pubkey, token_program: Pubkey, cfg: marginfi::state::drift::DriftConfigCompact, rem: Vec<AccountMeta>) -> (Instruction, Pubkey) {
    let bank = bank_pda(&group, &mint, seed);
    let k = BankKeys::of(bank);
    let drift = marginfi::constants::DRIFT_PROGRAM_ID;
    let user = Pubkey::find_program_address(&[b"user", k.lva.as_ref(), &0u16.to_le_bytes()], &drift).0;
    let stats = Pubkey::find_program_address(&[b"user_stats", k.lva.as_ref()], &drift).0;
    (
        mk(
            marginfi::accounts::LendingPoolAddBankDrift {
                group, admin, fee_payer, bank_mint: mint, bank, integration_acc_1: spot_market, integration_acc_2: user, integration_acc_3: stats,
                liquidity_vault_authority: k.lva, liquidity_vault: k.lv, insurance_vault_authority: k.iva, insurance_vault: k.iv, fee_vault_authority: k.fva, fee_vault: k.fv,
                token_program, system_program: system_program::ID,
            },
            marginfi::instruction::LendingPoolAddBankDrift { bank_config: cfg, bank_seed: seed },
            rem,
        ),
        bank,
    )
}
#[allow(clippy::too_many_arguments)]
pub fn drift_deposit(group: Pubkey, acct: Pubkey, authority: Pubkey, bank: Pubkey, ta: Pubkey, mint: Pubkey, token_program: Pubkey, kk: &VenueKeys, amount: u64) -> Instruction {
    mk(
        marginfi::accounts::DriftDeposit {
            group, marginfi_account: acct, authority, bank, drift_oracle: None,
            liquidity_vault_authority: pda(LIQUIDITY_VAULT_AUTHORITY_SEED, &bank), liquidity_vault: pda(LIQUIDITY_VAULT_SEED, &bank), signer_token_account: ta,
            drift_state: kk.market, integration_acc_2: kk.obligation, integration_acc_3: kk.col_mint, integration_acc_1: kk.reserve, drift_spot_market_vault: kk.supply, mint,
            drift_program: marginfi::constants::DRIFT_PROGRAM_ID, token_program, system_program: system_program::ID,
        },
        marginfi::instruction::DriftDeposit { amount },
        vec![],
    )
}
#[allow(clippy::too_many_arguments)]
pub fn drift_withdraw(group: Pubkey, acct: Pubkey, authority: Pubkey, bank: Pubkey, ta: Pubkey, mint: Pubkey, token_program: Pubkey, kk: &VenueKeys, amount: u64, all: Option<bool>, rem: Vec<AccountMeta>) -> Instruction {
    mk(
        marginfi::accounts::DriftWithdraw {
            group, marginfi_account: acct, authority, bank, drift_oracle: None,
            liquidity_vault_authority: pda(LIQUIDITY_VAULT_AUTHORITY_SEED, &bank), liquidity_vault: pda(LIQUIDITY_VAULT_SEED, &bank), destination_token_account: ta,
            drift_state: kk.market, integration_acc_2: kk.obligation, integration_acc_3: kk.col_mint, integration_acc_1: kk.reserve, drift_spot_market_vault: kk.supply,
            drift_reward_oracle: None, drift_reward_spot_market: None, drift_reward_mint: None, drift_reward_oracle_2: None, drift_reward_spot_market_2: None, drift_reward_mint_2: None,
            drift_signer: kk.lma, mint, drift_program: marginfi::constants::DRIFT_PROGRAM_ID, token_program, system_program: system_program::ID,
        },
        marginfi::instruction::DriftWithdraw { amount, withdraw_all: all },
        rem,
    )
}
