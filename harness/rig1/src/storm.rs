//! W-world + W-storm: seeded world generation and long random, boundary-biased, partly hostile
//! histories executed as real transactions under the monitors.
use crate::ix;
use crate::mon::Mon;
use crate::num::*;
use crate::state::*;
use crate::world::*;
use fixed::types::I80F48;
use marginfi_type_crate::types::*;
use rand::{Rng, SeedableRng};
use rand_chacha::ChaCha8Rng;
use solana_sdk::signature::Signer;

pub type R = ChaCha8Rng;
pub fn rng(seed: u64) -> R {
    ChaCha8Rng::seed_from_u64(seed)
}

pub struct StormCfg {
    pub n_banks: usize,
    pub n_users: usize,
    pub program_fees: bool,
    pub magnitude: u8, // 0 dust, 1 normal, 2 u64-scale
    pub with_staked: bool,
    /// number of isolated-tier banks (the last ones)
    pub n_isolated: usize,
    /// configure e-mode tags / entries on the banks
    pub emode: bool,
    /// number of Kamino pass-through banks served by the venue stand-in
    pub n_venue: usize,
}

pub fn pick<T: Copy>(r: &mut R, xs: &[T]) -> T {
    xs[r.gen_range(0..xs.len())]
}

pub fn rand_bank_cfg(r: &mut R, isolated: bool) -> BankConfigCompact {
    let mut c = default_bank_cfg();
    if isolated {
        c.risk_tier = RiskTier::Isolated;
        c.asset_weight_init = wi(0.0);
        c.asset_weight_maint = wi(0.0);
    } else {
        let ai: f64 = pick(r, &[0.0, 0.3, 0.5, 0.8, 0.9, 1.0]);
        let am: f64 = (ai + pick(r, &[0.0f64, 0.05, 0.1, 0.5])).min(2.0);
        c.asset_weight_init = wi(ai);
        c.asset_weight_maint = wi(am);
    }
    let lm = pick(r, &[1.0, 1.05, 1.1, 1.5]);
    let li = lm + pick(r, &[0.0, 0.05, 0.2, 1.0]);
    c.liability_weight_init = wi(li);
    c.liability_weight_maint = wi(lm);
    // a seventh of the banks start at a base rate of exactly zero (and stay there over a first stretch
    // of the curve): fixed fees are then all there is to accrue
    let zero_start = r.gen_bool(0.15);
    let z = if zero_start { 0 } else { r.gen_range(0..u32::MAX / 40) };
    let h = z + r.gen_range(0..u32::MAX / 4);
    c.interest_rate_config.zero_util_rate = z;
    c.interest_rate_config.hundred_util_rate = h;
    let np = r.gen_range(0..=5usize);
    let mut pts = vec![];
    let mut u = 0u32;
    let mut rt = z;
    for i in 0..np {
        let remaining = (np - i) as u32;
        u = u.saturating_add(r.gen_range(1..(u32::MAX - u) / (remaining + 1) + 2)).min(u32::MAX - remaining);
        if !(zero_start && i < 2) {
            rt = rt + r.gen_range(0..=(h - rt) / (remaining + 1));
        }
        pts.push(RatePoint::new(u.max(1), rt));
    }
    c.interest_rate_config.points = make_points(&pts);
    c.interest_rate_config.insurance_fee_fixed_apr = wi(pick(r, &[0.0, 0.001, 0.01]));
    c.interest_rate_config.insurance_ir_fee = wi(pick(r, &[0.0, 0.05, 0.1]));
    c.interest_rate_config.protocol_fixed_fee_apr = wi(pick(r, &[0.0, 0.002, 0.01]));
    c.interest_rate_config.protocol_ir_fee = wi(pick(r, &[0.0, 0.05, 0.2]));
    c.interest_rate_config.protocol_origination_fee = wi(pick(r, &[0.0, 0.0, 0.001, 0.01]));
    c.oracle_max_age = pick(r, &[30u16, 60, 600, 65535]);
    c.oracle_max_confidence = pick(r, &[0u32, u32::MAX / 50, u32::MAX / 10, u32::MAX]);
    c
}

pub struct Storm {
    pub r: R,
    pub cfg: StormCfg,
    pub g: usize,
    pub liquidator: usize, // account idx
    pub steps: u64,
    pub accepted: u64,
}

pub fn amount_near(r: &mut R, base: u64) -> u64 {
    // boundary-biased amounts around a reference quantity
    match r.gen_range(0..12) {
        0 => 0,
        1 => 1,
        2 => 2,
        3 => base,
        4 => base.saturating_add(1),
        5 => base.saturating_sub(1),
        6 => base / 2,
        7 => base.saturating_mul(2),
        8 => u64::MAX,
        9 => r.gen_range(0..=base.max(1)),
        10 => r.gen_range(0..=base.max(1) / 1000 + 1),
        _ => ((base as f64) * r.gen_range(0.0..1.5)) as u64,
    }
}

impl Storm {
    pub async fn build(seed: u64, cfg: StormCfg) -> (World, Storm) {
        let mut r = rng(seed ^ 0x5707);
        let fee = FeeCfg { bank_init_fee: pick(&mut r, &[0, 10000]), liq_flat_fee: pick(&mut r, &[0, 5000]), program_fee_fixed: pick(&mut r, &[0.0, 0.005]), program_fee_rate: pick(&mut r, &[0.0, 0.1]), liq_max_fee: pick(&mut r, &[0.0, 0.1]) };
        let mut w = World::new(seed, 1_700_000_000, fee).await;
        let g = w.add_group().await;
        if !cfg.program_fees {
            let fa = clone_kp(&w.fee_admin);
            let r0 = w.raw_send(&[ix::config_group_fee(w.groups[g].key, fa.pubkey(), false)], &[&fa]).await;
            assert!(r0.ok());
        }
        let now = w.chain.now();
        let fund: u64 = match cfg.magnitude {
            0 => 1_000_000,
            1 => 1 << 44,
            _ => u64::MAX / 64,
        };
        for i in 0..cfg.n_banks {
            let decimals = pick(&mut r, &[0u8, 2, 6, 6, 8, 9, 9, 12]);
            let kind = match i % 4 {
                0 => TokKind::Classic,
                1 => TokKind::Classic,
                2 => TokKind::T22Fee { bps: pick(&mut r, &[1u16, 100, 250, 5000]), max: pick(&mut r, &[1u64, 5000, u64::MAX]) },
                _ => TokKind::T22,
            };
            let m = w.add_mint(decimals, kind).await;
            let isolated = i + cfg.n_isolated >= cfg.n_banks && cfg.n_banks > cfg.n_isolated + 1;
            let mut c = rand_bank_cfg(&mut r, isolated);
            if i == 1 {
                c.asset_tag = 1; // SOL tag
            }
            if r.gen_bool(0.3) {
                c.deposit_limit = fund.saturating_mul(pick(&mut r, &[1u64, 3, 10]));
            }
            if r.gen_bool(0.3) {
                c.borrow_limit = fund / pick(&mut r, &[2u64, 10]);
            } else if r.gen_bool(0.12) && i > 0 {
                c.borrow_limit = 0; // lending switched off
            }
            if r.gen_bool(0.25) && !isolated {
                c.total_asset_value_init_limit = pick(&mut r, &[1u64, 1000, 1_000_000]);
            }
            // prices such that one whole token is worth between $0.01 and $50k
            let usd = pick(&mut r, &[0.01f64, 0.5, 1.0, 1.0, 25.0, 150.0, 50_000.0]);
            let conf_frac = pick(&mut r, &[0.0, 0.001, 0.02, 0.04]);
            let bi = if i % 3 == 2 {
                let v = (usd * 1e18) as i128;
                w.add_bank_swb(g, m, c, SwbPx { value: v, std_dev: (v as f64 * conf_frac / 1.96) as i128, last_update: now }).await
            } else if i % 5 == 4 {
                w.add_bank_fixed(g, m, c, wi(usd)).await
            } else {
                let expo = pick(&mut r, &[-8i32, -6, -5]);
                let p = (usd * 10f64.powi(-expo)) as i64;
                let cf = (p as f64 * conf_frac / 2.12) as u64;
                w.add_bank_pyth(g, m, c, PythPx { price: p, conf: cf, ema: p, ema_conf: cf, expo, publish_time: now, partial: 0 }).await
            };
            bi.expect("bank creation");
            w.create_ata(w.fee_wallet.pubkey(), m).await;
        }
        for k in 0..cfg.n_venue {
            let solend = k % 3 == 1;
            let drift = k % 3 == 2;
            let decimals = pick(&mut r, &[6u8, 6, 9, 8]);
            let m = w.add_mint(decimals, if k % 3 == 2 { TokKind::T22 } else { TokKind::Classic }).await;
            let ai: f64 = pick(&mut r, &[0.0, 0.5, 0.8, 0.9, 1.0]);
            let am: f64 = (ai + pick(&mut r, &[0.0f64, 0.05, 0.1])).min(1.0).max(ai);
            // some caps are small enough to be reached by the storm's deposits
            let deposit_limit = if r.gen_bool(0.4) { pick(&mut r, &[fund / 4096, fund / 64, fund, fund.saturating_mul(3)]) } else { u64::MAX };
            let init_limit = if r.gen_bool(0.2) { pick(&mut r, &[1000u64, 1_000_000]) } else { 0 };
            let max_age = pick(&mut r, &[30u16, 60, 600, 65535]);
            let max_conf = pick(&mut r, &[0u32, u32::MAX / 10, u32::MAX]);
            let usd = pick(&mut r, &[0.01f64, 1.0, 1.0, 25.0, 150.0]);
            let conf_frac = pick(&mut r, &[0.0, 0.001, 0.02]);
            let expo = pick(&mut r, &[-8i32, -6, -5]);
            let p = (usd * 10f64.powi(-expo)) as i64;
            let cf = (p as f64 * conf_frac / 2.12) as u64;
            // starting supplies of the venue reserve (exchange rate = liq / col)
            let unit = 10u64.pow(decimals as u32);
            let (liq, col) = match r.gen_range(0..9) {
                // a reserve that took a loss: less liquidity than collateral supply (rate below 1)
                7 => (999_000 * unit, 1_000_000 * unit),
                8 => (500_000 * unit + 1, 1_000_000 * unit),
                0 => (0, 0),
                1 => (1_000_000 * unit, 1_000_000 * unit),
                2 => (1_050_000 * unit, 1_000_000 * unit),
                3 => (3_000 * unit + 7, 1_000 * unit + 3),
                4 => (unit, 1),
                5 => (1_000_003, 999_983),
                _ => (r.gen_range(1..(1u64 << 40)), r.gen_range(1..(1u64 << 40))),
            };
            let (liq, col) = if cfg.magnitude == 0 { (liq.min(1 << 30), col.min(1 << 30).max((liq > 0) as u64)) } else { (liq, col) };
            let px = PythPx { price: p, conf: cf, ema: p, ema_conf: cf, expo, publish_time: now, partial: 0 };
            if r.gen_bool(0.3) {
                // the Switchboard variant of the venue oracle setup
                let v = (usd * 1e18) as i128;
                w.venue_swb_next = Some(SwbPx { value: v, std_dev: (v as f64 * conf_frac / 1.96) as i128, last_update: now });
            }
            if drift {
                let mut c = marginfi::state::drift::DriftConfigCompact::default();
                c.asset_weight_init = wi(ai);
                c.asset_weight_maint = wi(am);
                c.deposit_limit = deposit_limit;
                c.total_asset_value_init_limit = init_limit;
                c.oracle_max_age = max_age;
                c.oracle_max_confidence = max_conf;
                let cum: u128 = pick(&mut r, &[10_000_000_000u128, 10_000_000_001, 10_512_345_678, 13_000_000_000, 29_999_999_999]);
                w.add_bank_drift(g, m, c, px, cum, pick(&mut r, &[0u16, 1, 7]), k as u64).await.expect("drift bank creation");
            } else if solend {
                let mut c = marginfi::state::solend::SolendConfigCompact::default();
                c.asset_weight_init = wi(ai);
                c.asset_weight_maint = wi(am);
                c.deposit_limit = deposit_limit;
                c.total_asset_value_init_limit = init_limit;
                c.oracle_max_age = max_age;
                c.oracle_max_confidence = max_conf;
                // Solend reserves start 1:1 when empty; a seed deposit of 100 collateral exists
                let (liq, col) = if col == 0 { (100, 100) } else { (liq.max(1), col.max(100)) };
                w.add_bank_solend(g, m, c, px, liq, col, k as u64).await.expect("solend bank creation");
            } else {
                let mut c = marginfi::state::kamino::KaminoConfigCompact::default();
                c.asset_weight_init = wi(ai);
                c.asset_weight_maint = wi(am);
                c.deposit_limit = deposit_limit;
                c.total_asset_value_init_limit = init_limit;
                c.oracle_max_age = max_age;
                c.oracle_max_confidence = max_conf;
                w.add_bank_kamino(g, m, c, px, liq, col, k as u64).await.expect("kamino bank creation");
            }
            w.create_ata(w.fee_wallet.pubkey(), m).await;
        }
        if cfg.emode {
            configure_emode(&mut w, &mut r, g).await;
        }
        if cfg.with_staked {
            // staked-collateral bank over planted single-pool accounts
            let admin = clone_kp(&w.groups[g].admin);
            let p = w.chain.payer.pubkey();
            let sol_oracle = w.next_kp().pubkey();
            w.set_pyth(&sol_oracle, PythPx::simple(150_000_000, -6, now));
            let st = marginfi::instructions::StakedSettingsConfig { oracle: sol_oracle, asset_weight_init: wi(0.8), asset_weight_maint: wi(0.9), deposit_limit: u64::MAX, total_asset_value_init_limit: 0, oracle_max_age: 600, risk_tier: RiskTier::Collateral };
            let i = ix::init_staked_settings(w.groups[g].key, admin.pubkey(), p, st);
            if w.raw_send(&[i], &[&admin]).await.ok() {
                // pools from two SOL (the single pool keeps one SOL that is not redeemable) to a million
                let stake = pick(&mut r, &[2_000_000_000u64, 5_000_000_000, 101_000_000_000, 1_000_000_000_000_000]);
                let _ = w.add_staked_bank(g, sol_oracle, stake, 0).await;
            }
        }
        let staked_mint = if cfg.with_staked { w.mints.len().checked_sub(1) } else { None };
        for _ in 0..cfg.n_users {
            let u = w.add_user(fund).await;
            if let Some(sm) = staked_mint {
                // add_user minted `fund` of every mint incl. the LST (harness is its mint authority)
                let _ = sm;
            }
            w.add_account(g, u).await;
            if r.gen_bool(0.3) {
                w.add_account(g, u).await;
            }
        }
        // liquidator: rich user with deposits everywhere
        let lu = w.add_user(fund).await;
        let liquidator = w.add_account(g, lu).await;
        // seed insurance vaults of some banks
        for b in 0..w.banks.len() {
            if r.gen_bool(0.5) {
                let iv = w.banks[b].k.iv;
                let mi = w.banks[b].mint;
                w.mint_to(mi, iv, fund / 1000 + 1).await;
            }
        }
        // a second, empty group (program fees enabled, as every new group has them): what a caller
        // presents when it names a foreign group next to one of this group's banks
        let _ = w.add_group().await;
        (w, Storm { r, cfg, g, liquidator, steps: 0, accepted: 0 })
    }

    fn some_acct(&mut self, w: &World) -> usize {
        self.r.gen_range(0..w.accts.len())
    }
    fn some_bank(&mut self, w: &World) -> usize {
        self.r.gen_range(0..w.banks.len())
    }

    /// value of account `a`'s position in bank `b`: (asset amount, liability amount) in native units
    pub fn position(&self, w: &World, a: usize, b: usize) -> (u64, u64) {
        let acc = w.acct(a);
        let bank = w.bank(b);
        let q = BankQ::of(&bank);
        for bal in acc.lending_account.balances.iter() {
            if bal.active != 0 && bal.bank_pk == w.banks[b].key {
                let av = to_u64_floor(&(fx(&bal.asset_shares.value) * &q.asv)).unwrap_or(u64::MAX);
                let lv = to_u64_floor(&(fx(&bal.liability_shares.value) * &q.lsv)).unwrap_or(u64::MAX);
                return (av, lv);
            }
        }
        (0, 0)
    }

    pub async fn step(&mut self, w: &mut World, m: &mut Mon) {
        self.steps += 1;
        let roll = self.r.gen_range(0..100);
        let a = self.some_acct(w);
        let b = self.some_bank(w);
        let auth = w.auth_of(a);
        let ta = w.ta_of(a, b);
        let wallet = w.token(&ta);
        let (pos_a, pos_l) = self.position(w, a, b);
        let vault = w.token(&w.banks[b].k.lv);
        if w.banks[b].venue.is_some() {
            let out = self.venue_step(w, m, roll, a, b).await;
            if out.map(|o| o.ok()).unwrap_or(false) {
                self.accepted += 1;
            }
            return;
        }
        let out = match roll {
            0..=21 => {
                let base = pick(&mut self.r, &[wallet, wallet / 1000 + 1, 1_000_000, vault]);
                let amt = amount_near(&mut self.r, base);
                let up = pick(&mut self.r, &[None, None, Some(true), Some(false)]);
                let i = w.ix_deposit(a, b, auth.pubkey(), ta, amt, up);
                w.exec(m, &[i], &[&auth]).await
            }
            22..=35 => {
                let all = self.r.gen_bool(0.2);
                let amt = amount_near(&mut self.r, pos_a);
                let i = w.ix_withdraw(a, b, auth.pubkey(), ta, amt, if all { Some(true) } else { None });
                w.exec(m, &[i], &[&auth]).await
            }
            36..=51 => {
                let base = pick(&mut self.r, &[vault, vault / 2, vault / 100 + 1, 1000]);
                let amt = amount_near(&mut self.r, base);
                let i = w.ix_borrow(a, b, auth.pubkey(), ta, amt);
                w.exec(m, &[i], &[&auth]).await
            }
            52..=63 => {
                let all = self.r.gen_bool(0.3);
                let amt = amount_near(&mut self.r, pos_l);
                let i = w.ix_repay(a, b, auth.pubkey(), ta, amt, if all { Some(true) } else { None });
                w.exec(m, &[i], &[&auth]).await
            }
            64..=66 => {
                let i = ix::close_balance(w.groups[self.g].key, w.accts[a].key, auth.pubkey(), w.banks[b].key);
                w.exec(m, &[i], &[&auth]).await
            }
            67..=71 => {
                // anybody may crank a bank's interest - presenting the bank's own group; now and then
                // a caller presents another group (whose fee settings differ) next to the bank
                let i = if w.groups.len() > 1 && self.r.gen_bool(0.12) {
                    let og = (w.banks[b].group + 1) % w.groups.len();
                    m.r.count("storm.accruals_presenting_a_foreign_group");
                    ix::accrue(w.groups[og].key, w.banks[b].key)
                } else {
                    w.ix_accrue(b)
                };
                w.exec(m, &[i], &[]).await
            }
            72..=74 => {
                let i = w.ix_collect_fees(b);
                w.exec(m, &[i], &[]).await
            }
            75..=82 => {
                // time passes
                let dt = pick(&mut self.r, &[0i64, 1, 1, 7, 60, 3600, 86_400, 30 * 86_400, 365 * 86_400]);
                w.chain.advance(dt);
                if self.r.gen_bool(0.2) {
                    w.chain.advance_epoch();
                }
                if self.r.gen_bool(0.9) {
                    w.refresh_oracles();
                }
                return;
            }
            83..=88 => {
                if let TokKind::T22Fee { .. } = w.mints[w.banks[b].mint].kind {
                    if self.r.gen_bool(0.35) {
                        // the mint's fee authority schedules a new transfer fee (takes effect two epochs later)
                        let bps = pick(&mut self.r, &[0u16, 1, 50, 300, 1000, 9000]);
                        let max = pick(&mut self.r, &[0u64, 1, 5000, u64::MAX]);
                        let p = w.chain.payer.pubkey();
                        let mk = w.mints[w.banks[b].mint].key;
                        let t22 = anchor_spl::token_2022::spl_token_2022::ID;
                        if let Ok(i) = anchor_spl::token_2022::spl_token_2022::extension::transfer_fee::instruction::set_transfer_fee(&t22, &mk, &p, &[], bps, max) {
                            let _ = w.raw_send(&[i], &[]).await;
                        }
                        return;
                    }
                }
                self.move_price(w, b);
                return;
            }
            89..=93 => {
                if self.r.gen_bool(0.35) {
                    self.try_receivership(w, m).await
                } else {
                    self.try_liquidate(w, m).await
                }
            }
            94 => {
                // anybody may refresh an account's health cache: the program's own three valuations
                // ... or a bank's cached price (a permissionless instruction that writes to the bank
                // account: whatever it is given, it may only move the cache)
                if self.r.gen_bool(0.35) {
                    let g = if w.groups.len() > 1 && self.r.gen_bool(0.15) { (w.banks[b].group + 1) % w.groups.len() } else { w.banks[b].group };
                    let rem: Vec<_> = w.bank_risk_metas(b).into_iter().skip(1).collect();
                    let i = ix::pulse_bank_price(w.groups[g].key, w.banks[b].key, rem);
                    let o = w.exec(m, &[i], &[]).await;
                    m.r.count(if o.ok() { "storm.bank_price_pulses_accepted" } else { "storm.bank_price_pulses_refused" });
                    o
                } else {
                    let i = ix::pulse_health(w.accts[a].key, w.risk_metas(a, None, None));
                    w.exec(m, &[i], &[]).await
                }
            }
            95..=96 => self.try_bankruptcy(w, m, a).await,
            97 => self.account_lifecycle(w, m, a).await,
            _ => self.flashloan(w, m, a, b).await,
        };
        if out.ok() {
            self.accepted += 1;
        }
    }

    /// One step aimed at a Kamino pass-through bank: deposits / withdrawals through the venue,
    /// standard instructions pointed at it (must be refused), venue-side events (yield, slot
    /// progress without refresh, rounding faults).
    pub async fn venue_step(&mut self, w: &mut World, m: &mut Mon, roll: u32, a: usize, b: usize) -> Option<crate::chain::TxOut> {
        use std::sync::atomic::Ordering;
        let auth = w.auth_of(a);
        let ta = w.ta_of(a, b);
        let wallet = w.token(&ta);
        let (pos_a, _) = self.position(w, a, b);
        Some(match roll {
            0..=34 => {
                let base = pick(&mut self.r, &[wallet, wallet / 1000 + 1, 1_000_000, 1000]);
                let amt = amount_near(&mut self.r, base);
                let i = w.ix_venue_deposit(a, b, auth.pubkey(), ta, amt);
                w.exec(m, &[i], &[&auth]).await
            }
            35..=59 => {
                let all = self.r.gen_bool(0.25);
                let amt = amount_near(&mut self.r, pos_a);
                let i = w.ix_venue_withdraw(a, b, auth.pubkey(), ta, amt, if all { Some(true) } else { None });
                w.exec(m, &[i], &[&auth]).await
            }
            60..=64 => {
                // the standard instructions must not work on a pass-through bank
                let i = match self.r.gen_range(0..4) {
                    0 => w.ix_deposit(a, b, auth.pubkey(), ta, 1000, None),
                    1 => w.ix_withdraw(a, b, auth.pubkey(), ta, 1, None),
                    2 => w.ix_borrow(a, b, auth.pubkey(), ta, 1),
                    _ => w.ix_repay(a, b, auth.pubkey(), ta, 1, None),
                };
                w.exec(m, &[i], &[&auth]).await
            }
            65..=69 => {
                let i = ix::close_balance(w.groups[self.g].key, w.accts[a].key, auth.pubkey(), w.banks[b].key);
                w.exec(m, &[i], &[&auth]).await
            }
            70..=79 => {
                // venue yield: borrowed amount grows (exchange rate up), sometimes with fractional bits
                let frac = pick(&mut self.r, &[0.0001f64, 0.001, 0.01, 0.05]);
                let bits: u128 = self.r.gen_range(0..(1u128 << 60));
                let whole = self.r.gen_bool(0.5);
                w.venue_yield(b, frac, bits, whole);
                return None;
            }
            80..=86 => {
                // borrowers repay the venue: liquidity becomes available again (real tokens arrive)
                let borrowed = w.venue_borrowed_whole(b);
                let x = amount_near(&mut self.r, borrowed).min(borrowed);
                if x > 0 {
                    w.venue_repaid(b, x).await;
                }
                return None;
            }
            87..=92 => {
                // the chain moves on; the reserve is refreshed most of the time
                let slot = w.chain.clock.slot + pick(&mut self.r, &[1u64, 1, 2, 50]);
                w.chain.set_clock_slot(slot);
                w.chain.advance(pick(&mut self.r, &[0i64, 1, 1, 30]));
                w.venue_autorefresh = self.r.gen_bool(0.8);
                w.refresh_oracles();
                return None;
            }
            93..=95 => {
                let f = pick(&mut self.r, &[0u64, 0, 1, 2, 3, 4]);
                crate::venue::KAMINO_FAULT.store(f, Ordering::Relaxed);
                crate::venue::SOLEND_FAULT.store(f, Ordering::Relaxed);
                return None;
            }
            _ => {
                self.move_price(w, b);
                return None;
            }
        })
    }

    /// transfer to a new account, close an (empty) account, freeze / unfreeze, admin flips a
    /// bank's asset tag while positions exist
    pub async fn account_lifecycle(&mut self, w: &mut World, m: &mut Mon, a: usize) -> crate::chain::TxOut {
        let gk = w.groups[self.g].key;
        let admin = clone_kp(&w.groups[self.g].admin);
        let auth = w.auth_of(a);
        match self.r.gen_range(0..6) {
            0 => {
                let nk = w.next_kp();
                let new_user = self.r.gen_range(0..w.users.len());
                let na = w.users[new_user].kp.pubkey();
                let p = w.chain.payer.pubkey();
                if self.r.gen_bool(0.4) {
                    // the variant whose new account lives at an address derived from the new owner
                    let idx = (self.steps % 60_000) as u16;
                    let third = pick(&mut self.r, &[None, Some(0u16), Some(7), Some(9_999), Some(10_000), Some(u16::MAX)]);
                    let (i, nkey) = ix::transfer_account_pda(gk, w.accts[a].key, auth.pubkey(), p, na, w.fee_wallet.pubkey(), idx, third);
                    let o = w.exec(m, &[i], &[&auth]).await;
                    m.r.count(if o.ok() { "storm.account_transfers_to_derived_address_accepted" } else { "storm.account_transfers_to_derived_address_refused" });
                    if o.ok() {
                        w.accts.push(AcctD { key: nkey, group: self.g, user: new_user });
                    }
                    return o;
                }
                let i = ix::transfer_account(gk, w.accts[a].key, nk.pubkey(), auth.pubkey(), p, na, w.fee_wallet.pubkey());
                let o = w.exec(m, &[i], &[&auth, &nk]).await;
                if o.ok() {
                    w.accts.push(AcctD { key: nk.pubkey(), group: self.g, user: new_user });
                }
                o
            }
            1 => {
                let p = w.chain.payer.pubkey();
                let i = ix::close_account(w.accts[a].key, auth.pubkey(), p);
                let o = w.exec(m, &[i], &[&auth]).await;
                if o.ok() {
                    // keep indices stable: replace the closed account by a fresh one of the same user
                    // (sometimes created at an address derived from its owner, under the monitors)
                    let u = w.accts[a].user;
                    let mut replaced = false;
                    if self.r.gen_bool(0.5) {
                        let ukp = w.user_kp(u);
                        let idx = (self.steps % 60_000) as u16;
                        let third = pick(&mut self.r, &[None, Some(3u16), Some(9_999), Some(10_000)]);
                        let (i, key) = ix::account_init_pda(gk, ukp.pubkey(), p, idx, third);
                        let oi = w.exec(m, &[i], &[&ukp]).await;
                        m.r.count(if oi.ok() { "storm.accounts_created_at_derived_address" } else { "storm.account_creations_at_derived_address_refused" });
                        if oi.ok() {
                            w.accts[a] = AcctD { key, group: self.g, user: u };
                            replaced = true;
                        }
                    }
                    if !replaced {
                        let na = w.add_account(self.g, u).await;
                        let moved = w.accts.pop().unwrap();
                        w.accts[a] = moved;
                        let _ = na;
                    }
                }
                o
            }
            2 | 3 => {
                let i = ix::set_freeze(gk, w.accts[a].key, admin.pubkey(), self.r.gen_bool(0.5));
                w.exec(m, &[i], &[&admin]).await
            }
            4 => {
                // an admin role acts on a (possibly frozen) account
                let b = self.some_bank(w);
                let ta = w.ta_of(a, b);
                let gd = &w.groups[self.g];
                let who = match self.r.gen_range(0..4) {
                    0 => clone_kp(&gd.risk),
                    1 => clone_kp(&gd.limit),
                    _ => clone_kp(&admin),
                };
                let i = w.ix_withdraw(a, b, who.pubkey(), ta, 1, None);
                w.exec(m, &[i], &[&who]).await
            }
            _ => {
                let b = self.some_bank(w);
                let cur = w.bank(b).config.asset_tag;
                if cur > 1 {
                    // the tag of a staked / pass-through bank decides how many oracle accounts the
                    // risk engine expects for it; flipping it is an admin misconfiguration, not a
                    // behaviour any property speaks about
                    return w.exec(m, &[w.ix_accrue(b)], &[]).await;
                }
                let mut o = BankConfigOpt::default();
                o.asset_tag = Some(if cur == 0 { 1 } else { 0 });
                let i = ix::configure_bank(gk, admin.pubkey(), w.banks[b].key, o);
                w.exec(m, &[i], &[&admin]).await
            }
        }
    }

    pub fn move_price(&mut self, w: &mut World, b: usize) {
        let f = pick(&mut self.r, &[0.5f64, 0.8, 0.95, 1.0, 1.05, 1.25, 2.0, 0.01, 100.0]);
        match w.banks[b].oracle.clone() {
            OracleD::Pyth(k) | OracleD::Venue { oracle: k, .. } => {
                let mut p = w.pyth[&k];
                p.price = ((p.price as f64 * f) as i64).clamp(1, i64::MAX / 4);
                p.ema = ((p.ema as f64 * (1.0 + (f - 1.0) * 0.5)) as i64).clamp(1, i64::MAX / 4);
                let cf = pick(&mut self.r, &[0.0, 0.001, 0.02, 0.06, 0.2]);
                p.conf = (p.price as f64 * cf / 2.12) as u64;
                p.ema_conf = (p.ema as f64 * cf / 2.12) as u64;
                p.publish_time = w.chain.now();
                w.set_pyth(&k, p);
            }
            OracleD::Swb(k) | OracleD::VenueSwb { oracle: k, .. } => {
                let mut p = w.swb[&k];
                p.value = ((p.value as f64 * f) as i128).max(1);
                let cf = pick(&mut self.r, &[0.0, 0.001, 0.02, 0.06]);
                p.std_dev = (p.value as f64 * cf / 1.96) as i128;
                p.last_update = w.chain.now();
                w.set_swb(&k, p);
            }
            _ => {}
        }
    }

    pub async fn try_liquidate(&mut self, w: &mut World, m: &mut Mon) -> crate::chain::TxOut {
        let le = self.some_acct(w);
        // mostly the rich liquidator (positions everywhere); otherwise any other account, which takes
        // the debt on as a new position while it may already hold the collateral bank
        let mut lq = self.liquidator;
        if self.r.gen_bool(0.35) {
            let o = self.some_acct(w);
            if o != le {
                lq = o;
            }
        }
        let acc = w.acct(le);
        let mut assets = vec![];
        let mut liabs = vec![];
        for bal in acc.lending_account.balances.iter().filter(|b| b.active != 0) {
            if let Some(bi) = w.bank_by_key(&bal.bank_pk) {
                if fx(&bal.asset_shares.value) >= one() {
                    assets.push(bi);
                }
                if fx(&bal.liability_shares.value) >= one() {
                    liabs.push(bi);
                }
            }
        }
        let (ab, lb) = if !assets.is_empty() && !liabs.is_empty() && self.r.gen_bool(0.9) { (pick(&mut self.r, &assets), pick(&mut self.r, &liabs)) } else { (self.some_bank(w), self.some_bank(w)) };
        let (pa, _) = self.position(w, le, ab);
        let base = pick(&mut self.r, &[pa, pa / 10 + 1, pa / 100 + 1]);
        let amt = amount_near(&mut self.r, base);
        let auth = w.auth_of(lq);
        let dup = if self.r.gen_bool(0.1) { Some(if self.r.gen_bool(0.5) { ab } else { lb }) } else { None };
        let i = w.ix_liquidate_x(lq, le, ab, lb, auth.pubkey(), amt, dup);
        w.exec(m, &[i], &[&auth]).await
    }

    /// A receivership bracket by the liquidator's owner on some account (accepted only when that
    /// account is unhealthy): withdraw a little collateral, repay a little debt, in one transaction
    /// some time after the banks were last touched - so the withdraw and the repay inside the
    /// bracket are the instructions that have to bring the banks' interest up to date.
    pub async fn try_receivership(&mut self, w: &mut World, m: &mut Mon) -> crate::chain::TxOut {
        let le = self.some_acct(w);
        let ru = w.accts[self.liquidator].user;
        let rk = w.user_kp(ru);
        let tas = w.users[ru].tas.clone();
        let acc = w.acct(le);
        let mut assets = vec![];
        let mut liabs = vec![];
        for bal in acc.lending_account.balances.iter().filter(|b| b.active != 0) {
            if let Some(bi) = w.bank_by_key(&bal.bank_pk) {
                if w.banks[bi].venue.is_some() {
                    continue;
                }
                if fx(&bal.asset_shares.value) >= one() {
                    assets.push(bi);
                }
                if fx(&bal.liability_shares.value) >= one() {
                    liabs.push(bi);
                }
            }
        }
        if assets.is_empty() || liabs.is_empty() || w.accts[le].user == ru {
            m.r.count("storm.receivership_not_applicable");
            let i = w.ix_accrue(self.some_bank(w));
            return w.exec(m, &[i], &[]).await;
        }
        let (ab, lb) = (pick(&mut self.r, &assets), pick(&mut self.r, &liabs));
        let (pa, _) = self.position(w, le, ab);
        let (_, pl) = self.position(w, le, lb);
        let wd = pick(&mut self.r, &[pa / 50 + 1, pa / 10 + 1, 1]);
        let rp = pick(&mut self.r, &[pl / 5 + 1, pl / 2 + 1, pl / 40 + 1]);
        let has_record = w.shadow.contains_key(&ix::liq_record_key(&w.accts[le].key));
        let ixs = crate::scen::receivership_ixs(w, le, &rk, Some((ab, wd, false)), Some((lb, rp, false)), !has_record, &tas);
        let mut o = w.exec(m, &ixs, &[&rk]).await;
        if o.custom_code() == Some(crate::mon::err::HEALTHY_ACCOUNT) && self.r.gen_bool(0.6) {
            // the account is healthy: its collateral loses value until it no longer is, the bracket
            // is sent again, and the price comes back
            let saved = crate::scen::save_price(w, ab);
            let mut crashes = 0;
            for _ in 0..5 {
                crate::scen::scale_price_any(w, ab, 0.35).await;
                crashes += 1;
                let ixs = crate::scen::receivership_ixs(w, le, &rk, Some((ab, wd, false)), Some((lb, rp, false)), !has_record, &tas);
                o = w.exec(m, &ixs, &[&rk]).await;
                if o.custom_code() != Some(crate::mon::err::HEALTHY_ACCOUNT) {
                    break;
                }
            }
            match saved {
                crate::scen::SavedPx::None => crate::scen::scale_price_any(w, ab, (1.0f64 / 0.35).powi(crashes)).await,
                sp => crate::scen::restore_price(w, ab, sp),
            }
        }
        m.r.count(if o.ok() { "storm.receivership_brackets_committed" } else { "storm.receivership_brackets_rejected" });
        if !o.ok() {
            m.r.count(&format!("storm.receivership_rejections/{}", o.custom_code().map(|c| c.to_string()).unwrap_or_else(|| "other".into())));
        }
        o
    }

    pub async fn try_bankruptcy(&mut self, w: &mut World, m: &mut Mon, a: usize) -> crate::chain::TxOut {
        let acc = w.acct(a);
        let liabs: Vec<usize> = acc.lending_account.balances.iter().filter(|b| b.active != 0 && fx(&b.liability_shares.value) > zero()).filter_map(|b| w.bank_by_key(&b.bank_pk)).collect();
        let b = if liabs.is_empty() { self.some_bank(w) } else { pick(&mut self.r, &liabs) };
        let signer = if self.r.gen_bool(0.8) { clone_kp(&w.groups[self.g].admin) } else { w.auth_of(a) };
        let i = w.ix_bankruptcy(a, b, signer.pubkey());
        w.exec(m, &[i], &[&signer]).await
    }

    pub async fn flashloan(&mut self, w: &mut World, m: &mut Mon, a: usize, b: usize) -> crate::chain::TxOut {
        let auth = w.auth_of(a);
        let ta = w.ta_of(a, b);
        let vault = w.token(&w.banks[b].k.lv);
        let amt = amount_near(&mut self.r, vault / 4 + 1).min(vault);
        let repay_back = self.r.gen_bool(0.8);
        let mut ixs = vec![];
        // indices are transaction-level: the nonce instruction sits at index 0
        let n_inner = if repay_back { 2 } else { 1 };
        ixs.push(ix::start_flashloan(w.accts[a].key, auth.pubkey(), (1 + n_inner + 1) as u64));
        let g = w.groups[self.g].key;
        // inside a flash loan no risk accounts are needed
        ixs.push(ix::borrow(g, w.accts[a].key, auth.pubkey(), w.banks[b].key, ta, w.token_program_of_bank(b), amt, w.mint_prefix(b)));
        if repay_back {
            ixs.push(ix::repay(g, w.accts[a].key, auth.pubkey(), w.banks[b].key, ta, w.token_program_of_bank(b), 0, Some(true), w.mint_prefix(b)));
        }
        let rem = w.risk_metas(a, if repay_back { None } else { Some(b) }, None);
        ixs.push(ix::end_flashloan(w.accts[a].key, auth.pubkey(), rem));
        w.exec(m, &ixs, &[&auth]).await
    }
}

pub fn i80(x: f64) -> I80F48 {
    I80F48::from_num(x)
}

/// E-mode set-up: collateral banks get tags; a random subset of banks gets entries that grant
/// tagged collateral a higher weight (within what the program's validation accepts).
pub async fn configure_emode(w: &mut World, r: &mut R, g: usize) {
    let gk = w.groups[g].key;
    let ea = clone_kp(&w.groups[g].emode);
    let nb = w.banks.len();
    let z: WrappedI80F48 = wi(0.0);
    for b in 0..nb {
        let bank = w.bank(b);
        let tag = pick(r, &[0u16, 1, 2, 3, 1]);
        let mut entries = [EmodeEntry { collateral_bank_emode_tag: 0, flags: 0, pad0: [0; 5], asset_weight_init: z, asset_weight_maint: z }; MAX_EMODE_ENTRIES];
        if r.gen_bool(0.65) {
            let li = to_f64(&fx(&bank.config.liability_weight_init.value));
            let lm = to_f64(&fx(&bank.config.liability_weight_maint.value));
            let mut k = 0;
            for t in [1u16, 2, 3] {
                if r.gen_bool(0.6) {
                    let ci = (li * pick(r, &[0.7f64, 0.85, 0.92])).min(lm * 0.94);
                    let cm = (ci + pick(r, &[0.0f64, 0.01, 0.03])).min(lm * 0.945);
                    entries[k] = EmodeEntry { collateral_bank_emode_tag: t, flags: 0, pad0: [0; 5], asset_weight_init: wi(ci), asset_weight_maint: wi(cm.max(ci)) };
                    k += 1;
                }
            }
        }
        let i = ix::configure_bank_emode(gk, ea.pubkey(), w.banks[b].key, tag, entries);
        let _ = w.raw_send(&[i], &[&ea]).await;
    }
}
