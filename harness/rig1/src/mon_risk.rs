//! Monitors that need the reference health model: C04 risk gate, C05 classic liquidation,
//! C07 bankruptcy, C09 oracle safety (chain side), C10 receivership, C11 flash loans.
use crate::kinds::Kind;
use crate::mon::{arg_u64, err, IxInfo, Mon, MFI};
use crate::num::*;
use crate::refm::{self, OracleIn, PosIn, Req, RefHealth};
use crate::state::*;
use crate::tap::TapEvent;
use crate::world::World;
use marginfi_type_crate::types::*;
use num_traits::{Signed, Zero};
use serde_json::json;
use solana_sdk::pubkey::Pubkey;

pub const FLAG_PERMISSIONLESS_BANKRUPTCY: u64 = 1 << 2;

pub fn oracle_keys_pub(b: &Bank) -> Vec<Pubkey> {
    oracle_keys(b)
}
fn oracle_keys(b: &Bank) -> Vec<Pubkey> {
    match b.config.oracle_setup {
        OracleSetup::PythPushOracle | OracleSetup::SwitchboardPull => vec![b.config.oracle_keys[0]],
        OracleSetup::StakedWithPythPush => vec![b.config.oracle_keys[0], b.config.oracle_keys[1], b.config.oracle_keys[2]],
        OracleSetup::KaminoPythPush | OracleSetup::KaminoSwitchboardPull | OracleSetup::DriftPythPull | OracleSetup::DriftSwitchboardPull | OracleSetup::SolendPythPull | OracleSetup::SolendSwitchboardPull => vec![b.config.oracle_keys[0], b.config.oracle_keys[1]],
        _ => vec![],
    }
}

/// Positions of `acct` with the bank state and the oracle accounts *as presented to the
/// instruction* (looked up by the configured key among the instruction's accounts).
pub fn positions<'a>(v: &IxView<'a>, acct: &MarginfiAccount, bank_post: bool) -> Vec<PosIn<'a>> {
    let mut out = vec![];
    for bal in acct.lending_account.balances.iter().filter(|b| b.active != 0) {
        let data = if bank_post { v.post(&bal.bank_pk) } else { v.pre(&bal.bank_pk) };
        let bank = match data.and_then(bank_of) {
            Some(b) => b,
            None => continue,
        };
        let mut oracles = vec![];
        for k in oracle_keys(&bank) {
            // venue accounts (reserve, spot market) are written by the venue inside the same
            // instruction; the health check that follows reads them as they are afterwards
            let snap = match (bank_post, v.ev.post_of(&k)) {
                (true, Some(p)) if p.is_writable => Some(p),
                _ => v.ev.pre_of(&k),
            };
            match snap {
                Some(s) => oracles.push(OracleIn { key: k, owner: s.owner, data: &s.data[..] }),
                None => oracles.push(OracleIn { key: k, owner: Pubkey::default(), data: &[] }),
            }
        }
        out.push(PosIn { bank_key: bal.bank_pk, bank, balance: *bal, oracles });
    }
    out
}

/// Did the caller present `[bank, oracles..]` for every active balance in descending bank order
/// as the trailing accounts of the instruction?  (Only then is a health *rejection* attributable
/// to health rather than to mis-presented accounts.)
pub fn canonical_tail(ev: &TapEvent, v: &IxView, acct: &MarginfiAccount) -> bool {
    let mut expect: Vec<Pubkey> = vec![];
    let mut bals: Vec<&Balance> = acct.lending_account.balances.iter().filter(|b| b.active != 0).collect();
    bals.sort_by(|a, b| b.bank_pk.cmp(&a.bank_pk));
    for bal in bals {
        expect.push(bal.bank_pk);
        if let Some(bank) = v.post(&bal.bank_pk).and_then(bank_of) {
            expect.extend(oracle_keys(&bank));
        } else {
            return false;
        }
    }
    if ev.pre.len() < expect.len() {
        return false;
    }
    let tail: Vec<Pubkey> = ev.pre[ev.pre.len() - expect.len()..].iter().map(|s| s.key).collect();
    tail == expect
}

fn feat(h: &RefHealth) -> (usize, usize, bool, bool, bool, bool) {
    (h.n_assets.min(9), h.n_liabs.min(9), h.emode_entries_used > 0, h.cap_active > 0, h.bad_collateral_oracles > 0, h.borderline)
}

impl Mon {
    pub fn risk_on_ix(&mut self, w: &World, v: &IxView, info: &IxInfo) {
        match info.kind {
            Kind::Borrow | Kind::Withdraw | Kind::KaminoWithdraw | Kind::SolendWithdraw | Kind::DriftWithdraw => self.c04_success(w, v, info),
            Kind::EndFlashloan => self.c11_end(w, v, info),
            Kind::Liquidate => self.c05(w, v, info),
            Kind::HandleBankruptcy => self.c07(w, v, info),
            _ => {}
        }
        if matches!(info.kind, Kind::StartFlashloan) {
            self.c11_start(v, info);
        }
        if info.kind == Kind::Withdraw && self.r.is("C09") {
            self.c09_seizure_price(w, v, info);
        }
        if matches!(info.kind, Kind::StartLiquidation | Kind::StartDeleverage | Kind::EndLiquidation | Kind::EndDeleverage) {
            self.c10_ix(w, v, info);
        }
    }

    /// The program's own valuations (health cache written by the permissionless pulse) against the
    /// reference, by sign only and only where the reference is certain: an account the reference
    /// holds healthy at a level must not be unhealthy at that level in the program's own numbers,
    /// and vice versa (C04: health computed with weights, e-mode and caps; C13: passing the initial
    /// check implies passing maintenance; C14: reduce-only deposits keep counting for liquidation).
    pub fn pulse_on_ix(&mut self, v: &IxView, info: &IxInfo) {
        let (ak, aq) = match info.accts.first() {
            Some((k, _, Some(q))) => (k, q),
            _ => return,
        };
        let c = &aq.health_cache;
        // engine ok (2) and oracle ok (4), written now
        if c.timestamp != info.now || c.flags & 2 == 0 || c.flags & 4 == 0 {
            self.r.count("pulse.cache_not_usable");
            return;
        }
        if aq.account_flags & (ACCOUNT_IN_FLASHLOAN | ACCOUNT_IN_RECEIVERSHIP) != 0 {
            return;
        }
        let pos = positions(v, aq, true);
        if pos.is_empty() {
            return;
        }
        let levels = [("initial", Req::Initial, w_(&c.asset_value) - w_(&c.liability_value)), ("maintenance", Req::Maint, w_(&c.asset_value_maint) - w_(&c.liability_value_maint)), ("equity", Req::Equity, w_(&c.asset_value_equity) - w_(&c.liability_value_equity))];
        for (name, req, prog) in levels.iter() {
            let h = refm::ref_health(&pos, *req, info.now);
            if h.must_error.is_some() || h.borderline || h.bad_collateral_oracles > 0 {
                self.r.count("pulse.reference_not_certain");
                continue;
            }
            let hv = h.health();
            self.r.eval();
            self.r.count(&format!("pulse.health_signs_compared/{}", name));
            self.r.distinct(&("pulse", *name, feat(&h), hv.certainly_pos(), hv.certainly_neg()));
            // a margin of four error bands keeps rounding inside the program out of the verdict
            let wide = &hv.e * ri(4) + ulp() * ri(1 << 20);
            // which properties speak about this level: the initial health is the risk gate (C04) and
            // the premise of C13's consequence; the maintenance health is its conclusion ("never
            // immediately liquidatable"); the equity view decides bankruptcy (C07); C14 requires
            // that deposits of a reduce-only bank keep counting for liquidation purposes
            // (maintenance and equity)
            let holds = |f: &dyn Fn(&PosIn) -> bool| pos.iter().any(|p| w_(&p.balance.asset_shares) >= one() && f(p));
            let iso_dep = holds(&|p| p.bank.config.risk_tier == RiskTier::Isolated);
            let ro_dep = holds(&|p| p.bank.config.operational_state == BankOperationalState::ReduceOnly);
            let mut props: Vec<&str> = match *name {
                "initial" => vec!["C04", "C13"],
                "maintenance" => vec!["C13"],
                _ => vec!["C07"],
            };
            if ro_dep && *name != "initial" && !iso_dep {
                props.push("C14");
                self.r.count("pulse.levels_compared_for_accounts_with_reduce_only_deposits");
            }
            // a deposit in an isolated-tier bank is an asset of the account (equity) although it is
            // worth nothing as collateral: kept apart because the program values it at zero for
            // equity as well (finding F9)
            let suffix = if iso_dep && *name == "equity" { "/account-holds-isolated-tier-deposit" } else { "" };
            if hv.v > wide && prog.is_negative() && abs(prog) > wide {
                self.both(&props, &format!("Cxx/PulseHealth/{}-health-negative-in-the-program-although-positive-by-reference{}", name, suffix), format!("account {}: program {} reference {} (+-{}) assets {} liabs {}", ak, show(prog), show(&hv.v), show(&hv.e), show(&h.assets.v), show(&h.liabs.v)));
            }
            if hv.v < -wide.clone() && prog.is_positive() && abs(prog) > wide {
                self.both(&props, &format!("Cxx/PulseHealth/{}-health-positive-in-the-program-although-negative-by-reference", name), format!("account {}: program {} reference {} (+-{}) assets {} liabs {}", ak, show(prog), show(&hv.v), show(&hv.e), show(&h.assets.v), show(&h.liabs.v)));
            }
        }
    }

    fn both(&mut self, props: &[&str], sig: &str, detail: String) {
        for p in props {
            let s = sig.replacen("Cxx", p, 1);
            self.r.violate(p, &s, detail.clone());
        }
    }

    // ------------------------------------------------------------------ C04 (+C09 chain side)
    fn c04_success(&mut self, w: &World, v: &IxView, info: &IxInfo) {
        let _ = w;
        let (ak, ap, aq) = match info.accts.first() {
            Some((k, Some(p), Some(q))) => (k, p, q),
            _ => return,
        };
        if ap.account_flags & (ACCOUNT_IN_FLASHLOAN | ACCOUNT_IN_RECEIVERSHIP) != 0 {
            self.r.count("C04.skipped_inside_bracket");
            return;
        }
        if !(self.r.is("C04") || self.r.is("C09") || self.r.is("C20")) {
            return;
        }
        let pos = positions(v, aq, true);
        let h = refm::ref_health(&pos, Req::Initial, info.now);
        self.r.eval();
        self.r.count(&format!("C04.accepted/{}", info.kind.name()));
        self.r.distinct(&("accept", info.kind.name(), feat(&h)));
        if let Some(e) = &h.must_error {
            self.both(&["C04", "C09"], &format!("Cxx/{}/succeeded-with-unusable-price", info.kind.name()), format!("account {}: reference says evaluation must fail ({:?}) but the instruction succeeded", ak, e));
            return;
        }
        let hv = h.health();
        self.r.min("C04.min_accepted_health_usd", to_f64(&hv.v));
        if hv.certainly_neg() && self.r.is("C09") {
            // attribute to the bias clause of C09 when the acceptance is explainable only by
            // valuing collateral above / debt below the conservative price
            refm::REF_NO_BIAS.store(true, std::sync::atomic::Ordering::Relaxed);
            let hu = refm::ref_health(&pos, Req::Initial, info.now);
            refm::REF_NO_BIAS.store(false, std::sync::atomic::Ordering::Relaxed);
            if hu.must_error.is_none() && !hu.health().certainly_neg() {
                self.r.violate("C09", &format!("C09/{}/accepted-only-without-conservative-price-bias", info.kind.name()), format!("account {}: reference initial health {} (+-{}) with collateral at the low and debt at the high biased price, {} at the reported prices", ak, show(&hv.v), show(&hv.e), show(&hu.health().v)));
            }
        }
        if hv.certainly_neg() && self.r.is("C20") && pos.iter().any(|p| p.bank.config.asset_tag > 2 && w_(&p.balance.asset_shares) >= one()) {
            // pass-through collateral: an acceptance that can be explained only by valuing it above the
            // conservative (confidence-discounted) price times the exact venue rate
            refm::REF_NO_BIAS.store(true, std::sync::atomic::Ordering::Relaxed);
            let hu = refm::ref_health(&pos, Req::Initial, info.now);
            refm::REF_NO_BIAS.store(false, std::sync::atomic::Ordering::Relaxed);
            if hu.must_error.is_none() && !hu.health().certainly_neg() {
                self.r.violate("C20", &format!("C20/{}/accepted-only-with-venue-collateral-above-the-conservative-adjusted-price", info.kind.name()), format!("account {}: reference initial health {} (+-{}) with the confidence discount taken through the venue rate, {} without any discount", ak, show(&hv.v), show(&hv.e), show(&hu.health().v)));
            }
        }
        if hv.certainly_neg() {
            self.r.violate("C04", &format!("C04/{}/accepted-with-negative-initial-health", info.kind.name()), format!("account {}: reference initial health {} (+-{}) assets {} liabs {}", ak, show(&hv.v), show(&hv.e), show(&h.assets.v), show(&h.liabs.v)));
        }
        let (n, iso) = refm::liability_tiers(&pos);
        if iso > 0 && n > 1 {
            self.r.violate("C04", &format!("C04/{}/isolated-debt-alongside-other-debt", info.kind.name()), format!("account {}: {} debts of which {} isolated", ak, n, iso));
        }
        if iso > 0 {
            self.r.count("C04.accepted_with_isolated_debt");
        }
        if h.emode_entries_used > 0 {
            self.r.count("C04.accepted_with_emode_benefit");
        }
        if n > 1 {
            self.r.count("C04.accepted_with_several_debts");
        }
        if h.cap_active > 0 {
            self.r.count("C04.accepted_with_value_cap_active");
        }
        // cross-check of the program's own numbers (diagnostic only, never a verdict)
        let ca = w_(&aq.health_cache.asset_value);
        let cl = w_(&aq.health_cache.liability_value);
        if abs(&(&ca - &h.assets.v)) > &h.assets.e * ri(4) + ulp() || abs(&(&cl - &h.liabs.v)) > &h.liabs.e * ri(4) + ulp() {
            self.r.count("C04.diag_health_cache_differs_from_reference");
        } else {
            self.r.count("C04.diag_health_cache_matches_reference");
        }
        self.r.max("C04.max_band_width_usd", to_f64(&hv.e));
        self.r.sample_kind(info.kind.name(), json!({"account": ak.to_string(), "ref_assets": show(&h.assets.v), "ref_liabs": show(&h.liabs.v), "band": show(&hv.e), "positions": pos.len(), "emode_used": h.emode_entries_used, "cap_active": h.cap_active, "bad_collateral_oracles": h.bad_collateral_oracles}));
    }

    /// A borrow/withdraw/end-flashloan that failed with the health error: was the hypothetical
    /// post-state really unhealthy?
    pub fn c04_reject(&mut self, w: &World, ev: &TapEvent, code: u32) {
        if code != err::RISK_ENGINE_INIT_REJECTED {
            return;
        }
        let kind = Kind::of(&ev.data);
        if !matches!(kind, Kind::Borrow | Kind::Withdraw | Kind::KaminoWithdraw | Kind::SolendWithdraw | Kind::DriftWithdraw | Kind::EndFlashloan) {
            return;
        }
        let v = IxView { ev, cur: &w.shadow };
        let info = IxInfo::of(ev, w.chain.now());
        let (ak, aq) = match info.accts.first() {
            Some((k, _, Some(q))) => (k, q),
            _ => return,
        };
        if !canonical_tail(ev, &v, aq) {
            self.r.count("C04.rejections_with_noncanonical_accounts_skipped");
            return;
        }
        let pos = positions(&v, aq, true);
        let h = refm::ref_health(&pos, Req::Initial, info.now);
        self.r.eval();
        self.r.count(&format!("C04.rejected_for_health/{}", kind.name()));
        self.r.distinct(&("reject", kind.name(), feat(&h)));
        if h.must_error.is_some() || h.borderline {
            self.r.count("C04.rejections_in_band_or_error");
            return;
        }
        let hv = h.health();
        self.r.max("C04.max_rejected_health_usd", to_f64(&hv.v));
        if hv.certainly_pos() {
            let prop = if kind == Kind::EndFlashloan { "C11" } else { "C04" };
            let mut parts = vec![];
            for p in &pos {
                let one = refm::ref_health(std::slice::from_ref(p), Req::Initial, info.now);
                parts.push(format!("[bank {} tag {} setup {:?} state {:?} a={} l={} err={:?} bad={} cap={}]", p.bank_key, p.bank.config.asset_tag, p.bank.config.oracle_setup, p.bank.config.operational_state, show(&one.assets.v), show(&one.liabs.v), one.must_error, one.bad_collateral_oracles, one.cap_active));
            }
            self.r.violate(prop, &format!("{}/{}/rejected-although-healthy", prop, kind.name()), format!("account {}: reference initial health {} (+-{}) assets {} liabs {} positions {}", ak, show(&hv.v), show(&hv.e), show(&h.assets.v), show(&h.liabs.v), parts.join(" ")));
        }
    }

    // ------------------------------------------------------------------ C11
    fn c11_start(&mut self, v: &IxView, info: &IxInfo) {
        if let Some((ak, Some(p), Some(q))) = info.accts.first() {
            self.r.eval();
            self.r.count("C11.start_accepted");
            if v.ev.stack_height != 1 {
                self.r.violate("C11", "C11/StartFlashloan/accepted-under-cpi", format!("account {} stack height {}", ak, v.ev.stack_height));
            }
            let bad = p.account_flags & (ACCOUNT_IN_FLASHLOAN | ACCOUNT_DISABLED | ACCOUNT_FROZEN | ACCOUNT_IN_RECEIVERSHIP);
            if bad != 0 {
                self.r.violate("C11", "C11/StartFlashloan/accepted-on-flagged-account", format!("account {} flags {:#b}", ak, p.account_flags));
            }
            if q.account_flags & ACCOUNT_IN_FLASHLOAN == 0 {
                self.r.count("C11.start_did_not_set_flag");
            }
        }
    }
    fn c11_end(&mut self, w: &World, v: &IxView, info: &IxInfo) {
        let _ = w;
        let (ak, _ap, aq) = match info.accts.first() {
            Some((k, Some(p), Some(q))) => (k, p, q),
            _ => return,
        };
        if !self.r.is("C11") {
            return;
        }
        self.r.eval();
        self.r.count("C11.end_accepted");
        if v.ev.stack_height != 1 {
            self.r.violate("C11", "C11/EndFlashloan/accepted-under-cpi", format!("account {} stack height {}", ak, v.ev.stack_height));
        }
        if aq.account_flags & ACCOUNT_IN_FLASHLOAN != 0 {
            self.r.violate("C11", "C11/EndFlashloan/flag-not-cleared", format!("account {}", ak));
        }
        let pos = positions(v, aq, true);
        let h = refm::ref_health(&pos, Req::Initial, info.now);
        self.r.distinct(&("end", feat(&h)));
        if let Some(e) = &h.must_error {
            self.r.violate("C11", "C11/EndFlashloan/succeeded-with-unusable-price", format!("account {}: {:?}", ak, e));
            return;
        }
        let hv = h.health();
        self.r.min("C11.min_health_at_end_usd", to_f64(&hv.v));
        if hv.certainly_neg() {
            self.r.violate("C11", "C11/EndFlashloan/ended-with-negative-initial-health", format!("account {}: health {} (+-{})", ak, show(&hv.v), show(&hv.e)));
        }
        let (n, iso) = refm::liability_tiers(&pos);
        if iso > 0 && n > 1 {
            self.r.violate("C11", "C11/EndFlashloan/isolated-debt-alongside-other-debt", format!("account {}", ak));
        }
    }

    // ------------------------------------------------------------------ C05
    fn c05(&mut self, w: &World, v: &IxView, info: &IxInfo) {
        if info.banks.len() < 2 || info.accts.len() < 2 {
            return;
        }
        let (abk, abp, abq) = (&info.banks[0].0, &info.banks[0].1, &info.banks[0].2);
        let (lbk, lbp, lbq) = (&info.banks[1].0, &info.banks[1].1, &info.banks[1].2);
        let (abp, abq, lbp, lbq) = match (abp, abq, lbp, lbq) {
            (Some(a), Some(b), Some(c), Some(d)) => (a, b, c, d),
            _ => return,
        };
        let (lqk, lqp, lqq) = match &info.accts[0] {
            (k, Some(p), Some(q)) => (k, p, q),
            _ => return,
        };
        let (lek, lep, leq) = match &info.accts[1] {
            (k, Some(p), Some(q)) => (k, p, q),
            _ => return,
        };
        if lep.account_flags & ACCOUNT_IN_FLASHLOAN != 0 {
            self.r.violate("C11", "C11/Liquidate/liquidated-account-in-flashloan", format!("liquidatee {}", lek));
        }
        if !(self.r.is("C05") || self.r.is("C09")) {
            return;
        }
        self.r.eval();
        self.r.count("C05.liquidations_accepted");
        let a = ru(arg_u64(&v.ev.data, 8).unwrap_or(0) as u128);
        // 1. unhealthy beforehand (positions before, share values after the instruction's accrual)
        let pre_pos = positions(v, lep, true);
        let hp = refm::ref_health(&pre_pos, Req::Maint, info.now);
        let post_pos = positions(v, leq, true);
        let hq = refm::ref_health(&post_pos, Req::Maint, info.now);
        self.r.distinct(&("liq", lbq.mint_decimals, abq.mint_decimals, hp.n_assets.min(5), hp.n_liabs.min(5), hp.emode_entries_used > 0));
        if let Some(e) = hp.must_error.as_ref().or(hq.must_error.as_ref()) {
            self.both(&["C05", "C09"], "Cxx/Liquidate/succeeded-with-unusable-price", format!("liquidatee {}: {:?}", lek, e));
            return;
        }
        let (h0, h1) = (hp.health(), hq.health());
        if h0.certainly_pos() {
            self.r.violate("C05", "C05/Liquidate/liquidated-healthy-account", format!("liquidatee {}: maintenance health before {} (+-{})", lek, show(&h0.v), show(&h0.e)));
        }
        if h1.certainly_pos() {
            self.r.violate("C05", "C05/Liquidate/health-positive-afterwards", format!("liquidatee {}: maintenance health after {} (+-{})", lek, show(&h1.v), show(&h1.e)));
        }
        let improve = h1.sub(&h0);
        self.r.min("C05.min_health_improvement_usd", to_f64(&improve.v));
        if improve.v < -improve.e.clone() || (improve.v.is_zero() && improve.e.is_zero()) {
            self.r.violate("C05", "C05/Liquidate/health-not-improved", format!("liquidatee {}: {} -> {}", lek, show(&h0.v), show(&h1.v)));
        }
        // 2. no flips on the liquidatee
        let pos_of = |acc: &MarginfiAccount, bk: &Pubkey| -> (Rat, Rat) {
            for b in acc.lending_account.balances.iter() {
                if b.active != 0 && &b.bank_pk == bk {
                    return (w_(&b.asset_shares), w_(&b.liability_shares));
                }
            }
            (zero(), zero())
        };
        let (le_l_a, le_l_l) = pos_of(leq, lbk);
        let (le_a_a, le_a_l) = pos_of(leq, abk);
        if le_l_a >= one() {
            self.r.violate("C05", "C05/Liquidate/repaid-debt-flipped-to-deposit", format!("liquidatee {} now holds {} asset shares in the debt bank", lek, show(&le_l_a)));
        }
        if le_a_l >= one() {
            self.r.violate("C05", "C05/Liquidate/seized-collateral-flipped-to-debt", format!("liquidatee {} now owes {} shares in the collateral bank", lek, show(&le_a_l)));
        }

        // 3. liquidator initially healthy afterwards
        let lq_pos = positions(v, lqq, true);
        let hl = refm::ref_health(&lq_pos, Req::Initial, info.now);
        if hl.must_error.is_none() && hl.health().certainly_neg() {
            self.r.violate("C05", "C05/Liquidate/liquidator-unhealthy-afterwards", format!("liquidator {}: initial health {} (+-{})", lqk, show(&hl.health().v), show(&hl.health().e)));
        }
        // 4. the 95% / 97.5% / 2.5% rule
        let find = |pos: &Vec<PosIn>, k: &Pubkey| pos.iter().position(|p| &p.bank_key == k);
        let (ia, il) = match (find(&pre_pos, abk), find(&pre_pos, lbk)) {
            (Some(x), Some(y)) => (x, y),
            _ => return,
        };
        let pa = match refm::ref_price(&pre_pos[ia].bank, &pre_pos[ia].oracles, info.now) {
            Ok(p) => p,
            Err(_) => return,
        };
        let pl = match refm::ref_price(&pre_pos[il].bank, &pre_pos[il].oracles, info.now) {
            Ok(p) => p,
            Err(_) => return,
        };
        let low_a = pa.low(false);
        let high_l = pl.high(false);
        if !low_a.v.is_positive() || !high_l.v.is_positive() {
            self.both(&["C05", "C09"], "Cxx/Liquidate/zero-or-negative-price-used", format!("asset low {} liab high {}", show(&low_a.v), show(&high_l.v)));
            return;
        }
        let da = pow10(balance_decimals(abq));
        let dl = pow10(balance_decimals(lbq));
        let q = |disc: Rat| -> Iv { Iv::exact(a.clone()).mul(&Iv::exact(disc)).mul(&low_a).div(&Iv::exact(da.clone())).mul(&Iv::exact(dl.clone())).div(&high_l) };
        let q_ll = q(rq(975, 1000));
        let q_lf = q(rq(95, 100));
        let (qa, ql) = (BankQ::of(abq), BankQ::of(lbq));
        let slack = |x: &Iv| &x.e * ri(4) + (&ql.lsv + &ql.asv + &qa.asv + &qa.lsv + ri(4)) * ri(16) * ulp();
        // liquidatee: debt relief == q_lf, collateral lost == a
        let (lp_a, lp_l) = pos_of(lep, lbk);
        let _ = lp_a;
        let relief = (&lp_l - &le_l_l) * &ql.lsv;
        let dev = abs(&(&relief - &q_lf.v));
        self.r.max("C05.max_fee_rule_deviation_over_allowance", to_f64(&(&dev / slack(&q_lf))));
        if dev > slack(&q_lf) {
            self.r.violate("C05", "C05/Liquidate/liquidatee-relief-not-95-percent", format!("liquidatee {}: debt relief {} expected {} (+-{})", lek, show(&relief), show(&q_lf.v), show(&slack(&q_lf))));
        }
        let (lep_a_a, _) = pos_of(lep, abk);
        let lost = (&lep_a_a - &le_a_a) * &qa.asv;
        if abs(&(&lost - &a)) > slack(&Iv::exact(a.clone())) {
            self.r.violate("C05", "C05/Liquidate/liquidatee-collateral-loss-differs-from-seized-amount", format!("lost {} seized {}", show(&lost), show(&a)));
        }
        // liquidator: net position in the debt bank falls by q_ll, gains a in the asset bank
        let (qp_a, qp_l) = pos_of(lqp, lbk);
        let (qq_a, qq_l) = pos_of(lqq, lbk);
        let fall = (&qp_a - &qq_a) * &ql.asv + (&qq_l - &qp_l) * &ql.lsv;
        if abs(&(&fall - &q_ll.v)) > slack(&q_ll) {
            self.r.violate("C05", "C05/Liquidate/liquidator-cost-not-97.5-percent", format!("liquidator {}: net position fell {} expected {} (+-{})", lqk, show(&fall), show(&q_ll.v), show(&slack(&q_ll))));
        }
        let (ap_a, ap_l) = pos_of(lqp, abk);
        let (aq_a, aq_l) = pos_of(lqq, abk);
        let gain = (&aq_a - &ap_a) * &qa.asv + (&ap_l - &aq_l) * &qa.lsv;
        if abs(&(&gain - &a)) > slack(&Iv::exact(a.clone())) {
            self.r.violate("C05", "C05/Liquidate/liquidator-gain-differs-from-seized-amount", format!("gain {} seized {}", show(&gain), show(&a)));
        }
        // insurance: whole tokens to the insurance vault, fraction to outstanding insurance fees
        if let Some(bi) = w.bank_by_key(lbk) {
            let k = &w.banks[bi].k;
            if let (Some(v0), Some(v1), Some(i0), Some(i1)) = (v.pre(&k.lv).and_then(token_amount), v.post(&k.lv).and_then(token_amount), v.pre(&k.iv).and_then(token_amount), v.post(&k.iv).and_then(token_amount)) {
                let out = ri(v0 as i128 - v1 as i128);
                let fee = q_ll.sub(&q_lf);
                let g = v.pre(&lbp.group).and_then(group_of);
                let acc_ins = g.and_then(|g| refm::ref_accrue(lbp, &g, info.now - lbp.last_update)).map(|r| r.d_ins).unwrap_or(Iv::exact(zero()));
                let booked = BankQ::of(lbq).f_ins - BankQ::of(lbp).f_ins - &acc_ins.v;
                let total = &out + &booked;
                let sl = slack(&fee) + &acc_ins.e;
                if abs(&(&total - &fee.v)) > sl || out.is_negative() || out > &fee.v + &sl {
                    self.r.violate("C05", "C05/Liquidate/insurance-share-not-2.5-percent", format!("vault paid {} + fraction booked {} vs fee {} (+-{})", show(&out), show(&booked), show(&fee.v), show(&sl)));
                }
                if ri(i1 as i128 - i0 as i128) > out {
                    self.r.violate("C05", "C05/Liquidate/insurance-vault-received-more-than-paid", format!("{} > {}", i1 - i0, show(&out)));
                }
            }
        }
        let _ = (abp, ap_l, aq_l);
        self.r.sample_kind("Liquidate", json!({"liquidatee": lek.to_string(), "seized": show(&a), "health_before": show(&h0.v), "health_after": show(&h1.v), "q_liquidator": show(&q_ll.v), "q_liquidatee": show(&q_lf.v)}));
    }

    // ------------------------------------------------------------------ C07
    fn c07(&mut self, w: &World, v: &IxView, info: &IxInfo) {
        let (bk, bp, bq) = match info.banks.first() {
            Some((k, Some(p), Some(q))) => (k, p, q),
            _ => return,
        };
        let (ak, ap, aq) = match info.accts.first() {
            Some((k, Some(p), Some(q))) => (k, p, q),
            _ => return,
        };
        if ap.account_flags & ACCOUNT_IN_FLASHLOAN != 0 {
            self.r.violate("C11", "C11/HandleBankruptcy/bankrupted-account-in-flashloan", format!("account {}", ak));
        }
        if !(self.r.is("C07") || self.r.is("C09")) {
            return;
        }
        self.r.eval();
        self.r.count("C07.bankruptcies_accepted");
        let g = match v.pre(&bp.group).and_then(group_of) {
            Some(g) => g,
            None => return,
        };
        // who
        let permissionless = bp.flags & FLAG_PERMISSIONLESS_BANKRUPTCY != 0;
        let by_admin = info.signers.contains(&g.admin) || info.signers.contains(&g.risk_admin);
        if !permissionless && !by_admin {
            self.r.violate("C07", "C07/HandleBankruptcy/non-admin-on-non-permissionless-bank", format!("signers {:?}", info.signers));
        }
        self.r.count(if permissionless { "C07.permissionless_bank" } else { "C07.admin_only_bank" });
        // real bad debt?  equity view (weights 1, isolated deposits at full value)
        let pos = positions(v, ap, false);
        let h = refm::ref_health(&pos, Req::Equity, info.now);
        if let Some(e) = &h.must_error {
            self.both(&["C07", "C09"], "Cxx/HandleBankruptcy/succeeded-with-unusable-price", format!("account {}: {:?}", ak, e));
        } else {
            let has_isolated_deposit = pos.iter().any(|p| p.bank.config.risk_tier == RiskTier::Isolated && w_(&p.balance.asset_shares) >= one());
            let assets_ge_liabs = h.assets.v.clone() - &h.assets.e > h.liabs.v.clone() + &h.liabs.e;
            let assets_ge_threshold = h.assets.v.clone() - &h.assets.e > rq(1, 10);
            self.r.max("C07.max_assets_of_bankrupt_account_usd", to_f64(&h.assets.v));
            if assets_ge_liabs || assets_ge_threshold {
                let sig = if has_isolated_deposit { "C07/HandleBankruptcy/account-with-valuable-isolated-tier-deposit-written-off" } else { "C07/HandleBankruptcy/account-not-bankrupt-written-off" };
                self.r.violate("C07", sig, format!("account {}: unweighted assets {} liabilities {}", ak, show(&h.assets.v), show(&h.liabs.v)));
            }
        }
        // owes in this bank?
        let pos_of = |acc: &MarginfiAccount| -> (Rat, Rat) {
            for b in acc.lending_account.balances.iter() {
                if b.active != 0 && &b.bank_pk == bk {
                    return (w_(&b.asset_shares), w_(&b.liability_shares));
                }
            }
            (zero(), zero())
        };
        let dt = info.now - bp.last_update;
        let ra = match refm::ref_accrue(bp, &g, dt) {
            Some(r) => r,
            None => return,
        };
        let (_, lsh) = pos_of(ap);
        let bad = Iv { v: &lsh * &ra.lsv.v, e: &lsh * &ra.lsv.e + ulp() };
        if bad.v.clone() + &bad.e <= rq(1, 10000) {
            self.r.violate("C07", "C07/HandleBankruptcy/no-debt-owed-in-bank", format!("account {} owes {} in bank {}", ak, show(&bad.v), bk));
        }
        // insurance first
        let bi = match w.bank_by_key(bk) {
            Some(i) => i,
            None => return,
        };
        let k = w.banks[bi].k;
        let (v0, v1, i0, i1) = match (v.pre(&k.lv).and_then(token_amount), v.post(&k.lv).and_then(token_amount), v.pre(&k.iv).and_then(token_amount), v.post(&k.iv).and_then(token_amount)) {
            (Some(a), Some(b), Some(c), Some(d)) => (a, b, c, d),
            _ => return,
        };
        let mint = w.mint_of_bank(bi);
        // the fee the token program charges now (the mint's schedule may have changed since creation)
        let (fee_bps, fee_max) = w.transfer_fee_now(w.banks[bi].mint);
        let fee_of = |x: u64| -> u64 { (((x as u128 * fee_bps as u128) + 9999) / 10000).min(fee_max as u128) as u64 };
        let avail = ru((i0 - fee_of(i0)) as u128);
        let covered = rmin(&bad.v, &avail);
        let ins_out = i0 - i1;
        let liq_in = v1 - v0;
        let regime = if covered >= bad.v { "fully_insured" } else if covered.is_zero() { "uninsured" } else { "partial" };
        self.r.count(&format!("C07.regime/{}", regime));
        let tol = &bad.e + ri(2);
        if ri(liq_in as i128) < ceil(&covered) - &tol {
            self.r.violate("C07", "C07/HandleBankruptcy/insurance-not-used-first", format!("bad debt {} insurance available {} but liquidity vault received only {}", show(&bad.v), show(&avail), liq_in));
        }
        if ri(liq_in as i128) > ceil(&covered) + &tol + ru(fee_of(ins_out) as u128) {
            self.r.violate("C07", "C07/HandleBankruptcy/insurance-overdrawn", format!("covered {} but liquidity vault received {}", show(&covered), liq_in));
        }
        if ri(ins_out as i128) > ceil(&covered) + &tol + ru(fee_of(ins_out) as u128 + 1) {
            self.r.violate("C07", "C07/HandleBankruptcy/insurance-vault-drained-beyond-cover", format!("covered {} insurance vault paid {}", show(&covered), ins_out));
        }
        // remainder socialised pro rata: only the asset share value moves
        let (qp, qq) = (BankQ::of(bp), BankQ::of(bq));
        if bp.total_asset_shares != bq.total_asset_shares {
            self.r.violate("C07", "C07/HandleBankruptcy/deposit-shares-changed", format!("bank {}", bk));
        }
        let d_acc = Iv { v: &qp.tas * &ra.asv.v, e: &qp.tas * &ra.asv.e };
        let loss = &bad.v - &covered;
        let killed = bq.config.operational_state == BankOperationalState::KilledByBankruptcy;
        let etol = &d_acc.e + &bad.e + (&qp.tas + ri(2)) * ri(8) * ulp();
        if qq.asv.is_negative() {
            self.r.violate("C07", "C07/HandleBankruptcy/negative-share-value", format!("bank {}", bk));
        }
        if loss.clone() - &etol > d_acc.v {
            self.r.count("C07.wipeouts");
            if !killed || !qq.asv.is_zero() {
                self.r.violate("C07", "C07/HandleBankruptcy/wiped-bank-not-killed", format!("bank {}: loss {} deposits {} state {:?} asv {}", bk, show(&loss), show(&d_acc.v), bq.config.operational_state, show(&qq.asv)));
            }
        } else if loss.clone() + &etol < d_acc.v {
            if killed {
                self.r.violate("C07", "C07/HandleBankruptcy/bank-killed-although-deposits-remain", format!("bank {}: loss {} deposits {}", bk, show(&loss), show(&d_acc.v)));
            }
            if !qp.tas.is_zero() {
                let expect = (&d_acc.v - &loss) / &qp.tas;
                let dev = abs(&(&qq.asv - &expect));
                let allow = &etol / &qp.tas + ulp() * ri(4);
                self.r.max("C07.max_socialisation_deviation_over_allowance", to_f64(&(&dev / &allow)));
                if dev > allow {
                    self.r.violate("C07", "C07/HandleBankruptcy/depositor-claims-not-reduced-by-uncovered-amount", format!("bank {}: share value {} expected {} (+-{}) loss {} deposits {}", bk, show(&qq.asv), show(&expect), show(&allow), show(&loss), show(&d_acc.v)));
                }
            }
        }
        // whatever the rounding band says about the regime: deposits that are worth nothing after
        // the write-off are "fully consumed", and such a bank must be shut
        if qq.asv.is_zero() && !qp.tas.is_zero() {
            self.r.count("C07.banks_left_with_worthless_deposits");
            if !killed {
                self.r.violate("C07", "C07/HandleBankruptcy/deposits-worth-nothing-but-bank-not-killed", format!("bank {}: loss {} deposits {} state {:?}", bk, show(&loss), show(&d_acc.v), bq.config.operational_state));
            }
        }
        // account disabled, debt cleared
        let (_, l_after) = pos_of(aq);
        if aq.account_flags & ACCOUNT_DISABLED == 0 {
            self.r.violate("C07", "C07/HandleBankruptcy/account-not-disabled", format!("account {}", ak));
        }
        if &l_after * &qq.lsv > rq(1, 10000) + &bad.e {
            self.r.violate("C07", "C07/HandleBankruptcy/debt-not-cleared", format!("account {} still owes {}", ak, show(&(&l_after * &qq.lsv))));
        }
        self.r.distinct(&("bk", regime, killed, permissionless, mint.decimals, matches!(mint.kind, crate::world::TokKind::T22Fee { .. })));
        self.r.sample_kind("HandleBankruptcy", json!({"account": ak.to_string(), "bank": bk.to_string(), "bad_debt": show(&bad.v), "insurance_available": show(&avail), "covered": show(&covered), "loss_socialised": show(&loss), "asv": [show(&qp.asv), show(&qq.asv)], "killed": killed, "assets_usd": show(&h.assets.v), "liabs_usd": show(&h.liabs.v)}));
    }

    // ------------------------------------------------------------------ C10 (per instruction part)
    /// Collateral leaving an account that is in receivership is being seized: the price of the bank
    /// it leaves must be a usable, strictly positive one (C09: a zero or negative price can never be
    /// used to seize collateral).
    fn c09_seizure_price(&mut self, w: &World, v: &IxView, info: &IxInfo) {
        let _ = w;
        let (ak, ap) = match info.accts.first() {
            Some((k, Some(p), _)) => (k, p),
            _ => return,
        };
        if ap.account_flags & ACCOUNT_IN_RECEIVERSHIP == 0 {
            return;
        }
        let bk = match v.ev.pre.get(3) {
            Some(s) => s.key,
            None => return,
        };
        let bq = match info.banks.iter().find(|(k, _, _)| *k == bk) {
            Some((_, _, Some(q))) => q,
            _ => return,
        };
        let mut ors = vec![];
        for k in oracle_keys(bq) {
            match v.ev.pre_of(&k) {
                Some(s) => ors.push(refm::OracleIn { key: k, owner: s.owner, data: &s.data[..] }),
                None => ors.push(refm::OracleIn { key: k, owner: Pubkey::default(), data: &[] }),
            }
        }
        self.r.eval();
        self.r.count("C09.receivership_withdrawals_priced");
        match refm::ref_price(bq, &ors, info.now) {
            Ok(px) => {
                if !px.low(false).v.is_positive() {
                    self.r.violate("C09", "C09/Withdraw/collateral-seized-at-zero-or-negative-price", format!("account {} bank {}: low-biased price {}", ak, bk, show(&px.low(false).v)));
                }
            }
            Err(e) => {
                self.r.violate("C09", "C09/Withdraw/collateral-seized-with-unusable-price", format!("account {} bank {}: {:?}", ak, bk, e));
            }
        }
    }

    fn c10_ix(&mut self, w: &World, v: &IxView, info: &IxInfo) {
        let (ak, ap, aq) = match info.accts.first() {
            Some((k, Some(p), Some(q))) => (k, p, q),
            _ => return,
        };
        let delev = matches!(info.kind, Kind::StartDeleverage | Kind::EndDeleverage);
        let prop = if delev { "C12" } else { "C10" };
        if !(self.r.is("C10") || self.r.is("C12") || self.r.is("C09")) {
            return;
        }
        if v.ev.stack_height != 1 {
            self.r.violate(prop, &format!("{}/{}/accepted-under-cpi", prop, info.kind.name()), format!("account {} stack height {}", ak, v.ev.stack_height));
        }
        match info.kind {
            Kind::StartLiquidation | Kind::StartDeleverage => {
                self.r.eval();
                self.r.count(&format!("{}.brackets_started", prop));
                let pos = positions(v, ap, false);
                let hm = refm::ref_health(&pos, Req::Maint, info.now);
                let he = refm::ref_health(&pos, Req::Equity, info.now);
                if let Some(e) = &hm.must_error {
                    self.both(&[prop, "C09"], &format!("Cxx/{}/succeeded-with-unusable-price", info.kind.name()), format!("account {}: {:?}", ak, e));
                }
                if !delev && hm.must_error.is_none() && hm.health().certainly_pos() {
                    self.r.violate("C10", "C10/StartLiquidation/healthy-account-taken-over", format!("account {}: maintenance health {} (+-{})", ak, show(&hm.health().v), show(&hm.health().e)));
                }
                if ap.account_flags & (ACCOUNT_IN_FLASHLOAN | ACCOUNT_DISABLED | ACCOUNT_IN_RECEIVERSHIP) != 0 {
                    self.r.violate(prop, &format!("{}/{}/started-on-flagged-account", prop, info.kind.name()), format!("account {} flags {:#b}", ak, ap.account_flags));
                }
                self.bracket.insert(*ak, (hm, he));
                let _ = aq;
            }
            Kind::EndLiquidation | Kind::EndDeleverage => {
                self.r.eval();
                self.r.count(&format!("{}.brackets_ended", prop));
                if aq.account_flags & (ACCOUNT_IN_RECEIVERSHIP | ACCOUNT_IN_DELEVERAGE) != 0 {
                    self.r.violate(prop, &format!("{}/{}/marker-not-cleared", prop, info.kind.name()), format!("account {}", ak));
                }
                let (hm0, he0) = match self.bracket.remove(ak) {
                    Some(x) => x,
                    None => {
                        self.r.violate(prop, &format!("{}/{}/end-without-start", prop, info.kind.name()), format!("account {}", ak));
                        return;
                    }
                };
                let pos = positions(v, aq, true);
                let hm1 = refm::ref_health(&pos, Req::Maint, info.now);
                let he1 = refm::ref_health(&pos, Req::Equity, info.now);
                if hm1.must_error.is_some() || hm0.must_error.is_some() {
                    return;
                }
                let (h0, h1) = (hm0.health(), hm1.health());
                let d = h1.sub(&h0);
                self.r.min(&format!("{}.min_health_change_usd", prop), to_f64(&d.v));
                if d.certainly_neg() {
                    self.r.violate(prop, &format!("{}/{}/health-worse-than-at-start", prop, info.kind.name()), format!("account {}: {} -> {}", ak, show(&h0.v), show(&h1.v)));
                }
                if !delev {
                    // three-valued: certainly under five dollars / certainly not / inside the rounding band
                    let small = he0.assets.v.clone() + &he0.assets.e < ri(5);
                    let at_boundary = !small && &he0.assets.v - &he0.assets.e * ri(4) - ulp() * ri(64) < ri(5);
                    if at_boundary {
                        self.r.count("C10.ended_account_at_the_five_dollar_boundary_not_judged");
                        return;
                    }
                    let seized = he0.assets.sub(&he1.assets);
                    let repaid = he0.liabs.sub(&he1.liabs);
                    let max_fee = w.shadow.get(&crate::ix::fee_state_key()).and_then(|a| fee_state_of(&a.data)).map(|f| w_(&f.liquidation_max_fee)).unwrap_or_else(zero);
                    let prem = one() + rmax(&max_fee, &rq(5, 100));
                    self.r.count(if small { "C10.ended_small_account" } else { "C10.ended_regular_account" });
                    // finding F9 seen through the close-out exemption: the program leaves deposits in
                    // isolated-tier banks out of the equity figure that decides whether an account is
                    // "under five dollars", so an account whose *other* assets are under five dollars
                    // is closed out (healthy end, no premium limit) although its assets are not
                    let f9 = {
                        let iso_pos: Vec<PosIn> = positions(v, aq, true).into_iter().filter(|p| p.bank.config.risk_tier == RiskTier::Isolated && w_(&p.balance.asset_shares) >= one()).collect();
                        if iso_pos.is_empty() {
                            false
                        } else {
                            let iso = refm::ref_health(&iso_pos, Req::Equity, info.now);
                            iso.must_error.is_none() && he0.assets.v.clone() - &iso.assets.v + &he0.assets.e + &iso.assets.e < ri(5)
                        }
                    };
                    let f9s = if f9 { "/account-holds-isolated-tier-deposit" } else { "" };
                    if !small {
                        if h1.certainly_pos() {
                            self.r.violate("C10", &format!("C10/EndLiquidation/health-positive-at-end{}", f9s), format!("account {}: {} (+-{}); at start: maintenance health {} equity assets {} (+-{}) liabilities {}; at end: equity assets {} liabilities {}; positions at end {}", ak, show(&h1.v), show(&h1.e), show(&h0.v), show(&he0.assets.v), show(&he0.assets.e), show(&he0.liabs.v), show(&he1.assets.v), show(&he1.liabs.v), pos.len()));
                        }
                        let lim = repaid.scale(&prem);
                        let over = seized.sub(&lim);
                        self.r.max("C10.max_seized_over_limit_usd", to_f64(&over.v));
                        if over.certainly_pos() {
                            let rec = v.pre(&crate::ix::liq_record_key(ak)).and_then(liq_record_of).map(|r| (show(&w_(&r.cache.asset_value_equity)), show(&w_(&r.cache.liability_value_equity)))).unwrap_or_default();
                            let mut parts = vec![];
                            for p in positions(v, ap, false) {
                                parts.push(format!("[tag {} tier {:?} setup {:?} a={} l={}]", p.bank.config.asset_tag, p.bank.config.risk_tier, p.bank.config.oracle_setup, show(&(w_(&p.balance.asset_shares) * w_(&p.bank.asset_share_value))), show(&(w_(&p.balance.liability_shares) * w_(&p.bank.liability_share_value)))));
                            }
                            self.r.violate("C10", &format!("C10/EndLiquidation/seized-more-than-repaid-plus-premium{}", f9s), format!("account {}: seized {} repaid {} premium {}; assets at start by the reference {} (+-{}), as recorded by the program (assets, liabilities) {:?}; positions at end-time pre-state {}", ak, show(&seized.v), show(&repaid.v), show(&prem), show(&he0.assets.v), show(&he0.assets.e), rec, parts.join(" ")));
                        }
                    }
                    self.r.distinct(&("rcv", small, he0.n_assets.min(5), he0.n_liabs.min(5), (to_f64(&seized.v) > 0.0), (to_f64(&repaid.v) > 0.0)));
                    self.r.sample_kind("EndLiquidation", json!({"account": ak.to_string(), "health_start": show(&h0.v), "health_end": show(&h1.v), "seized": show(&seized.v), "repaid": show(&repaid.v), "premium_limit": show(&prem)}));
                }
            }
            _ => {}
        }
    }

    /// Commit-time inspection for the bracket properties: shapes and surviving markers.
    pub fn brackets_on_commit(&mut self, w: &World, ixs: &[solana_sdk::instruction::Instruction], out: &crate::chain::TxOut) {
        let shift = crate::chain::Chain::IX_SHIFT;
        // C11 / C10: no marker survives a commit
        if self.r.is("C11") || self.r.is("C10") || self.r.is("C12") {
            for (k, a) in w.shadow.iter() {
                if a.owner != MFI {
                    continue;
                }
                if let Some(acc) = acct_of(&a.data) {
                    if acc.account_flags & ACCOUNT_IN_FLASHLOAN != 0 {
                        self.r.violate("C11", "C11/commit/flashloan-flag-survived-transaction", format!("account {}", k));
                    }
                    if acc.account_flags & ACCOUNT_IN_RECEIVERSHIP != 0 {
                        self.both(&["C10", "C12"], "Cxx/commit/receivership-marker-survived-transaction", format!("account {}", k));
                    }
                } else if let Some(lr) = liq_record_of(&a.data) {
                    if lr.liquidation_receiver != Pubkey::default() {
                        self.both(&["C10", "C12"], "Cxx/commit/liquidation-receiver-survived-transaction", format!("record {}", k));
                    }
                }
            }
            if !self.bracket.is_empty() {
                let ks: Vec<Pubkey> = self.bracket.keys().cloned().collect();
                self.bracket.clear();
                self.both(&["C10", "C12"], "Cxx/commit/bracket-started-but-never-ended", format!("accounts {:?}", ks));
            }
        }
        let kinds: Vec<(usize, Kind)> = ixs.iter().enumerate().filter(|(_, i)| i.program_id == MFI).map(|(n, i)| (n, Kind::of(&i.data))).collect();
        // C11: the start names a later top-level end of this program for the same account
        if self.r.is("C11") {
            for (n, k) in &kinds {
                if *k == Kind::StartFlashloan {
                    self.r.eval();
                    let end_index = arg_u64(&ixs[*n].data, 8).unwrap_or(u64::MAX);
                    let ok = end_index >= shift as u64
                        && (end_index as usize - shift) > *n
                        && ixs.get(end_index as usize - shift).map(|e| e.program_id == MFI && Kind::of(&e.data) == Kind::EndFlashloan && e.accounts.first().map(|m| m.pubkey) == ixs[*n].accounts.first().map(|m| m.pubkey)).unwrap_or(false);
                    self.r.distinct(&("fl-shape", ixs.len().min(8), (end_index as i64 - *n as i64).clamp(-2, 8)));
                    if !ok {
                        self.r.violate("C11", "C11/commit/start-accepted-without-matching-later-end", format!("start at {} names index {}", n + shift, end_index));
                    }
                }
            }
            // nested / cpi starts are judged per instruction; count committed brackets
            let n_start = out.events.iter().filter(|e| Kind::of(&e.data) == Kind::StartFlashloan).count();
            if n_start > 0 {
                self.r.add("C11.brackets_committed", n_start as u64);
            }
        }
        // C10 / C12: shape of a committed receivership transaction
        let starts: Vec<&(usize, Kind)> = kinds.iter().filter(|(_, k)| matches!(k, Kind::StartLiquidation | Kind::StartDeleverage)).collect();
        let started_events = out.events.iter().filter(|e| matches!(Kind::of(&e.data), Kind::StartLiquidation | Kind::StartDeleverage)).count();
        if started_events > 0 && (self.r.is("C10") || self.r.is("C12")) {
            self.r.eval();
            let prop_of = |k: Kind| if k == Kind::StartDeleverage { "C12" } else { "C10" };
            if starts.len() != 1 || started_events != 1 {
                self.both(&["C10", "C12"], "Cxx/commit/start-not-exactly-once-at-top-level", format!("top-level starts {} executed starts {}", starts.len(), started_events));
                return;
            }
            let (sn, sk) = *starts[0];
            let prop = prop_of(sk);
            let acct = ixs[sn].accounts.first().map(|m| m.pubkey);
            let end_kind = if sk == Kind::StartDeleverage { Kind::EndDeleverage } else { Kind::EndLiquidation };
            // first: everything before the start is compute budget or a whitelisted refresh / record init
            let allowed_before = |i: &solana_sdk::instruction::Instruction| -> bool {
                if i.program_id == solana_sdk::compute_budget::ID {
                    return true;
                }
                if i.program_id == MFI {
                    return Kind::of(&i.data) == Kind::InitLiqRecord;
                }
                // kamino refreshes / drift interest update: venue programs (not drivable here)
                i.program_id == solana_sdk::pubkey!("KLend2g3cP87fffoy8q1mQqGKjrxjC8boSyAYavgmjD") || i.program_id == solana_sdk::pubkey!("dRiftyHA39MWEi3m9aunc5MzRF1JYuBsbn6VPcn33UH")
            };
            if !ixs[..sn].iter().all(allowed_before) {
                self.r.violate(prop, &format!("{}/commit/start-not-first", prop), format!("start at {}", sn + shift));
            }
            let last = ixs.last().unwrap();
            if !(last.program_id == MFI && Kind::of(&last.data) == end_kind && last.accounts.first().map(|m| m.pubkey) == acct) {
                self.r.violate(prop, &format!("{}/commit/last-instruction-not-matching-end", prop), format!("last kind {:?}", Kind::of(&last.data)));
            }
            for (n, k) in &kinds {
                let ok = matches!(k, Kind::StartLiquidation | Kind::StartDeleverage | Kind::EndLiquidation | Kind::EndDeleverage | Kind::InitLiqRecord | Kind::Withdraw | Kind::Repay | Kind::KaminoWithdraw | Kind::DriftWithdraw);
                if !ok {
                    self.r.violate(prop, &format!("{}/commit/forbidden-instruction-in-receivership-transaction", prop), format!("{:?} at {}", k, n + shift));
                }
            }
            self.r.count(&format!("{}.brackets_committed", prop));
            self.r.distinct(&("rcv-shape", ixs.len().min(10), kinds.len().min(10), sk.name()));
        }
    }
}

fn w_(x: &WrappedI80F48) -> Rat {
    w(x)
}
