//! Boundary tap: the only glue between the runtime and the program under test.
//! Every marginfi instruction (top level or via CPI, committed or simulated) is recorded with the
//! full pre/post bytes of every account it was passed, its data, stack height and result.
use solana_sdk::{
    account_info::AccountInfo, entrypoint::ProgramResult, program_error::ProgramError,
    pubkey::Pubkey,
};
use std::sync::Mutex;

pub const PANIC_CODE: u32 = 0xDEAD;

pub use vcommon::tapdefs::{Snap, TapEvent};

static EVENTS: Mutex<Vec<TapEvent>> = Mutex::new(Vec::new());
/// filled by the process panic hook (main.rs): message and first frame inside the program
pub static LAST_PANIC: Mutex<Option<String>> = Mutex::new(None);

pub fn drain() -> Vec<TapEvent> {
    std::mem::take(&mut *EVENTS.lock().unwrap())
}

fn snap(accounts: &[AccountInfo]) -> Vec<Snap> {
    accounts
        .iter()
        .map(|a| Snap {
            key: *a.key,
            owner: *a.owner,
            lamports: a.lamports(),
            data: a.try_borrow_data().map(|d| d.to_vec()).unwrap_or_default(),
            is_signer: a.is_signer,
            is_writable: a.is_writable,
        })
        .collect()
}

pub fn marginfi_entry(pid: &Pubkey, accounts: &[AccountInfo], data: &[u8]) -> ProgramResult {
    // The Anchor entrypoint wants `&'info [AccountInfo<'info>]`; the runtime hands us two
    // independent lifetimes. The slice outlives the call, so erasing the lifetimes is sound here.
    let accounts: &'static [AccountInfo<'static>] = unsafe { core::mem::transmute(accounts) };
    let pid = *pid;
    let pre = snap(accounts);
    let stack_height = solana_sdk::instruction::get_stack_height();
    let r = std::panic::catch_unwind(std::panic::AssertUnwindSafe(|| {
        marginfi::entry(&pid, accounts, data)
    }));
    let (result, panicked) = match r {
        Ok(x) => (x, false),
        // on chain a panic aborts the transaction; keep that and tag it
        Err(_) => (Err(ProgramError::Custom(PANIC_CODE)), true),
    };
    let panic_site = if panicked { LAST_PANIC.lock().unwrap().take() } else { None };
    let post = snap(accounts);
    EVENTS.lock().unwrap().push(TapEvent {
        program: pid,
        data: data.to_vec(),
        pre,
        post,
        stack_height,
        result: result.clone(),
        panicked,
        panic_site,
    });
    result
}

/// Generic CPI proxy registered at an allowed third-party program id: forwards the inner
/// instruction (first account = target program) with `invoke`.
pub fn proxy_entry(_pid: &Pubkey, accounts: &[AccountInfo], data: &[u8]) -> ProgramResult {
    use solana_sdk::instruction::{AccountMeta, Instruction};
    if accounts.is_empty() {
        return Ok(()); // a harmless no-op instruction of a foreign program
    }
    let metas: Vec<AccountMeta> = accounts[1..]
        .iter()
        .map(|a| AccountMeta { pubkey: *a.key, is_signer: a.is_signer, is_writable: a.is_writable })
        .collect();
    let ix = Instruction { program_id: *accounts[0].key, accounts: metas, data: data.to_vec() };
    solana_sdk::program::invoke(&ix, &accounts[1..])
}

pub fn mocks_entry(pid: &Pubkey, accounts: &[AccountInfo], data: &[u8]) -> ProgramResult {
    let accounts: &'static [AccountInfo<'static>] = unsafe { core::mem::transmute(accounts) };
    let pid = *pid;
    match std::panic::catch_unwind(std::panic::AssertUnwindSafe(|| mocks::entry(&pid, accounts, data)))
    {
        Ok(x) => x,
        Err(_) => Err(ProgramError::Custom(PANIC_CODE)),
    }
}

/// A foreign program that accepts anything and does nothing.
pub fn noop_entry(_pid: &Pubkey, _accounts: &[AccountInfo], _data: &[u8]) -> ProgramResult {
    Ok(())
}
