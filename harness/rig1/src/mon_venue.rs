//! Monitors over the pass-through (venue) instructions executed against the stateful venue
//! stand-in: what marginfi books versus what the venue credited / paid, in exact rationals.
//! (C20 on the instruction level; the integration cap of C16 is judged by `c16_ix`.)
use crate::kinds::Kind;
use crate::mon::{IxInfo, Mon};
use crate::num::*;
use crate::state::*;
use crate::venue;
use crate::world::World;
use marginfi_type_crate::types::*;
use num_bigint::BigInt;
use num_traits::Signed;
use serde_json::json;

fn pos_shares(a: &MarginfiAccount, bank: &solana_sdk::pubkey::Pubkey) -> Rat {
    for b in a.lending_account.balances.iter() {
        if b.active != 0 && &b.bank_pk == bank {
            return w(&b.asset_shares);
        }
    }
    zero()
}

/// exact liquidity-per-collateral rate of a Kamino reserve (1 on an empty reserve)
pub fn kamino_rate(r: &kamino_mocks::state::MinimalReserve) -> Rat {
    if r.mint_total_supply == 0 {
        return one();
    }
    let tl = venue::kamino_total_liq_sf(r);
    if tl == num_bigint::BigUint::from(0u8) {
        return one();
    }
    Rat::new(BigInt::from(tl), BigInt::from(1u128 << 60)) / ru(r.mint_total_supply as u128)
}

/// What the monitors need from the venue's books for one pass-through bank.
pub struct VenueView {
    /// exact liquidity-per-collateral rate (1 on an empty reserve)
    pub rate: Rat,
    /// collateral the venue holds for the bank's obligation
    pub collateral: u64,
    pub decimals: u64,
    pub empty: bool,
    pub slot: u64,
}
pub fn solend_rate(r: &solend_mocks::state::SolendMinimalReserve) -> Rat {
    let sup = r.collateral_mint_total_supply;
    if sup == 0 {
        return one();
    }
    let tl = venue::solend_total_liq_wads(r);
    if tl == num_bigint::BigUint::from(0u8) {
        return one();
    }
    Rat::new(BigInt::from(tl), BigInt::from(1_000_000_000_000_000_000u128)) / ru(sup as u128)
}
/// decode reserve + obligation bytes of a pass-through bank by its asset tag (3 Kamino, 5 Solend)
pub fn venue_view(tag: u8, reserve: &[u8], obligation: &[u8]) -> Option<VenueView> {
    match tag {
        3 => {
            let r = venue::read_reserve(reserve)?;
            let o = venue::read_obligation(obligation)?;
            Some(VenueView { rate: kamino_rate(&r), collateral: o.deposits[0].deposited_amount, decimals: r.mint_decimals, empty: r.mint_total_supply == 0, slot: r.slot })
        }
        5 => {
            let r = venue::read_solend_reserve(reserve)?;
            let c = venue::solend_obligation_amount(obligation)?;
            Some(VenueView { rate: solend_rate(&r), collateral: c, decimals: r.liquidity_mint_decimals as u64, empty: { r.collateral_mint_total_supply } == 0, slot: r.last_update_slot })
        }
        4 => {
            let m = venue::read_spot_market(reserve)?;
            let u = venue::read_drift_user(obligation)?;
            let cum = u128::from_le_bytes(m.cumulative_deposit_interest);
            let p = venue::drift_precision_increase(m.decimals)?;
            // native tokens per scaled-balance unit
            Some(VenueView { rate: ru(cum) / ru(p), collateral: u.spot_positions[venue::drift_position_index(m.market_index)].scaled_balance, decimals: m.decimals as u64, empty: u128::from_le_bytes(m.deposit_balance) == 0, slot: m.last_interest_ts })
        }
        _ => None,
    }
}
pub fn reserve_slot(setup: OracleSetup, data: &[u8]) -> Option<u64> {
    match setup {
        OracleSetup::KaminoPythPush | OracleSetup::KaminoSwitchboardPull => venue::read_reserve(data).map(|r| r.slot),
        OracleSetup::SolendPythPull | OracleSetup::SolendSwitchboardPull => venue::read_solend_reserve(data).map(|r| r.last_update_slot),
        _ => None,
    }
}

impl Mon {
    /// An instruction that passes the initial-health check outside a bracket must not owe its
    /// acceptance to a venue reserve that was not refreshed in the current slot: with stale venue
    /// collateral valued at nothing (what "treated as stale" means for an asset), the reference
    /// health must not be certainly negative.
    fn c20_stale_accept(&mut self, v: &IxView, info: &IxInfo) {
        use crate::refm::{self, Req};
        let (ak, ap, aq) = match info.accts.first() {
            Some((k, Some(p), Some(q))) => (k, p, q),
            _ => return,
        };
        if ap.account_flags & (ACCOUNT_IN_FLASHLOAN | ACCOUNT_IN_RECEIVERSHIP) != 0 {
            return;
        }
        let pos = crate::mon_risk::positions(v, aq, true);
        let slot = refm::REF_SLOT.load(std::sync::atomic::Ordering::Relaxed);
        let mut stale = 0;
        let mut fresh = 0;
        for p in &pos {
            if w(&p.balance.asset_shares) >= one() {
                match p.oracles.get(1).and_then(|o| reserve_slot(p.bank.config.oracle_setup, o.data)) {
                    Some(s) if s < slot => stale += 1,
                    Some(_) => fresh += 1,
                    None => {
                        // Drift spot markets go stale by the second (interest not brought up to date now)
                        if matches!(p.bank.config.oracle_setup, OracleSetup::DriftPythPull | OracleSetup::DriftSwitchboardPull) {
                            match p.oracles.get(1).and_then(|o| venue::read_spot_market(o.data)) {
                                Some(mk) if (mk.last_interest_ts as i64) < info.now => stale += 1,
                                Some(_) => fresh += 1,
                                None => {}
                            }
                        }
                    }
                }
            }
        }
        if stale + fresh == 0 {
            return;
        }
        self.r.eval();
        self.r.count(if stale > 0 { "C20.health_checks_passed_with_stale_venue_collateral" } else { "C20.health_checks_passed_with_fresh_venue_collateral" });
        self.r.distinct(&("venue-health", info.kind.name(), stale.min(3), fresh.min(3), pos.len().min(9)));
        if stale > 0 {
            let h = refm::ref_health(&pos, Req::Initial, info.now);
            if h.must_error.is_none() && h.health().certainly_neg() {
                self.r.violate("C20", &format!("C20/{}/accepted-on-the-strength-of-a-stale-venue-reserve", info.kind.name()), format!("account {}: {} venue position(s) priced off a reserve not refreshed in slot {}; without them reference initial health is {} (+-{})", ak, stale, slot, show(&h.health().v), show(&h.health().e)));
            }
        }
    }

    pub fn venue_on_ix(&mut self, wd: &World, v: &IxView, info: &IxInfo) {
        let _ = wd;
        if matches!(info.kind, Kind::Borrow | Kind::Withdraw | Kind::KaminoWithdraw | Kind::SolendWithdraw | Kind::DriftWithdraw) {
            self.c20_stale_accept(v, info);
        }
        let dep = match info.kind {
            Kind::KaminoDeposit | Kind::SolendDeposit | Kind::DriftDeposit => true,
            Kind::KaminoWithdraw | Kind::SolendWithdraw | Kind::DriftWithdraw => false,
            _ => return,
        };
        let name = info.kind.name();
        let (bk, bp, bq) = match info.banks.first() {
            Some((k, Some(p), Some(q))) => (k, p, q),
            _ => return,
        };
        let (ak, ap, aq) = match info.accts.first() {
            Some((k, Some(p), Some(q))) => (k, p, q),
            _ => return,
        };
        let (rk, ok) = (bp.integration_acc_1, bp.integration_acc_2);
        let ev = v.ev;
        fn rd_of<'a>(ev: &'a crate::tap::TapEvent, k: &solana_sdk::pubkey::Pubkey, post: bool) -> Option<&'a [u8]> {
            if post { ev.post_of(k).map(|s| &s.data[..]) } else { ev.pre_of(k).map(|s| &s.data[..]) }
        }
        let rd = |k: &solana_sdk::pubkey::Pubkey, post: bool| rd_of(ev, k, post);
        let tag = bp.config.asset_tag;
        let (vp, vq) = match (rd(&rk, false).zip(rd(&ok, false)).and_then(|(r, o)| venue_view(tag, r, o)), rd(&rk, true).zip(rd(&ok, true)).and_then(|(r, o)| venue_view(tag, r, o))) {
            (Some(a), Some(b)) => (a, b),
            _ => return,
        };
        // the user's token account sits at a different position in the Drift account structs
        let user_ta = v.ev.pre.get(if tag == 4 { 7 } else { 4 }).map(|s| s.key);
        let (tp, tq) = match user_ta.and_then(|k| Some((token_amount(rd(&k, false)?)?, token_amount(rd(&k, true)?)?))) {
            Some(x) => x,
            None => return,
        };
        let (lvp, lvq) = match (rd(&bp.liquidity_vault, false).and_then(token_amount), rd(&bp.liquidity_vault, true).and_then(token_amount)) {
            (Some(a), Some(b)) => (a, b),
            _ => return,
        };
        let asv = w(&bq.asset_share_value);
        let (sp, sq) = (pos_shares(ap, bk), pos_shares(aq, bk));
        let rate = vp.rate.clone();
        let tol = ulp() * ri(16) * (&asv + one());
        let (obl_p, obl_q) = (vp.collateral, vq.collateral);
        self.r.eval();
        self.r.count(&format!("C20.venue_ops/{}", name));
        let rate_class = if rate == one() { 0u8 } else if rate > one() { 1 } else { 2 };
        self.r.distinct(&("venue", name, rate_class, vp.decimals, vp.empty, arg_all(&v.ev.data, dep), venue::KAMINO_FAULT.load(std::sync::atomic::Ordering::Relaxed)));
        if lvp != lvq {
            self.r.violate("C20", &format!("C20/{}/pass-through-vault-kept-or-lost-tokens", name), format!("bank {}: liquidity vault {} -> {}", bk, lvp, lvq));
        }
        if dep {
            let d_pos = (&sq - &sp) * &asv;
            let d_obl = ri(obl_q as i128) - ri(obl_p as i128);
            let paid = ri(tp as i128) - ri(tq as i128);
            if d_pos > &d_obl + &tol {
                self.r.violate("C20", &format!("C20/{}/booked-more-collateral-than-venue-credited", name), format!("account {} bank {}: position +{} collateral, obligation +{}", ak, bk, show(&d_pos), show(&d_obl)));
            }
            // what the position is now worth at the venue's exact rate never exceeds what was paid
            let worth = &d_pos * &rate;
            if worth > &paid + &tol * (&rate + one()) {
                self.r.violate("C20", &format!("C20/{}/position-credit-worth-more-than-paid", name), format!("account {} bank {}: paid {} tokens, credited collateral {} worth {} at rate {}", ak, bk, show(&paid), show(&d_pos), show(&worth), show(&rate)));
            }
            if d_pos.is_positive() {
                self.r.count("C20.venue_deposits_credited");
            }
            self.r.sample_kind(name, json!({"account": ak.to_string(), "paid": show(&paid), "collateral_credited": show(&d_obl), "booked": show(&d_pos), "rate": show(&rate)}));
        } else {
            let d_pos = (&sp - &sq) * &asv;
            let d_obl = ri(obl_p as i128) - ri(obl_q as i128);
            let recv = ri(tq as i128) - ri(tp as i128);
            if recv > &d_pos * &rate + &tol * (&rate + one()) {
                self.r.violate("C20", &format!("C20/{}/paid-more-than-position-decrease-is-worth", name), format!("account {} bank {}: received {} tokens for a position decrease of {} collateral worth {} at rate {}", ak, bk, show(&recv), show(&d_pos), show(&(&d_pos * &rate)), show(&rate)));
            }
            if d_obl > &d_pos + &tol {
                self.r.violate("C20", &format!("C20/{}/venue-collateral-removed-exceeds-position-decrease", name), format!("account {} bank {}: obligation -{} collateral, position -{}", ak, bk, show(&d_obl), show(&d_pos)));
            }
            if recv.is_positive() {
                self.r.count("C20.venue_withdrawals_paid");
            }
            self.r.sample_kind(name, json!({"account": ak.to_string(), "received": show(&recv), "collateral_removed": show(&d_obl), "position_decrease": show(&d_pos), "rate": show(&rate)}));
        }
        // the unbiased price the instruction cached for the bank is the oracle price times the
        // venue's exchange rate - never more than the exact product
        if !dep && bq.cache.last_oracle_price_timestamp == info.now && (bp.cache.last_oracle_price_timestamp != info.now || w(&bp.cache.last_oracle_price) != w(&bq.cache.last_oracle_price)) {
            let mut ors = vec![];
            for k in crate::mon_risk::oracle_keys_pub(bq) {
                let snap = match v.ev.post_of(&k) {
                    Some(p) if p.is_writable => Some(p),
                    _ => v.ev.pre_of(&k),
                };
                if let Some(sn) = snap {
                    ors.push(crate::refm::OracleIn { key: k, owner: sn.owner, data: &sn.data[..] });
                }
            }
            if let Ok(px) = crate::refm::ref_price(bq, &ors, info.now) {
                let cached = w(&bq.cache.last_oracle_price);
                self.r.count("C20.cached_venue_prices_compared");
                if rate < one() {
                    self.r.count("C20.cached_venue_prices_compared_at_rate_below_one");
                }
                let bound = &px.spot + &px.e * ri(4) + ulp() * ri(16);
                if cached > bound {
                    self.r.violate("C20", &format!("C20/{}/cached-price-exceeds-oracle-price-times-exact-exchange-rate", name), format!("bank {}: cached unbiased price {} but oracle price x exact venue rate is {} (+-{})", bk, show(&cached), show(&px.spot), show(&px.e)));
                }
            }
        }
        // the bank's books never claim more collateral than the venue holds for it
        let booked = w(&bq.total_asset_shares) * &asv;
        let n = self.venue_ops.entry(*bk).or_insert(0);
        *n += 1;
        let allow = &tol * ri(*n as i128 + 1);
        self.r.min("C20.min_venue_collateral_minus_books", to_f64(&(ri(obl_q as i128) - &booked)));
        if booked > ri(obl_q as i128) + allow {
            self.r.violate("C20", &format!("C20/{}/bank-books-exceed-venue-collateral", name), format!("bank {}: booked {} collateral, obligation holds {}", bk, show(&booked), obl_q));
        }
    }
}

fn arg_all(data: &[u8], dep: bool) -> bool {
    !dep && crate::mon::arg_opt_bool(data, 16) == Some(true)
}
