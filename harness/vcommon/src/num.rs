//! Exact arithmetic for the oracle side. Nothing here calls the program's own math.
use num_bigint::BigInt;
use num_rational::BigRational;
use num_traits::{One, Signed, ToPrimitive, Zero};

pub type Rat = BigRational;

pub fn ri(n: i128) -> Rat {
    Rat::from_integer(BigInt::from(n))
}
pub fn ru(n: u128) -> Rat {
    Rat::from_integer(BigInt::from(n))
}
pub fn rq(n: i128, d: i128) -> Rat {
    Rat::new(BigInt::from(n), BigInt::from(d))
}
pub fn zero() -> Rat {
    Rat::zero()
}
pub fn one() -> Rat {
    Rat::one()
}
pub fn pow2(k: u32) -> Rat {
    Rat::from_integer(BigInt::one() << k)
}
pub fn pow10(k: u32) -> Rat {
    Rat::from_integer(num_traits::pow(BigInt::from(10), k as usize))
}
/// 2^-48: one ulp of I80F48.
pub fn ulp() -> Rat {
    Rat::new(BigInt::one(), BigInt::one() << 48)
}
/// Decode the 16 little-endian bytes of a WrappedI80F48 into an exact rational.
pub fn fx(bytes: &[u8; 16]) -> Rat {
    let bits = i128::from_le_bytes(*bytes);
    Rat::new(BigInt::from(bits), BigInt::one() << 48)
}
pub fn fx_bits(bytes: &[u8; 16]) -> i128 {
    i128::from_le_bytes(*bytes)
}
pub fn bits_to_rat(bits: i128) -> Rat {
    Rat::new(BigInt::from(bits), BigInt::one() << 48)
}
pub fn floor(r: &Rat) -> Rat {
    r.floor()
}
pub fn ceil(r: &Rat) -> Rat {
    r.ceil()
}
pub fn frac(r: &Rat) -> Rat {
    r - r.floor()
}
pub fn rmin(a: &Rat, b: &Rat) -> Rat {
    if a <= b {
        a.clone()
    } else {
        b.clone()
    }
}
pub fn rmax(a: &Rat, b: &Rat) -> Rat {
    if a >= b {
        a.clone()
    } else {
        b.clone()
    }
}
pub fn abs(r: &Rat) -> Rat {
    r.abs()
}
pub fn to_f64(r: &Rat) -> f64 {
    // robust conversion for very large/small values
    let n = r.numer();
    let d = r.denom();
    let nb = n.bits() as i64;
    let db = d.bits() as i64;
    if nb < 900 && db < 900 {
        return n.to_f64().unwrap_or(f64::NAN) / d.to_f64().unwrap_or(f64::NAN);
    }
    let shift = (nb.max(db) - 900).max(0) as usize;
    let n2 = n >> shift;
    let d2 = d >> shift;
    n2.to_f64().unwrap_or(f64::NAN) / d2.to_f64().unwrap_or(f64::NAN)
}
pub fn to_u64_floor(r: &Rat) -> Option<u64> {
    r.floor().to_integer().to_u64()
}
pub fn show(r: &Rat) -> String {
    format!("{:.12e}", to_f64(r))
}
/// Round a rational toward zero onto the I80F48 grid (what a checked fixed op yields) - used only
/// for diagnostics, never for a verdict.
pub fn to_grid(r: &Rat) -> Rat {
    let scaled = r * pow2(48);
    let t = scaled.trunc();
    t / pow2(48)
}

/// Value with a propagated absolute error bound (DESIGN 2.4).
#[derive(Clone, Debug)]
pub struct Iv {
    pub v: Rat,
    pub e: Rat,
}
impl Iv {
    pub fn exact(v: Rat) -> Iv {
        Iv { v, e: zero() }
    }
    pub fn add(&self, o: &Iv) -> Iv {
        Iv { v: &self.v + &o.v, e: &self.e + &o.e }
    }
    pub fn sub(&self, o: &Iv) -> Iv {
        Iv { v: &self.v - &o.v, e: &self.e + &o.e }
    }
    /// fixed-point multiplication: result truncated to the grid -> one more ulp
    pub fn mul(&self, o: &Iv) -> Iv {
        let e = self.v.abs() * &o.e + o.v.abs() * &self.e + &self.e * &o.e + ulp();
        Iv { v: &self.v * &o.v, e }
    }
    /// fixed-point division. `o` must be bounded away from zero by more than its error.
    pub fn div(&self, o: &Iv) -> Iv {
        let lo = o.v.abs() - &o.e;
        if !lo.is_positive() {
            // unbounded: return a huge error so the caller lands in the "either" band
            return Iv { v: if o.v.is_zero() { zero() } else { &self.v / &o.v }, e: pow2(120) };
        }
        let q = &self.v / &o.v;
        let e = (&self.e + q.abs() * &o.e) / lo + ulp();
        Iv { v: q, e }
    }
    pub fn scale(&self, k: &Rat) -> Iv {
        Iv { v: &self.v * k, e: &self.e * k.abs() }
    }
    pub fn certainly_pos(&self) -> bool {
        self.v > self.e
    }
    pub fn certainly_neg(&self) -> bool {
        &self.v + &self.e < zero()
    }
}
