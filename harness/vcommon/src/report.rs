//! What a worker observed: violations (with signatures), counters, distinct non-trivial cases,
//! samples and numeric extrema. Merged across shards by the orchestrator.
use serde_json::{json, Value};
use std::collections::{BTreeMap, BTreeSet};
use std::hash::{Hash, Hasher};

#[derive(Clone, Debug)]
pub struct Violation {
    pub prop: String,
    pub sig: String,
    pub detail: String,
}

#[derive(Default)]
pub struct Report {
    pub prop: String,
    pub violations: Vec<Violation>,
    pub violation_count: u64,
    pub counters: BTreeMap<String, u64>,
    pub distinct: BTreeSet<u64>,
    pub samples: Vec<Value>,
    pub maxima: BTreeMap<String, f64>,
    pub minima: BTreeMap<String, f64>,
    pub evaluations: u64,
    pub notes: BTreeSet<String>,
    pub inconclusive: Vec<String>,
}

pub fn h64<T: Hash>(t: &T) -> u64 {
    let mut h = std::collections::hash_map::DefaultHasher::new();
    t.hash(&mut h);
    h.finish()
}

impl Report {
    pub fn new(prop: &str) -> Report {
        Report { prop: prop.to_string(), ..Default::default() }
    }
    pub fn is(&self, p: &str) -> bool {
        self.prop == p
    }
    pub fn violate(&mut self, prop: &str, sig: &str, detail: String) {
        if prop != self.prop {
            // monitors of other properties may run as a by-product; only the claimed one decides
            *self.counters.entry(format!("other_property_alarm/{}", prop)).or_insert(0) += 1;
            return;
        }
        self.violation_count += 1;
        if std::env::var("VERIF_MARK").is_ok() {
            // debugging aid: program logs go to stdout, so a marker there locates the transaction
            println!("VIOLATION-MARK {} {}", sig, detail);
        }
        if self.violations.len() < 40 && self.violations.iter().filter(|v| v.sig == sig).count() < 3 {
            self.violations.push(Violation { prop: prop.to_string(), sig: sig.to_string(), detail });
        }
    }
    pub fn count(&mut self, k: &str) {
        *self.counters.entry(k.to_string()).or_insert(0) += 1;
    }
    pub fn add(&mut self, k: &str, n: u64) {
        *self.counters.entry(k.to_string()).or_insert(0) += n;
    }
    pub fn eval(&mut self) {
        self.evaluations += 1;
    }
    pub fn distinct<T: Hash>(&mut self, t: &T) {
        if self.distinct.len() < 2_000_000 {
            self.distinct.insert(h64(t));
        }
    }
    pub fn sample(&mut self, v: Value) {
        if self.samples.len() < 12 {
            self.samples.push(v);
        }
    }
    pub fn sample_kind(&mut self, kind: &str, v: Value) {
        // keep at most two samples per kind so that the sample list shows variety
        let n = self.samples.iter().filter(|s| s.get("kind").and_then(|k| k.as_str()) == Some(kind)).count();
        if n < 2 && self.samples.len() < 40 {
            let mut v = v;
            if let Some(o) = v.as_object_mut() {
                o.insert("kind".into(), json!(kind));
            }
            self.samples.push(v);
        }
    }
    pub fn max(&mut self, k: &str, v: f64) {
        let e = self.maxima.entry(k.to_string()).or_insert(f64::NEG_INFINITY);
        if v > *e {
            *e = v;
        }
    }
    pub fn min(&mut self, k: &str, v: f64) {
        let e = self.minima.entry(k.to_string()).or_insert(f64::INFINITY);
        if v < *e {
            *e = v;
        }
    }
    pub fn note(&mut self, s: &str) {
        self.notes.insert(s.to_string());
    }
    pub fn to_json(&self) -> Value {
        json!({
            "prop": self.prop,
            "violations": self.violations.iter().map(|v| json!({"prop": v.prop, "sig": v.sig, "detail": v.detail})).collect::<Vec<_>>(),
            "violation_count": self.violation_count,
            "counters": self.counters,
            "distinct": self.distinct.iter().collect::<Vec<_>>(),
            "samples": self.samples,
            "maxima": self.maxima,
            "minima": self.minima,
            "evaluations": self.evaluations,
            "notes": self.notes,
            "inconclusive": self.inconclusive,
        })
    }
}
