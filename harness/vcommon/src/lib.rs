//! Oracle-side code shared by both rigs: exact arithmetic, decoding, reference model, reports.
#![allow(dead_code)]
pub mod num;
pub mod refm;
pub mod report;
pub mod state;
pub mod tapdefs;
