//! Decoding of account bytes with the repository's own `#[repr(C)]` layouts (type crate) and a
//! shadow copy of the closed world. Numbers are converted straight to exact rationals.
use crate::num::*;
use crate::tapdefs::{Snap, TapEvent};
use marginfi_type_crate::constants::discriminators;
use marginfi_type_crate::types::*;
use solana_sdk::{account::Account, pubkey::Pubkey};
use std::collections::HashMap;

#[derive(Clone, Debug, PartialEq, Eq)]
pub struct Acc {
    pub owner: Pubkey,
    pub lamports: u64,
    pub data: Vec<u8>,
}
impl From<&Account> for Acc {
    fn from(a: &Account) -> Acc {
        Acc { owner: a.owner, lamports: a.lamports, data: a.data.clone() }
    }
}
impl From<&Snap> for Acc {
    fn from(a: &Snap) -> Acc {
        Acc { owner: a.owner, lamports: a.lamports, data: a.data.clone() }
    }
}

pub type Shadow = HashMap<Pubkey, Acc>;

fn pod<T: bytemuck::Pod>(data: &[u8], discr: &[u8; 8]) -> Option<T> {
    let n = std::mem::size_of::<T>();
    if data.len() < 8 + n || &data[..8] != discr {
        return None;
    }
    Some(bytemuck::pod_read_unaligned::<T>(&data[8..8 + n]))
}
pub fn bank_of(data: &[u8]) -> Option<Bank> {
    pod::<Bank>(data, &discriminators::BANK)
}
pub fn acct_of(data: &[u8]) -> Option<MarginfiAccount> {
    pod::<MarginfiAccount>(data, &discriminators::ACCOUNT)
}
pub fn group_of(data: &[u8]) -> Option<MarginfiGroup> {
    pod::<MarginfiGroup>(data, &discriminators::GROUP)
}
pub fn fee_state_of(data: &[u8]) -> Option<FeeState> {
    pod::<FeeState>(data, &discriminators::FEE_STATE)
}
pub fn liq_record_of(data: &[u8]) -> Option<LiquidationRecord> {
    pod::<LiquidationRecord>(data, &discriminators::LIQUIDATION_RECORD)
}
pub fn staked_settings_of(data: &[u8]) -> Option<StakedSettings> {
    pod::<StakedSettings>(data, &discriminators::STAKED_SETTINGS)
}
/// SPL token / token-2022 account amount (base layout is identical).
pub fn token_amount(data: &[u8]) -> Option<u64> {
    if data.len() < 72 {
        return None;
    }
    Some(u64::from_le_bytes(data[64..72].try_into().unwrap()))
}
pub fn token_owner(data: &[u8]) -> Option<Pubkey> {
    if data.len() < 64 {
        return None;
    }
    Some(Pubkey::new_from_array(data[32..64].try_into().unwrap()))
}
pub fn token_mint(data: &[u8]) -> Option<Pubkey> {
    if data.len() < 32 {
        return None;
    }
    Some(Pubkey::new_from_array(data[0..32].try_into().unwrap()))
}

pub fn w(x: &WrappedI80F48) -> Rat {
    fx(&x.value)
}
pub fn wbits(x: &WrappedI80F48) -> i128 {
    fx_bits(&x.value)
}

/// Derived quantities of a bank, exact.
pub struct BankQ {
    pub asv: Rat,
    pub lsv: Rat,
    pub tas: Rat,
    pub tls: Rat,
    pub d: Rat,
    pub l: Rat,
    pub f_ins: Rat,
    pub f_grp: Rat,
    pub f_prog: Rat,
}
impl BankQ {
    pub fn of(b: &Bank) -> BankQ {
        let asv = w(&b.asset_share_value);
        let lsv = w(&b.liability_share_value);
        let tas = w(&b.total_asset_shares);
        let tls = w(&b.total_liability_shares);
        BankQ {
            d: &tas * &asv,
            l: &tls * &lsv,
            asv,
            lsv,
            tas,
            tls,
            f_ins: w(&b.collected_insurance_fees_outstanding),
            f_grp: w(&b.collected_group_fees_outstanding),
            f_prog: w(&b.collected_program_fees_outstanding),
        }
    }
    pub fn fees(&self) -> Rat {
        &self.f_ins + &self.f_grp + &self.f_prog
    }
    /// what the liquidity vault must at least hold
    pub fn required(&self) -> Rat {
        &self.d - &self.l + self.fees()
    }
}

/// Lookup of account bytes "before" and "after" one tapped instruction: accounts passed to the
/// instruction come from the tap snapshots, everything else from the running shadow.
pub struct IxView<'a> {
    pub ev: &'a TapEvent,
    pub cur: &'a Shadow,
}
impl<'a> IxView<'a> {
    pub fn pre(&self, k: &Pubkey) -> Option<&'a [u8]> {
        if let Some(s) = self.ev.pre_of(k) {
            return Some(&s.data[..]);
        }
        self.cur.get(k).map(|a| &a.data[..])
    }
    pub fn post(&self, k: &Pubkey) -> Option<&'a [u8]> {
        if let Some(s) = self.ev.post_of(k) {
            return Some(&s.data[..]);
        }
        self.cur.get(k).map(|a| &a.data[..])
    }
    pub fn touched(&self, k: &Pubkey) -> bool {
        self.ev.pre_of(k).is_some()
    }
}

pub fn active_balances(a: &MarginfiAccount) -> Vec<&Balance> {
    a.lending_account.balances.iter().filter(|b| b.active != 0).collect()
}

/// decimals of a bank's balances: the mint's, except Drift pass-through banks whose balances are
/// Drift scaled balances (always 9 decimals)
pub fn balance_decimals(b: &Bank) -> u32 {
    if b.config.asset_tag == 4 {
        9
    } else {
        b.mint_decimals as u32
    }
}
