//! Event types recorded by the boundary tap.
use solana_sdk::{program_error::ProgramError, pubkey::Pubkey};

#[derive(Clone, Debug)]
pub struct Snap {
    pub key: Pubkey,
    pub owner: Pubkey,
    pub lamports: u64,
    pub data: Vec<u8>,
    pub is_signer: bool,
    pub is_writable: bool,
}

#[derive(Clone, Debug)]
pub struct TapEvent {
    pub program: Pubkey,
    pub data: Vec<u8>,
    pub pre: Vec<Snap>,
    pub post: Vec<Snap>,
    pub stack_height: usize,
    /// Ok, or the program error as u64-coded ProgramError string
    pub result: Result<(), ProgramError>,
    pub panicked: bool,
    /// where the program panicked (message + first program frame), if it did
    pub panic_site: Option<String>,
}

impl TapEvent {
    pub fn discr(&self) -> [u8; 8] {
        let mut d = [0u8; 8];
        if self.data.len() >= 8 {
            d.copy_from_slice(&self.data[..8]);
        }
        d
    }
    pub fn ok(&self) -> bool {
        self.result.is_ok()
    }
    pub fn pre_of(&self, k: &Pubkey) -> Option<&Snap> {
        self.pre.iter().find(|s| &s.key == k)
    }
    pub fn post_of(&self, k: &Pubkey) -> Option<&Snap> {
        self.post.iter().find(|s| &s.key == k)
    }
    pub fn signers(&self) -> Vec<Pubkey> {
        self.pre.iter().filter(|s| s.is_signer).map(|s| s.key).collect()
    }
}

