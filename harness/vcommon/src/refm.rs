//! Reference model (oracle side): exact-rational re-computation of what the properties say must
//! hold, with propagated fixed-point error bounds (DESIGN 2.4). Nothing here calls program math.
use crate::num::*;
use crate::state::*;
use marginfi_type_crate::types::*;
use num_traits::{Signed, Zero};
use solana_sdk::pubkey::Pubkey;

pub const PYTH_OWNER: Pubkey = solana_sdk::pubkey!("rec5EKMGg6MxZYaMdyBfgwp4d5rB9T1VQH5pJv5LtFJ");
pub const SWB_OWNER: Pubkey = solana_sdk::pubkey!("SBondMDrcV3K4kxZR1HNVT7osZxAHVHgYXL5Ze1oMUv");
pub const KAMINO: Pubkey = solana_sdk::pubkey!("KLend2g3cP87fffoy8q1mQqGKjrxjC8boSyAYavgmjD");
pub const SOLEND: Pubkey = solana_sdk::pubkey!("So1endDq2YkqhipRh3WViPa8hdiSpxWy6z3Z6tMCpAo");
pub const DRIFT: Pubkey = solana_sdk::pubkey!("dRiftyHA39MWEi3m9aunc5MzRF1JYuBsbn6VPcn33UH");
/// slot the reference model judges venue staleness against (set by the driver from the Clock it wrote)
pub static REF_SLOT: std::sync::atomic::AtomicU64 = std::sync::atomic::AtomicU64::new(0);
/// diagnostic switch: value everything at the reported price (used to attribute an acceptance to
/// missing conservative bias rather than to anything else)
pub static REF_NO_BIAS: std::sync::atomic::AtomicBool = std::sync::atomic::AtomicBool::new(false);
pub fn set_slot(s: u64) {
    REF_SLOT.store(s, std::sync::atomic::Ordering::Relaxed);
}
pub const SPL_TOKEN: Pubkey = solana_sdk::pubkey!("TokenkegQfeZyiNwAJbNbGKPFXCWuBvf9Ss623VQ5DA");
pub const STAKE_PROG: Pubkey = solana_sdk::pubkey!("Stake11111111111111111111111111111111111111");
pub const SECONDS_PER_YEAR: i128 = 31_536_000;

// ------------------------------------------------------------------ interest
pub fn u32max() -> Rat {
    ru(u32::MAX as u128)
}

/// Exact piecewise-linear base rate of a seven-point curve at utilisation `u` (clamped to [0,1]).
/// Returns None when the configuration has no defined value there (should never happen for an
/// accepted configuration - that is property C18).
pub fn curve_base_rate(c: &InterestRateConfig, u: &Rat) -> Option<Rat> {
    let u = rmax(&zero(), &rmin(u, &one()));
    if c.curve_type == INTEREST_CURVE_LEGACY {
        let opt = w(&c.optimal_utilization_rate);
        let plateau = w(&c.plateau_interest_rate);
        let maxr = w(&c.max_interest_rate);
        if opt <= zero() || opt >= one() {
            return None;
        }
        return Some(if u <= opt { &u / &opt * &plateau } else { (&u - &opt) / (one() - &opt) * (&maxr - &plateau) + &plateau });
    }
    let rate = |r: u32| ru(r as u128) * ri(10) / u32max();
    let util = |x: u32| ru(x as u128) / u32max();
    let mut px = zero();
    let mut py = rate(c.zero_util_rate);
    for p in c.points.iter().filter(|p| p.util != 0) {
        let (x, y) = (util(p.util), rate(p.rate));
        if u <= x {
            return lerp(&px, &py, &x, &y, &u);
        }
        px = x;
        py = y;
    }
    lerp(&px, &py, &one(), &rate(c.hundred_util_rate), &u)
}
fn lerp(x0: &Rat, y0: &Rat, x1: &Rat, y1: &Rat, x: &Rat) -> Option<Rat> {
    if x1 <= x0 {
        return Some(y0.clone());
    }
    if x < x0 || x > x1 {
        return None;
    }
    Some(y0 + (y1 - y0) * (x - x0) / (x1 - x0))
}

/// largest slope (rate per unit utilisation) of any segment of the configured curve
pub fn max_slope(c: &InterestRateConfig) -> Rat {
    if c.curve_type == INTEREST_CURVE_LEGACY {
        let opt = w(&c.optimal_utilization_rate);
        let plateau = w(&c.plateau_interest_rate);
        let maxr = w(&c.max_interest_rate);
        if opt <= zero() || opt >= one() {
            return zero();
        }
        return rmax(&(&plateau / &opt), &((&maxr - &plateau) / (one() - &opt)));
    }
    let rate = |r: u32| ru(r as u128) * ri(10) / u32max();
    let util = |x: u32| ru(x as u128) / u32max();
    let mut pts = vec![(zero(), rate(c.zero_util_rate))];
    for p in c.points.iter().filter(|p| p.util != 0) {
        pts.push((util(p.util), rate(p.rate)));
    }
    pts.push((one(), rate(c.hundred_util_rate)));
    let mut s = zero();
    for wn in pts.windows(2) {
        let dx = &wn[1].0 - &wn[0].0;
        if dx.is_positive() {
            s = rmax(&s, &(abs(&(&wn[1].1 - &wn[0].1)) / dx));
        }
    }
    s
}

pub struct RefAccrual {
    pub asv: Iv,
    pub lsv: Iv,
    pub d_ins: Iv,
    pub d_grp: Iv,
    pub d_prog: Iv,
    pub base: Rat,
    pub util: Rat,
    /// false when nothing accrues (dt == 0, or no assets, or no liabilities)
    pub active: bool,
    /// deposits or debt of the bank are within a few thousand grid steps of zero: the utilisation
    /// the program computes from its truncated totals can be anywhere, so nothing is judged
    pub dust: bool,
}

/// Reference accrual over `dt` seconds from the bank's pre-state (App. B). The error bounds follow
/// the chain of fixed-point operations any implementation of the formula needs; they are widened
/// by a constant safety factor so that a different but equivalent operation order cannot trip them.
pub fn ref_accrue(b: &Bank, g: &MarginfiGroup, dt: i64) -> Option<RefAccrual> {
    let q = BankQ::of(b);
    let exact = |r: Rat| Iv::exact(r);
    if dt <= 0 || q.d.is_zero() || q.l.is_zero() {
        return Some(RefAccrual { asv: exact(q.asv.clone()), lsv: exact(q.lsv.clone()), d_ins: exact(zero()), d_grp: exact(zero()), d_prog: exact(zero()), base: zero(), util: zero(), active: false, dust: false });
    }
    let c = &b.config.interest_rate_config;
    let u = &q.l / &q.d;
    let base = curve_base_rate(c, &u)?;
    let prog_on = g.group_flags & 1 != 0;
    let (pf_rate, pf_fix) = if prog_on { (w(&g.fee_state_cache.program_fee_rate), w(&g.fee_state_cache.program_fee_fixed)) } else { (zero(), zero()) };
    let ins_r = w(&c.insurance_ir_fee);
    let ins_f = w(&c.insurance_fee_fixed_apr);
    let grp_r = w(&c.protocol_ir_fee);
    let grp_f = w(&c.protocol_fixed_fee_apr);
    let lend = &base * &u;
    let borrow = &base * (one() + &ins_r + &grp_r + &pf_rate) + &ins_f + &grp_f + &pf_fix;
    let t = ri(dt as i128) / ri(SECONDS_PER_YEAR);
    // error model: every rate is the result of <= 8 truncating operations on values <= 16 (base
    // rate <= 10, fee multipliers small) -> rate error <= K ulps, K generous.
    let k = ri(64);
    // the interpolated base rate carries an error proportional to the local slope of the curve
    // (breakpoints and the utilisation are themselves truncated to the 2^-48 grid)
    let slope = max_slope(c);
    // the utilisation is the quotient of two truncated totals: relative error ulp/deposits + ulp/debt
    let dust = q.d < ulp() * ri(1 << 16) || q.l < ulp() * ri(1 << 16);
    let du = (&u + one()) * (ulp() / &q.d + ulp() / &q.l) * ri(4);
    let base_e = ulp() * ri(16) * (one() + &slope) + &slope * &du;
    let fee_mult = one() + abs(&ins_r) + abs(&grp_r) + abs(&pf_rate) + abs(&u);
    let rate_err = |mag: &Rat| (abs(mag) + one()) * &k * ulp() + &base_e * &fee_mult;
    let u_mag = abs(&u) + one();
    let lend_e = rate_err(&lend) * &u_mag + (abs(&base) + one()) * &du;
    let borrow_e = rate_err(&borrow);
    let asv_new = &q.asv * (one() + &lend * &t);
    let lsv_new = &q.lsv * (one() + &borrow * &t);
    let asv_e = &q.asv * &lend_e * &t + (&q.asv + one()) * ri(4) * ulp();
    let lsv_e = &q.lsv * &borrow_e * &t + (&q.lsv + one()) * ri(4) * ulp();
    let fee = |r: &Rat, f: &Rat| -> Iv {
        let apr = &base * r + f;
        let v = &q.l * &apr * &t;
        // L*apr (trunc), *dt (exact int), /Y (trunc): error <= L*rate_err*t + dt ulps + 1 ulp
        let e = &q.l * rate_err(&apr) * &t + ri(dt as i128 + 2) * ulp() * (abs(&apr) + one());
        Iv { v, e }
    };
    Some(RefAccrual {
        asv: Iv { v: asv_new, e: asv_e },
        lsv: Iv { v: lsv_new, e: lsv_e },
        d_ins: fee(&ins_r, &ins_f),
        d_grp: fee(&grp_r, &grp_f),
        d_prog: fee(&pf_rate, &pf_fix),
        base,
        util: u,
        active: true,
        dust,
    })
}

// ------------------------------------------------------------------ prices
#[derive(Clone, Debug, PartialEq, Eq)]
pub enum PxErr {
    NotSetup,
    WrongCount,
    WrongKey,
    Missing,
    WrongOwner,
    BadData,
    Verification,
    Stale,
    Confidence,
    NegativeOrZeroSupply,
    Unsupported,
}

#[derive(Clone, Debug)]
pub struct RefPx {
    /// real-time price and its scaled confidence (k*c), exact by the spec
    pub spot: Rat,
    pub spot_kc: Rat,
    pub ema: Rat,
    pub ema_kc: Rat,
    /// configured max-confidence fraction m (0 => 10%)
    pub max_conf: Rat,
    /// absolute error bound of the program-side fixed-point conversion of price/conf
    pub e: Rat,
    pub fixed: bool,
}
#[derive(Clone, Copy, Debug, PartialEq, Eq)]
pub enum Tri {
    Yes,
    No,
    Border,
}
#[derive(Clone, Copy, Debug, PartialEq, Eq)]
pub enum Req {
    Initial,
    Maint,
    Equity,
}
impl RefPx {
    fn pc(&self, ema: bool) -> (&Rat, &Rat) {
        if ema {
            (&self.ema, &self.ema_kc)
        } else {
            (&self.spot, &self.spot_kc)
        }
    }
    /// is the confidence within the configured maximum?  (k*c <= P*m)
    pub fn conf_ok(&self, ema: bool) -> Tri {
        if self.fixed {
            return Tri::Yes;
        }
        let (p, kc) = self.pc(ema);
        let lim = p * &self.max_conf;
        let slack = &self.e * ri(4) + ulp() * ri(4);
        if kc <= &(&lim - &slack) {
            Tri::Yes
        } else if kc > &(&lim + &slack) {
            Tri::No
        } else {
            Tri::Border
        }
    }
    pub fn bias(&self, ema: bool) -> Rat {
        if self.fixed || REF_NO_BIAS.load(std::sync::atomic::Ordering::Relaxed) {
            return zero();
        }
        let (p, kc) = self.pc(ema);
        rmin(kc, &(p * rq(5, 100)))
    }
    pub fn low(&self, ema: bool) -> Iv {
        let (p, _) = self.pc(ema);
        Iv { v: p - self.bias(ema), e: &self.e * ri(3) + ulp() * ri(3) }
    }
    pub fn high(&self, ema: bool) -> Iv {
        let (p, _) = self.pc(ema);
        Iv { v: p + self.bias(ema), e: &self.e * ri(3) + ulp() * ri(3) }
    }
}

pub struct OracleIn<'a> {
    pub key: Pubkey,
    pub owner: Pubkey,
    pub data: &'a [u8],
}

fn pyth_decode(data: &[u8]) -> Option<(bool, i64, u64, i32, i64, i64, u64)> {
    // discriminator(8) write_authority(32) verification(1|2) feed_id(32) price conf expo publish prev ema ema_conf slot
    use anchor_lang::Discriminator;
    if data.len() < 8 || data[..8] != *pyth_solana_receiver_sdk::price_update::PriceUpdateV2::DISCRIMINATOR {
        return None;
    }
    let mut o = 8 + 32;
    let tag = *data.get(o)?;
    let full = match tag {
        0 => {
            o += 2;
            false
        }
        1 => {
            o += 1;
            true
        }
        _ => return None,
    };
    o += 32;
    let rd8 = |o: usize| -> Option<[u8; 8]> { data.get(o..o + 8)?.try_into().ok() };
    let price = i64::from_le_bytes(rd8(o)?);
    let conf = u64::from_le_bytes(rd8(o + 8)?);
    let expo = i32::from_le_bytes(data.get(o + 16..o + 20)?.try_into().ok()?);
    let publish = i64::from_le_bytes(rd8(o + 20)?);
    let ema = i64::from_le_bytes(rd8(o + 36)?);
    let ema_conf = u64::from_le_bytes(rd8(o + 44)?);
    Some((full, price, conf, expo, publish, ema, ema_conf))
}

fn pyth_px(o: &OracleIn, cfg_key: &Pubkey, now: i64, max_age: u64, max_conf: &Rat, scale: Option<(&Rat, &Rat)>) -> Result<RefPx, PxErr> {
    pyth_px_x(o, cfg_key, now, max_age, max_conf, scale, false, &zero())
}

/// `scale_conf`: the confidence fields are multiplied by the exchange rate too (venue banks);
/// `rate_err`: absolute error bound of the exchange rate the program computes in fixed point.
#[allow(clippy::too_many_arguments)]
fn pyth_px_x(o: &OracleIn, cfg_key: &Pubkey, now: i64, max_age: u64, max_conf: &Rat, scale: Option<(&Rat, &Rat)>, scale_conf: bool, rate_err: &Rat) -> Result<RefPx, PxErr> {
    if &o.key != cfg_key {
        return Err(PxErr::WrongKey);
    }
    if o.owner != PYTH_OWNER {
        return Err(PxErr::WrongOwner);
    }
    let (full, price, conf, expo, publish, ema, ema_conf) = pyth_decode(o.data).ok_or(PxErr::BadData)?;
    if !full {
        return Err(PxErr::Verification);
    }
    if (publish as i128) + (max_age as i128) < now as i128 {
        return Err(PxErr::Stale);
    }
    if expo.unsigned_abs() >= 24 {
        return Err(PxErr::Unsupported);
    }
    let sc = if expo < 0 { one() / pow10(expo.unsigned_abs()) } else { pow10(expo as u32) };
    let k = rq(212, 100);
    let (mul, extra_e) = match scale {
        Some((num, den)) => (num / den, &sc * ri(2)),
        None => (one(), zero()),
    };
    Ok(RefPx {
        spot: ri(price as i128) * &sc * &mul,
        spot_kc: ru(conf as u128) * &sc * &k * if scale_conf { mul.clone() } else { one() },
        ema: ri(ema as i128) * &sc * &mul,
        ema_kc: ru(ema_conf as u128) * &sc * &k * if scale_conf { mul.clone() } else { one() },
        max_conf: max_conf.clone(),
        // conversions truncate once; the constants 2.12 and 0.05 are themselves truncated to the
        // grid, so k*conf carries conf*ulp and the 5% cap carries price*ulp
        e: ulp() * ri(4) + (ru(conf.max(ema_conf) as u128) * &sc + ri(3)) * ulp() + (ru(price.unsigned_abs().max(ema.unsigned_abs()) as u128) * &sc * &abs(&mul) + one()) * ulp() * ri(2) + extra_e
            + (ru(price.unsigned_abs().max(ema.unsigned_abs()) as u128) + if scale_conf { ru(conf.max(ema_conf) as u128) * &k } else { zero() }) * &sc * rate_err
            + if scale_conf { &sc * &k } else { zero() },
        fixed: false,
    })
}

fn swb_px(o: &OracleIn, cfg_key: &Pubkey, now: i64, max_age: u64, max_conf: &Rat) -> Result<RefPx, PxErr> {
    swb_px_x(o, cfg_key, now, max_age, max_conf, None, &zero(), None)
}

fn swb_decode(data: &[u8]) -> Option<(i64, i128, i128)> {
    use switchboard_on_demand::PullFeedAccountData;
    let n = std::mem::size_of::<PullFeedAccountData>();
    if data.len() < 8 + n || data[..8] != <PullFeedAccountData as switchboard_on_demand::Discriminator>::DISCRIMINATOR {
        return None;
    }
    let o_ts = 8 + std::mem::offset_of!(PullFeedAccountData, last_update_timestamp);
    let o_res = 8 + std::mem::offset_of!(PullFeedAccountData, result);
    let ts = i64::from_le_bytes(data[o_ts..o_ts + 8].try_into().unwrap());
    let value = i128::from_le_bytes(data[o_res..o_res + 16].try_into().unwrap());
    let std_dev = i128::from_le_bytes(data[o_res + 16..o_res + 32].try_into().unwrap());
    Some((ts, value, std_dev))
}

/// `scale`: exact exchange rate (num, den) the value and the deviation are multiplied by (venue
/// banks); `rate_err`: absolute error bound of the rate the program computes; `int_ratio`: when
/// given, the program's integer adjustment `raw * num / den` (Drift) whose fail-closed boundaries
/// are checked by the caller.
#[allow(clippy::too_many_arguments)]
fn swb_px_x(o: &OracleIn, cfg_key: &Pubkey, now: i64, max_age: u64, max_conf: &Rat, scale: Option<(&Rat, &Rat)>, rate_err: &Rat, _int_ratio: Option<()>) -> Result<RefPx, PxErr> {
    if &o.key != cfg_key {
        return Err(PxErr::WrongKey);
    }
    if o.owner != SWB_OWNER {
        return Err(PxErr::WrongOwner);
    }
    let (ts, value, std_dev) = swb_decode(o.data).ok_or(PxErr::BadData)?;
    if (now as i128) - (ts as i128) > max_age as i128 {
        return Err(PxErr::Stale);
    }
    let sc = one() / pow10(18);
    let mul = match scale {
        Some((n, d)) => n / d,
        None => one(),
    };
    let p = ri(value) * &sc * &mul;
    let kc = ri(std_dev) * &sc * rq(196, 100) * &mul;
    let mut e = ulp() * ri(8) + abs(&(ri(std_dev) * &sc * &mul)) * ulp() + (abs(&p) + one()) * ulp() * ri(2);
    if scale.is_some() {
        // rate error on value and deviation, plus one 1e-18 step of integer truncation each
        e += (abs(&(ri(value) * &sc)) + abs(&(ri(std_dev) * &sc)) * rq(196, 100)) * rate_err + &sc * ri(4);
    }
    Ok(RefPx { spot: p.clone(), spot_kc: kc.clone(), ema: p, ema_kc: kc, max_conf: max_conf.clone(), e, fixed: false })
}

/// Price of a reserve-backed venue bank (Kamino / Solend): the Pyth price times the exact
/// liquidity-per-collateral rate `liq / col`, with the error of the program's fixed-point rate and
/// its fail-closed integer boundaries.
#[allow(clippy::too_many_arguments)]
fn venue_px(o: &OracleIn, cfg: &BankConfig, now: i64, max_age: u64, max_conf: &Rat, liq: Rat, col: u64, dec: u64, liq_bits: num_bigint::BigInt, swb: bool) -> Result<RefPx, PxErr> {
    use num_bigint::BigInt;
    if dec > 23 {
        return Err(PxErr::Unsupported);
    }
    let scale = pow10(dec as u32);
    let colr = ru(col as u128);
    // the program divides both supplies by 10^decimals on the 2^-48 grid before taking the
    // ratio; a collateral supply below one grid step means "no adjustment"
    let (l, c) = (&liq / &scale, &colr / &scale);
    if c < ulp() {
        return if swb { swb_px(o, &cfg.oracle_keys[0], now, max_age, max_conf) } else { pyth_px(o, &cfg.oracle_keys[0], now, max_age, max_conf, None) };
    }
    if liq.is_negative() {
        return Err(PxErr::NegativeOrZeroSupply);
    }
    // fail-closed boundary: the adjusted integer price / confidence fields must fit their integer
    // types (i64 / u64); where exactly that happens is implementation defined, so the grid
    // arithmetic is reproduced with big integers for this decision only
    {
        let p10 = BigInt::from(10u8).pow(dec as u32);
        let lp = &liq_bits / &p10;
        let cp = (BigInt::from(col) << 48usize) / &p10;
        if cp > BigInt::from(0) {
            let ratio_bits: BigInt = (lp << 48usize) / cp;
            if swb {
                // adjust_i128: the raw 1e18-scaled value must fit 79 integer bits, and so must the product
                if let Some((_, value, std_dev)) = swb_decode(o.data) {
                    let lim = BigInt::from(1) << 79usize;
                    for raw in [value, std_dev] {
                        let r = BigInt::from(raw);
                        if r >= lim || r < -lim.clone() {
                            return Err(PxErr::Unsupported);
                        }
                        let prod: BigInt = (r * &ratio_bits) >> 48usize;
                        if prod >= lim || prod < -lim.clone() {
                            return Err(PxErr::Unsupported);
                        }
                    }
                }
            } else if let Some((_, price, conf, _, _, ema, ema_conf)) = pyth_decode(o.data) {
                let fits = |raw: BigInt, lim_bits: u32| -> bool {
                    let prod: BigInt = (raw * &ratio_bits) >> 48usize;
                    prod < (BigInt::from(1) << lim_bits as usize) && prod < (BigInt::from(1) << 79usize)
                };
                if price < 0 || ema < 0 {
                    return Err(PxErr::Unsupported);
                }
                if !fits(BigInt::from(price), 63) || !fits(BigInt::from(ema), 63) || !fits(BigInt::from(conf), 64) || !fits(BigInt::from(ema_conf), 64) {
                    return Err(PxErr::Unsupported);
                }
            }
        }
    }
    // |rate_prog - l/c| <= max(l*u/(c*(c-u)), u/c)*5 + 2u  (truncated inputs, one division)
    let u = ulp();
    let rate_err = if c > &u * ri(2) { rmax(&(&l * &u * ri(5) / (&c * (&c - &u))), &(&u * ri(5) / &c)) + &u * ri(2) } else { &l / &c + one() };
    if swb {
        return swb_px_x(o, &cfg.oracle_keys[0], now, max_age, max_conf, Some((&liq, &colr)), &rate_err, None);
    }
    pyth_px_x(o, &cfg.oracle_keys[0], now, max_age, max_conf, Some((&liq, &colr)), true, &rate_err)
}

/// Reference price of a bank from the oracle accounts presented with it.
pub fn ref_price(b: &Bank, ors: &[OracleIn], now: i64) -> Result<RefPx, PxErr> {
    let cfg = &b.config;
    let max_conf = if cfg.oracle_max_confidence == 0 { ru(429_496_730) / u32max() } else { ru(cfg.oracle_max_confidence as u128) / u32max() };
    let max_age = |pyth_plain: bool| -> u64 {
        if cfg.oracle_max_age == 0 && pyth_plain {
            60
        } else {
            cfg.oracle_max_age as u64
        }
    };
    match cfg.oracle_setup {
        OracleSetup::None => Err(PxErr::NotSetup),
        OracleSetup::PythPushOracle => {
            if ors.len() != 1 {
                return Err(PxErr::WrongCount);
            }
            pyth_px(&ors[0], &cfg.oracle_keys[0], now, max_age(true), &max_conf, None)
        }
        OracleSetup::SwitchboardPull => {
            if ors.len() != 1 {
                return Err(PxErr::WrongCount);
            }
            swb_px(&ors[0], &cfg.oracle_keys[0], now, max_age(false), &max_conf)
        }
        OracleSetup::Fixed => {
            if !ors.is_empty() {
                return Err(PxErr::WrongCount);
            }
            let p = w(&cfg.fixed_price);
            if p.is_negative() {
                return Err(PxErr::NegativeOrZeroSupply);
            }
            Ok(RefPx { spot: p.clone(), spot_kc: zero(), ema: p, ema_kc: zero(), max_conf, e: zero(), fixed: true })
        }
        OracleSetup::StakedWithPythPush => {
            if ors.len() != 3 {
                return Err(PxErr::WrongCount);
            }
            if ors[1].key != cfg.oracle_keys[1] || ors[2].key != cfg.oracle_keys[2] {
                return Err(PxErr::WrongKey);
            }
            if ors[1].owner != SPL_TOKEN || ors[1].data.len() < 82 {
                return Err(PxErr::BadData);
            }
            let supply = u64::from_le_bytes(ors[1].data[36..44].try_into().unwrap());
            if supply == 0 {
                return Err(PxErr::NegativeOrZeroSupply);
            }
            // StakeStateV2::Stake: u32 tag(=2), Meta(120 bytes), Stake{ delegation{ voter(32), stake u64 ..
            if ors[2].data.len() < 4 + 120 + 40 || u32::from_le_bytes(ors[2].data[0..4].try_into().unwrap()) != 2 {
                return Err(PxErr::BadData);
            }
            let stake = u64::from_le_bytes(ors[2].data[4 + 120 + 32..4 + 120 + 40].try_into().unwrap());
            if stake < 1_000_000_000 {
                return Err(PxErr::NegativeOrZeroSupply);
            }
            let num = ru((stake - 1_000_000_000) as u128);
            let den = ru(supply as u128);
            let mut px = pyth_px(&ors[0], &cfg.oracle_keys[0], now, max_age(false), &max_conf, Some((&num, &den)))?;
            // confidence is NOT scaled by the program for staked banks (only price fields are)
            let _ = &mut px;
            Ok(px)
        }
        OracleSetup::KaminoPythPush | OracleSetup::KaminoSwitchboardPull => {
            let swb = cfg.oracle_setup == OracleSetup::KaminoSwitchboardPull;
            use kamino_mocks::state::MinimalReserve as R;
            if ors.len() != 2 {
                return Err(PxErr::WrongCount);
            }
            if ors[1].key != cfg.oracle_keys[1] {
                return Err(PxErr::WrongKey);
            }
            let n = std::mem::size_of::<R>();
            let d = ors[1].data;
            if ors[1].owner != KAMINO || d.len() < 8 + n || d[..8] != kamino_mocks::state::RESERVE_DISCRIMINATOR {
                return Err(PxErr::BadData);
            }
            let u64_at = |o: usize| u64::from_le_bytes(d[8 + o..8 + o + 8].try_into().unwrap());
            let u128_at = |o: usize| u128::from_le_bytes(d[8 + o..8 + o + 16].try_into().unwrap());
            // a reserve that was not refreshed in the current slot is stale
            if u64_at(std::mem::offset_of!(R, slot)) < REF_SLOT.load(std::sync::atomic::Ordering::Relaxed) {
                return Err(PxErr::Stale);
            }
            let sf = |o: usize| Rat::new(num_bigint::BigInt::from(u128_at(o)), num_bigint::BigInt::from(1u128 << 60));
            let liq = ru(u64_at(std::mem::offset_of!(R, available_amount)) as u128) + sf(std::mem::offset_of!(R, borrowed_amount_sf))
                - sf(std::mem::offset_of!(R, accumulated_protocol_fees_sf))
                - sf(std::mem::offset_of!(R, accumulated_referrer_fees_sf))
                - sf(std::mem::offset_of!(R, pending_referrer_fees_sf));
            let col = u64_at(std::mem::offset_of!(R, mint_total_supply));
            let dec = u64_at(std::mem::offset_of!(R, mint_decimals));
            use num_bigint::BigInt;
            let sfb = |o: usize| BigInt::from(u128_at(o) >> 12);
            let liq_bits = (BigInt::from(u64_at(std::mem::offset_of!(R, available_amount))) << 48usize) + sfb(std::mem::offset_of!(R, borrowed_amount_sf))
                - sfb(std::mem::offset_of!(R, accumulated_protocol_fees_sf))
                - sfb(std::mem::offset_of!(R, accumulated_referrer_fees_sf))
                - sfb(std::mem::offset_of!(R, pending_referrer_fees_sf));
            venue_px(&ors[0], cfg, now, max_age(false), &max_conf, liq, col, dec, liq_bits, swb)
        }
        OracleSetup::SolendPythPull | OracleSetup::SolendSwitchboardPull => {
            let swb = cfg.oracle_setup == OracleSetup::SolendSwitchboardPull;
            use solend_mocks::state::SolendMinimalReserve as R;
            if ors.len() != 2 {
                return Err(PxErr::WrongCount);
            }
            if ors[1].key != cfg.oracle_keys[1] {
                return Err(PxErr::WrongKey);
            }
            let n = std::mem::size_of::<R>();
            let d = ors[1].data;
            if ors[1].owner != SOLEND || d.len() < 1 + n || d[0] != 1 {
                return Err(PxErr::BadData);
            }
            let u64_at = |o: usize| u64::from_le_bytes(d[1 + o..1 + o + 8].try_into().unwrap());
            let u128_at = |o: usize| u128::from_le_bytes(d[1 + o..1 + o + 16].try_into().unwrap());
            if u64_at(std::mem::offset_of!(R, last_update_slot)) < REF_SLOT.load(std::sync::atomic::Ordering::Relaxed) {
                return Err(PxErr::Stale);
            }
            use num_bigint::BigInt;
            const WAD: u128 = 1_000_000_000_000_000_000;
            let wad = |o: usize| Rat::new(BigInt::from(u128_at(o)), BigInt::from(WAD));
            let liq = ru(u64_at(std::mem::offset_of!(R, liquidity_available_amount)) as u128) + wad(std::mem::offset_of!(R, liquidity_borrowed_amount_wads)) - wad(std::mem::offset_of!(R, liquidity_accumulated_protocol_fees_wads));
            let col = u64_at(std::mem::offset_of!(R, collateral_mint_total_supply));
            let dec = d[1 + std::mem::offset_of!(R, liquidity_mint_decimals)] as u64;
            // WAD decimal -> 2^-48 grid the way the program converts it (integer part, truncated fraction)
            let d2b = |o: usize| -> BigInt {
                let raw = u128_at(o);
                (BigInt::from(raw / WAD) << 48usize) + BigInt::from(((raw % WAD) << 48) / WAD)
            };
            let liq_bits = (BigInt::from(u64_at(std::mem::offset_of!(R, liquidity_available_amount))) << 48usize) + d2b(std::mem::offset_of!(R, liquidity_borrowed_amount_wads)) - d2b(std::mem::offset_of!(R, liquidity_accumulated_protocol_fees_wads));
            venue_px(&ors[0], cfg, now, max_age(false), &max_conf, liq, col, dec, liq_bits, swb)
        }
        OracleSetup::DriftPythPull | OracleSetup::DriftSwitchboardPull => {
            let swb = cfg.oracle_setup == OracleSetup::DriftSwitchboardPull;
            use drift_mocks::state::MinimalSpotMarket as M;
            if ors.len() != 2 {
                return Err(PxErr::WrongCount);
            }
            if ors[1].key != cfg.oracle_keys[1] {
                return Err(PxErr::WrongKey);
            }
            let n = std::mem::size_of::<M>();
            let d = ors[1].data;
            if ors[1].owner != DRIFT || d.len() < 8 + n || d[..8] != drift_mocks::state::SPOT_MARKET_DISCRIMINATOR {
                return Err(PxErr::BadData);
            }
            let ts = u64::from_le_bytes(d[8 + std::mem::offset_of!(M, last_interest_ts)..8 + std::mem::offset_of!(M, last_interest_ts) + 8].try_into().unwrap());
            // interest not brought up to date in the current second: stale
            if (ts as i128) < now as i128 {
                return Err(PxErr::Stale);
            }
            let o = std::mem::offset_of!(M, cumulative_deposit_interest);
            let cum = u128::from_le_bytes(d[8 + o..8 + o + 16].try_into().unwrap());
            let num = ru(cum);
            let den = ru(10_000_000_000);
            if swb {
                // adjust_i128: raw * cum / 1e10 in u128 (negative or overflowing values fail closed)
                if let Some((_, value, std_dev)) = swb_decode(ors[0].data) {
                    use num_bigint::BigInt;
                    for raw in [value, std_dev] {
                        if raw < 0 {
                            return Err(PxErr::Unsupported);
                        }
                        let prod = BigInt::from(raw) * BigInt::from(cum);
                        if prod >= (BigInt::from(1) << 128usize) || prod / BigInt::from(10_000_000_000u64) >= (BigInt::from(1) << 127usize) {
                            return Err(PxErr::Unsupported);
                        }
                    }
                }
                return swb_px_x(&ors[0], &cfg.oracle_keys[0], now, max_age(false), &max_conf, Some((&num, &den)), &zero(), None);
            }
            // fail-closed boundaries of the integer adjustment (raw * cum / 1e10 in u128, back to i64 / u64)
            if let Some((_, price, conf, _, _, ema, ema_conf)) = pyth_decode(ors[0].data) {
                use num_bigint::BigInt;
                if price < 0 || ema < 0 {
                    return Err(PxErr::Unsupported);
                }
                let fits = |raw: u128, lim_bits: usize| -> bool {
                    let prod = BigInt::from(raw) * BigInt::from(cum);
                    prod < (BigInt::from(1) << 128usize) && prod / BigInt::from(10_000_000_000u64) < (BigInt::from(1) << lim_bits)
                };
                if !fits(price as u128, 63) || !fits(ema as u128, 63) || !fits(conf as u128, 64) || !fits(ema_conf as u128, 64) {
                    return Err(PxErr::Unsupported);
                }
            }
            // integer truncation of each adjusted field only (the rate itself is exact)
            pyth_px_x(&ors[0], &cfg.oracle_keys[0], now, max_age(false), &max_conf, Some((&num, &den)), true, &zero())
        }
        _ => Err(PxErr::Unsupported),
    }
}

// ------------------------------------------------------------------ health
pub struct PosIn<'a> {
    pub bank_key: Pubkey,
    pub bank: Bank,
    pub balance: Balance,
    pub oracles: Vec<OracleIn<'a>>,
}

#[derive(Debug, Clone)]
pub struct RefHealth {
    pub assets: Iv,
    pub liabs: Iv,
    /// some price validity / cap decision sat inside its rounding band
    pub borderline: bool,
    /// a liability (or, for maintenance/equity, any non-isolated asset) had no usable price:
    /// the program must fail the evaluation
    pub must_error: Option<PxErr>,
    pub n_assets: usize,
    pub n_liabs: usize,
    pub emode_entries_used: usize,
    pub bad_collateral_oracles: usize,
    pub cap_active: usize,
}
impl RefHealth {
    pub fn health(&self) -> Iv {
        self.assets.sub(&self.liabs)
    }
}

fn side_of(b: &Balance) -> Option<bool> {
    // Some(true)=liability, Some(false)=asset (positions below one native share count as empty)
    if w(&b.liability_shares) >= one() {
        Some(true)
    } else if w(&b.asset_shares) >= one() {
        Some(false)
    } else {
        None
    }
}

/// intersection of the e-mode configs of all banks the account owes to: tag -> (min init, min maint)
pub fn emode_intersection(pos: &[PosIn]) -> std::collections::BTreeMap<u16, (Rat, Rat)> {
    let mut acc: Option<std::collections::BTreeMap<u16, (Rat, Rat)>> = None;
    for p in pos {
        if w(&p.balance.liability_shares) < one() {
            continue;
        }
        let mut m = std::collections::BTreeMap::new();
        for e in p.bank.emode.emode_config.entries.iter() {
            if e.collateral_bank_emode_tag == 0 {
                continue;
            }
            let (i, mt) = (w(&e.asset_weight_init), w(&e.asset_weight_maint));
            m.entry(e.collateral_bank_emode_tag)
                .and_modify(|x: &mut (Rat, Rat)| {
                    x.0 = rmin(&x.0, &i);
                    x.1 = rmin(&x.1, &mt);
                })
                .or_insert((i, mt));
        }
        acc = Some(match acc {
            None => m,
            Some(a) => {
                let mut r = std::collections::BTreeMap::new();
                for (t, (i, mt)) in a {
                    if let Some((i2, m2)) = m.get(&t) {
                        r.insert(t, (rmin(&i, i2), rmin(&mt, m2)));
                    }
                }
                r
            }
        });
    }
    acc.unwrap_or_default()
}

pub fn ref_health(pos: &[PosIn], req: Req, now: i64) -> RefHealth {
    let emode = emode_intersection(pos);
    let mut h = RefHealth { assets: Iv::exact(zero()), liabs: Iv::exact(zero()), borderline: false, must_error: None, n_assets: 0, n_liabs: 0, emode_entries_used: 0, bad_collateral_oracles: 0, cap_active: 0 };
    let ema = req != Req::Maint;
    for p in pos {
        let side = match side_of(&p.balance) {
            None => continue,
            Some(s) => s,
        };
        let b = &p.bank;
        let q = BankQ::of(b);
        let dec = crate::state::balance_decimals(b);
        let scale = pow10(dec);
        let price = ref_price(b, &p.oracles, now);
        if side {
            h.n_liabs += 1;
            let px = match price {
                Ok(px) => px,
                Err(e) => {
                    h.must_error.get_or_insert(e);
                    continue;
                }
            };
            match px.conf_ok(ema) {
                Tri::No => {
                    h.must_error.get_or_insert(PxErr::Confidence);
                    continue;
                }
                Tri::Border => h.borderline = true,
                Tri::Yes => {}
            }
            let wl = match req {
                Req::Initial => w(&b.config.liability_weight_init),
                Req::Maint => w(&b.config.liability_weight_maint),
                Req::Equity => one(),
            };
            let amt = Iv::exact(w(&p.balance.liability_shares)).mul(&Iv::exact(q.lsv.clone()));
            let v = amt.mul(&Iv::exact(wl)).mul(&px.high(ema)).div(&Iv::exact(scale));
            h.liabs = h.liabs.add(&v);
        } else {
            h.n_assets += 1;
            if b.config.risk_tier == RiskTier::Isolated && req != Req::Equity {
                continue; // isolated-tier deposits are worth nothing as collateral (but are assets)
            }
            if req == Req::Initial && b.config.operational_state == BankOperationalState::ReduceOnly {
                continue;
            }
            let px = match price {
                Ok(px) => px,
                Err(e) => {
                    if req == Req::Initial {
                        h.bad_collateral_oracles += 1;
                    } else {
                        h.must_error.get_or_insert(e);
                    }
                    continue;
                }
            };
            match px.conf_ok(ema) {
                Tri::No => {
                    // confidence is evaluated when the price is used: an error at that point fails
                    // the whole evaluation for every requirement type
                    h.must_error.get_or_insert(PxErr::Confidence);
                    continue;
                }
                Tri::Border => h.borderline = true,
                Tri::Yes => {}
            }
            let wb = match req {
                Req::Initial => w(&b.config.asset_weight_init),
                Req::Maint => w(&b.config.asset_weight_maint),
                Req::Equity => one(),
            };
            let mut wt = wb.clone();
            if b.emode.emode_tag != 0 {
                if let Some((ei, em)) = emode.get(&b.emode.emode_tag) {
                    let ew = match req {
                        Req::Initial => ei.clone(),
                        Req::Maint => em.clone(),
                        Req::Equity => one(),
                    };
                    if ew > wb {
                        h.emode_entries_used += 1;
                    }
                    wt = rmax(&wb, &ew);
                }
            }
            let low = px.low(ema);
            let mut wiv = Iv::exact(wt);
            if req == Req::Initial && b.config.total_asset_value_init_limit != 0 {
                let cap = ru(b.config.total_asset_value_init_limit as u128);
                let tot = Iv::exact(q.d.clone()).mul(&low).div(&Iv::exact(scale.clone()));
                if tot.v > cap {
                    h.cap_active += 1;
                    let disc = Iv::exact(cap.clone()).div(&tot);
                    wiv = wiv.mul(&disc);
                }
                if abs(&(&tot.v - &cap)) <= tot.e {
                    h.borderline = true;
                }
            }
            let amt = Iv::exact(w(&p.balance.asset_shares)).mul(&Iv::exact(q.asv.clone()));
            let v = amt.mul(&wiv).mul(&low).div(&Iv::exact(scale));
            h.assets = h.assets.add(&v);
        }
    }
    h
}

/// number of distinct banks with a non-empty liability and how many of them are isolated tier
pub fn liability_tiers(pos: &[PosIn]) -> (usize, usize) {
    let mut n = 0;
    let mut iso = 0;
    for p in pos {
        if w(&p.balance.liability_shares) >= one() {
            n += 1;
            if p.bank.config.risk_tier == RiskTier::Isolated {
                iso += 1;
            }
        }
    }
    (n, iso)
}
