#!/bin/bash
# seeded_queue.sh <id>...  - run each seeded change through the checks of the properties it breaks
for s in "$@"; do
  CHECK_ROOT=${CHECK_ROOT:-/tmp/vsnap} REPO_ROOT=${REPO_ROOT:-/tmp/rsnap} python3 /verif/selftest/run_seeded.py $s
done
echo QUEUE-DONE
