#!/usr/bin/env python3
"""Apply a seeded change to /repo, run the checks of the properties it is meant to break (quick
tier), undo the change, and record which checks raised a VIOLATION.  Not a registered check.
usage: run_seeded.py <seeded-id> [prop ...]   (props default to meta.json 'breaks')"""
import json, os, subprocess, sys, time
ROOT = os.path.dirname(os.path.dirname(os.path.abspath(__file__)))
# checks may be run from a frozen copy of /verif (selftest/snap.sh) so that work in progress in
# /verif/harness does not interfere; results are always recorded in /verif/selftest/results.json
CHECK_ROOT = os.environ.get("CHECK_ROOT", ROOT)
# ... and against a scratch worktree of /repo (REPO_ROOT) the snapshot's path dependencies point to
REPO = os.environ.get("REPO_ROOT", "/repo")
sid = sys.argv[1]
d = os.path.join(ROOT, "seeded", sid)
meta = json.load(open(os.path.join(d, "meta.json")))
props = sys.argv[2:] or meta["breaks"]
assert subprocess.run(["git", "-C", REPO, "status", "--porcelain", "--untracked-files=no"], capture_output=True, text=True).stdout.strip() == "", "repo tree not clean"
subprocess.run(["git", "-C", REPO, "apply", os.path.join(d, "patch.diff")], check=True)
res = {}
try:
    for p in props:
        t0 = time.time()
        r = subprocess.run([os.path.join(CHECK_ROOT, "check"), p, "--tier", os.environ.get("SEEDED_TIER", "quick")], capture_output=True, text=True, cwd=CHECK_ROOT)
        sigs = [l.strip()[len("signature: "):] for l in r.stdout.splitlines() if l.strip().startswith("signature:")]
        res[p] = {"exit": r.returncode, "signatures": sigs, "wall_s": round(time.time() - t0, 1), "tail": r.stdout.strip().splitlines()[-1:] }
        print(sid, p, "exit", r.returncode, sigs[:4], flush=True)
finally:
    subprocess.run(["git", "-C", REPO, "checkout", "--", "."], check=True)
out = os.path.join(ROOT, "selftest", "results.json")
allr = json.load(open(out)) if os.path.exists(out) else {}
allr.setdefault(sid, {}).update(res)
json.dump(allr, open(out, "w"), indent=1, sort_keys=True)
