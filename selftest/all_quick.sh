#!/bin/bash
# all_quick.sh <seed> [tier]  - run every registered check once and print one verdict line each
seed=${1:-1}; tier=${2:-quick}
cd "$(dirname "$0")/.."
for p in C01 C02 C03 C04 C05 C06 C07 C08 C09 C10 C11 C12 C13 C14 C15 C16 C17 C18 C19 C20; do
  s=$(date +%s)
  out=$(VERIF_SEED=$seed ./check $p --tier $tier 2>&1 | grep -E "^(HELD|VIOLATION|INCONCLUSIVE|KNOWN-FINDING|  signature|  detail)" | head -8)
  e=$(date +%s)
  echo "seed=$seed $p $((e-s))s: $out"
done
