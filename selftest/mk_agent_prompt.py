#!/usr/bin/env python3
"""mk_agent_prompt.py <PROP> <wid>  - fill selftest/agent_prompt.md for one property; creates the
scratch worktree /tmp/mut/<wid>/wt and prints the prompt (nothing from /verif's checks goes in)."""
import json, glob, os, subprocess, sys
pid, wid = sys.argv[1:3]
base = f"/tmp/mut/{wid}"
os.makedirs(base + "/out", exist_ok=True)
if not os.path.exists(base + "/wt"):
    subprocess.run(["git", "-C", "/repo", "worktree", "add", "-q", "--detach", base + "/wt", "HEAD"], check=True)
p = {json.loads(l)["id"]: json.loads(l) for l in open("/verif/properties.jsonl")}[pid]
titles = []
for d in sorted(glob.glob(f"/verif/seeded/{pid}-m*")):
    titles.append("- " + open(d + "/README.md").readline().strip().lstrip("# ")[:200])
t = open("/verif/selftest/agent_prompt.md").read().split("\n", 2)[2]
out = (t.replace("{WT}", base + "/wt").replace("{OUT}", base + "/out").replace("{TGT}", base + "/target")
        .replace("{ID}", pid).replace("{TITLE}", p["title"]).replace("{STATEMENT}", p["statement"])
        .replace("{QUANT}", p["quantifier"]["text"]).replace("{FILES}", ", ".join(p["anchors"]["files"]))
        .replace("{TITLES}", "\n".join(titles)))
print(out)
