#!/bin/bash
# Independent confirmation of a candidate seeded change (not a registered check):
#   verify_seeded.sh <dir-with-patch.diff+demo.diff> <cargo-test-filter>
# 1. demo alone on a clean worktree must PASS, 2. with the mutation the demo must FAIL,
# 3. with the mutation (without the demo) the existing offline suite must still pass.
set -u
SRC=$1; FILTER=$2; NAME=$(echo "$SRC" | tr '/' '_')
WT=/tmp/ver/wt_$NAME
export CARGO_NET_OFFLINE=true CARGO_TARGET_DIR=/tmp/ver/target${VER_LANE:-}
git -C /repo worktree remove --force $WT 2>/dev/null
git -C /repo worktree add -q --detach $WT HEAD || exit 9
cd $WT
git apply $SRC/demo.diff || { echo "RESULT demo.diff does not apply"; exit 9; }
cargo test -p marginfi --lib "$FILTER" --offline 2>&1 | grep -E "^test |^test result" > /tmp/ver/$NAME.demo_clean.txt
git apply $SRC/patch.diff || { echo "RESULT patch.diff does not apply"; exit 9; }
cargo test -p marginfi --lib "$FILTER" --offline 2>&1 | grep -E "^test |^test result|error(\[|:)" > /tmp/ver/$NAME.demo_mut.txt
git apply -R $SRC/demo.diff
cargo test --workspace --lib --no-fail-fast --offline 2>&1 | grep -E "^test result|error(\[|:)" > /tmp/ver/$NAME.suite_mut.txt
echo "== demo on clean tree:"; grep "test result" /tmp/ver/$NAME.demo_clean.txt
echo "== demo with mutation:"; grep -E "FAILED|test result" /tmp/ver/$NAME.demo_mut.txt | head -8
echo "== suite with mutation:"; head -8 /tmp/ver/$NAME.suite_mut.txt
cd /; git -C /repo worktree remove --force $WT
