#!/usr/bin/env python3
"""import_round.py <worktree-id> <PROP> <new-id-prefix>  - import both candidates of a sub-agent
(/tmp/mut/<worktree-id>/out/m1,m2) as seeded/<prefix>-m3, -m4 ... (unverified); the cargo test
filter is taken from the test function names the demo adds."""
import json, os, re, shutil, sys
wid, prop, prefix = sys.argv[1:4]
start = int(sys.argv[4]) if len(sys.argv) > 4 else 3
for k in (1, 2):
    src = f"/tmp/mut/{wid}/out/m{k}"
    if not os.path.exists(os.path.join(src, "patch.diff")):
        print("missing", src); continue
    sid = f"{prefix}-m{start + k - 1}"
    dst = f"/verif/seeded/{sid}"
    os.makedirs(dst, exist_ok=True)
    for f in ("patch.diff", "demo.diff", "README.md"):
        shutil.copy(os.path.join(src, f), os.path.join(dst, f))
    demo = open(os.path.join(dst, "demo.diff")).read()
    fns = re.findall(r"^\+\s*(?:pub\s+)?fn\s+(\w+)\s*\(", demo, re.M)
    tests = []
    lines = demo.splitlines()
    for i, l in enumerate(lines):
        if re.match(r"^\+\s*#\[test\]", l):
            for j in range(i + 1, min(i + 4, len(lines))):
                m = re.match(r"^\+\s*(?:pub\s+)?fn\s+(\w+)", lines[j])
                if m:
                    tests.append(m.group(1)); break
    # longest common prefix of the test names (at least 6 chars), else the first name
    filt = tests[0] if tests else (fns[0] if fns else "")
    if len(tests) > 1:
        p = os.path.commonprefix(tests)
        if len(p) >= 6:
            filt = p
    title = open(os.path.join(dst, "README.md")).readline().strip().lstrip("# ")
    json.dump({"id": sid, "breaks": [prop], "origin": "independent sub-agent (round %s) given only the text of the property, the titles of earlier changes to avoid, and its own scratch worktree" % {3: "three", 5: "four", 7: "five", 9: "six", 11: "seven", 13: "eight"}.get(start, str(start)), "needs": "see README.md", "demo": "demo.diff adds #[cfg(test)] unit tests (filter: %s; tests: %s) that pass on the unchanged tree and fail with patch.diff" % (filt, ", ".join(tests)), "demo_filter": filt, "confirmed": None, "checks_run": {}}, open(os.path.join(dst, "meta.json"), "w"), indent=1)
    print("imported", sid, "|", title[:100], "| filter", filt)
