#!/bin/bash
# verify_queue.sh <seeded-id>...  - confirm each candidate independently, one after the other
for s in "$@"; do
  if [ -f /tmp/ver/$s.log ] && grep -q "suite with mutation" /tmp/ver/$s.log; then continue; fi
  f=$(python3 -c "import json;print(json.load(open('/verif/seeded/$s/meta.json'))['demo_filter'])")
  /verif/selftest/verify_seeded.sh /verif/seeded/$s "$f" > /tmp/ver/$s.log 2>&1
done
echo ALLDONE > /tmp/ver/queue.done
