#!/usr/bin/env python3
"""confirm_meta.py - fold the outcome of selftest/verify_seeded.sh (/tmp/ver/*.txt) and of
selftest/run_seeded.py (selftest/results.json) into each seeded/<id>/meta.json"""
import json, os, re, glob
R = "/verif"
res = json.load(open(f"{R}/selftest/results.json")) if os.path.exists(f"{R}/selftest/results.json") else {}
for d in sorted(glob.glob(f"{R}/seeded/*")):
    sid = os.path.basename(d)
    mp = os.path.join(d, "meta.json")
    if not os.path.exists(mp):
        continue
    meta = json.load(open(mp))
    name = ("_verif_seeded_" + sid)
    f = lambda suf: f"/tmp/ver/{name}.{suf}.txt"
    m = re.match(r"(C\d+)-m(\d)$", sid)
    if m and not os.path.exists(f("suite_mut")):
        alt = f"_tmp_mut_{m.group(1)}_out_m{m.group(2)}"
        if os.path.exists(f"/tmp/ver/{alt}.suite_mut.txt"):
            name = alt
    if os.path.exists(f("suite_mut")):
        clean = open(f("demo_clean")).read()
        mut = open(f("demo_mut")).read()
        suite = open(f("suite_mut")).read()
        c_ok = bool(re.search(r"test result: ok\. [1-9]\d* passed; 0 failed", clean))
        m_fail = bool(re.search(r"test result: FAILED\. \d+ passed; [1-9]\d* failed", mut)) and not re.search(r"error\[|error: could not compile", mut)
        lib_ok = bool(re.search(r"test result: ok\. 164 passed; 0 failed", suite))
        integ = re.search(r"test result: FAILED\. (\d+) passed; (\d+) failed", suite)
        small_ok = len(re.findall(r"test result: ok\. [01] passed; 0 failed", suite)) >= 3
        meta["confirmed"] = {"demo_passes_on_unchanged_tree": c_ok, "demo_fails_with_change": m_fail, "suite_with_change": {"marginfi_lib_164_pass": lib_ok, "small_crates_ok": small_ok, "integration_binary_passed_failed": [int(integ.group(1)), int(integ.group(2))] if integ else None, "note": "integration binary needs absent BPF artefacts: 2 pass / 309 fail on the unchanged tree too"}, "by": "selftest/verify_seeded.sh in a scratch worktree"}
    if sid in res:
        meta["checks_run"] = {p: {"exit": r["exit"], "signatures": r["signatures"][:6]} for p, r in res[sid].items()}
    json.dump(meta, open(mp, "w"), indent=1)
    c = meta.get("confirmed")
    ok = c and c["demo_passes_on_unchanged_tree"] and c["demo_fails_with_change"] and c["suite_with_change"]["marginfi_lib_164_pass"]
    print(sid, "confirmed" if ok else ("unconfirmed" if c is None else "PROBLEM " + json.dumps(c)), {p: r["exit"] for p, r in meta.get("checks_run", {}).items()})
