#!/usr/bin/env python3
"""design_tables.py - print the tables of DESIGN section 13 from seeded/*/meta.json (+ README titles)"""
import json, os, glob, re
R = "/verif/seeded"
STRENGTHENED = {
    "C04-m1": "missed at first; C04 worlds now configure e-mode on every world and the `portfolio` probe borrows against several collaterals",
    "C04-m2": "missed at first; C04 worlds now have two isolated-tier banks and probe a second debt next to an isolated one",
    "C08-m1": "missed at first; receivership exemption of the attribution monitor now requires the bracket to start in the same transaction, and a committed double-start shape with a stranger's follow-up was added",
    "C08-m2": "missed at first; frozen-account cells generalised to every identity x deposit / withdraw / borrow / repay",
    "C10-m1": "missed at first; shape alphabet got padded second-account start symbols and directed two-account shapes",
    "C11-m1": "missed at first; exhaustive shape enumeration with virtual commit of simulations",
    "C11-m2": "missed at first; same (lone end / end-first shapes)",
    "C14-m1": "missed at first; propagation-fidelity monitor and the pause window taken from the fee state at propagation time, extension-before-propagate order",
    "C14-m2": "missed at first; e-mode is configured before the reduce-only valuation cell",
    "C16-m1": "missed at first (one integration kind only); caught once the Solend / Drift stand-ins gave the worlds several integration kinds",
    "C19-m1": "missed at first (only an upper bound on credits); proportional lower bound added",
    "cat-asset-bias-high": "C04 caught it at once; C09 only after the bias-attribution step (acceptance explainable only without conservative bias)",
    "cat-deposit-bank-group-unchecked": "missed by single substitutions (the vault mismatch still refuses); caught by the coherent foreign-bank cells",
    "revert-F8": "C07 / C14 missed at first; killed-forever monitor added",
    "V1-m1": "caught by the direct rig after all three reserve fee buckets were randomised (only protocol fees were before); on chain the venue yield now fills them too",
    "V2-m1": "missed at first (no Switchboard venue banks on chain, no cell for the valuation accounts of pass-through collateral); caught by the new venue-only-account borrow cells in worlds whose venue banks use the Switchboard setup",
    "V2-m2": "missed at first; frozen-account cells extended to the pass-through instructions",
    "V4-m1": "caught by the new receivership-on-paused-bank cells of the C14 matrix",
    "C07-m4": "missed at first; request-fidelity monitor added (every flag of an accepted ConfigureBank request must read back as requested)",
    "C08-m3": "missed at first; request-fidelity monitor covers GroupConfigure roles, and the admin workload rotates every role",
    "C08-m4": "missed at first (no staked bank in the matrix worlds); the matrix now substitutes each of the three valuation accounts of a staked collateral one at a time",
    "C15-m4": "missed by the direct sweep (it drives the state functions, not the handlers); caught by the pause-chain engine that runs the real pause / unpause instructions against a shadow of the fee state",
    "C16-m4": "missed at first (the storm's liquidator held every bank, and an honest observation list makes the changed handler refuse); storms now liquidate with fresh accounts / holders of the collateral bank only, and callers name a bank twice among the observation accounts",
    "C17-m4": "missed at first; storms now configure borrow limit 0 as one of the limit classes",
    "C18-m4": "missed by the direct sweep (validation functions only); caught by the chain monitor that re-validates every curve an accepted interest instruction leaves behind",
    "C19-m3": "missed at first; the emissions clock stamp of every touched position is now checked",
    "C19-m4": "missed at first; the workload now makes the token account of the all-zero wallet exist and names it for accounts without a destination",
    "C20-m3": "missed at first in most runs; the stale-venue probes now also run with a price account older than the venue's last refresh",
    "C20-m4": "missed at first; cached venue price is compared with oracle price x exact rate, and venue worlds now contain reserves below rate 1",
    "revert-F12": "missed at seed 1 before the whale scenario (one forced withdrawal just above 2^32 dollars) was added",
    "C01-m6": "missed at first; the C01 / C03 storms now run forced deleverage with whole-debt repayments by the risk admin on banks not flagged for token-less repayment",
    "C02-m6": "missed at first; the wipe-out scenario now seizes the worthless collateral completely and lets the debtor try to close its account",
    "C03-m6": "missed at first (the monitor's token-less exemption did not ask who signed); the exemption now requires the risk admin and a whole-debt repayment, and the account owner's repay-all on a flagged bank is simulated",
    "C06-m6": "missed at first; a seventh of the storm's banks start at a base rate of exactly zero",
    "C08-m5": "missed at first; committed empty bracket followed by a stranger's withdraw",
    "C08-m6": "missed at first; `edit_staked_settings` is a matrix case, and every case with an object of this group is retried with the foreign group and each of its role holders",
    "C10-m6": "missed at first; a third of the receivership scenarios run over reduce-only collateral",
    "C11-m5": "missed at first; directed shapes migrate the account inside the bracket",
    "C11-m6": "missed at first; directed shapes end on a sibling account of the same authority",
    "C12-m5": "missed at first; two deleverage starts with one end in one transaction",
    "C12-m6": "missed at first; completion flag accepted only on banks the admin opted in",
    "C13-m5": "missed at first; health-pulse monitor (the program's own maintenance health against the reference) and e-mode entries below the collateral's own weights",
    "C13-m6": "missed at first; health-pulse monitor and the e-mode scenario whose listing request repeats a tag",
    "C14-m6": "missed at first; health-pulse monitor (equity level for accounts holding reduce-only deposits), pulsed inside the reduce-only cell",
    "C17-m5": "missed at first; C17 got a venue engine and judges pass-through deposits against the cap",
    "C19-m5": "missed at first (the workload named a wallet where the instruction wants a token account, so no destination was ever set); workload and monitor corrected, a foreign group's admin tries to re-point the destination",
    "C19-m6": "missed at first (the rewards mint was always a plain SPL mint); the admin workload now also uses Token-2022 rewards mints with and without a transfer fee",
    "C20-m6": "missed at first; acceptances explainable only by pass-through collateral above the conservative adjusted price are attributed to C20",
    "C02-m7": "inconclusive at first (a floor missed); the C02 / C16 storms got liquidators that owe the collateral asset, so that the seized collateral nets against a debt",
    "C04-m7": "missed at first; staked-collateral rounds with small stake pools, where the pool's non-redeemable lamports matter",
    "C05-m8": "missed at first (the reference health carries an error band and cannot tell 'unchanged' from 'better by less than the band'); committed liquidations are bracketed by two simulated health pulses and the program's own maintenance health must be strictly greater, and a directed scenario sits on the flat boundary (collateral weight = relief share x debt weight)",
    "C06-m7": "missed at first (no receivership in the storms); storm steps now include receivership brackets some time after the banks were last touched",
    "C07-m8": "missed at first (exact equality falls inside the monitor's rounding band); a bankruptcy that leaves the share value at zero while deposit shares exist must leave the bank killed, and the wipe-out scenario reaches exact equality",
    "C08-m7": "missed at first; bank flags outside the two emissions bits may change only under the group admin's signature",
    "C08-m8": "missed at first; `propagate_staked_settings` is a matrix case, with the foreign group presented together with its own settings account",
    "C09-m7": "missed at first; the direct rig judges the venue adapters (Pyth and Switchboard variants) in all six price variants against the shared reference",
    "C12-m7": "missed at first (forced withdrawals were always by amount); a bracket that takes a whole position worth more than the daily limit with withdraw-all",
    "C14-m7": "missed at first; a second pause is propagated to a group that never heard the first one had ended",
    "C15-m7": "missed at first (the C15 chain engine had no users); a small market whose users probe every gated instruction after each step, refusals judged against the group's cached pause",
    "C19-m7": "missed at first; the global fee wallet is moved without propagation and fees are collected towards the old and the new wallet",
    "C19-m8": "missed at first; a receiver tries to claim the account's rewards inside a receivership bracket",
    "C02-m10": "missed at first (no account ever filled its sixteen slots); sixteen-slot saturation scenario: fifteen deposits and a pure debt, then a seventeenth bank by deposit and by borrow",
    "C03-m9": "missed at first (the per-operation monitor judged deposits, withdrawals, borrows and repayments only); a classic liquidation is judged leg by leg inside each of its two banks, and the storms liquidate with an account that holds a small deposit in the debt bank",
    "C04-m9": "missed at first by C04 (reduce-only collateral never met an e-mode entry there); the leveraged account's collateral bank is wound down and a further borrow probed",
    "C05-m10": "missed at first; a liquidator that is solvent only thanks to e-mode takes on a debt in a bank without any e-mode configuration",
    "C08-m9": "missed at first by C08 (C03 sees the unpaid repayment, C08 had no rule for it); a repayment that lowers a debt while nothing reaches the vault must carry the risk admin's signature, and a stranger repays a small account's whole debt on a flagged bank inside a receivership",
    "C08-m10": "missed at first; frozen-account cells now include both transfer variants and every instruction presented with the other group and signed by its admin",
    "C09-m9": "missed at first; collateral leaving an account in receivership must be priced strictly positive, and the oracle-fault scenario seizes without repaying while the price reads zero",
    "C10-m9": "missed at first; a third of the receivership scenarios run over collateral whose bank carries a collateral-value cap far below the deposits",
    "C10-m10": "missed at first (the foreign instructions of the shape alphabet all carried eight bytes or more); short instructions of a tolerated program before, inside and after the bracket",
    "C07-m10": "missed at first; the owner moves the bankrupt account to a new address (both variants): a disabled account stays disabled",
    "C11-m9": "missed at first (a liquidation inside a bracket only in sampled shapes); directed shapes drive the account under water inside its own bracket and try the classic liquidation and the bankruptcy handler before the borrower repairs it",
    "C12-m9": "missed at first (the settings were never moved to another feed); the admin rotates the settings' price feed before the permissionless propagation reaches the frozen bank",
    "C14-m9": "missed at first; the risk admin's token-less settlement of a whole debt inside a deleverage bracket is tried on a paused (refused) and a reduce-only (accepted) flagged bank",
    "C20-m10": "missed at first (the direct engine of C20 drove the conversion functions, which still report the overflow - it is the adapter that dropped it); the C20 direct engine now runs the pass-through price adapters with a quarter of the cases at the overflow cliff",
    "C08-m11": "missed at first by C08 (C19 saw it); C08 worlds run the rewards-inside-receivership scenario and the payout rule of the rewards monitor raises its verdict under C08 too",
    "C08-m12": "missed at first by C08 (C19 saw it); the payout rule of the rewards monitor (registered destination or the authority's signature) also runs in the C08 check",
    "C10-m11": "missed at first (a rewards claim inside the bracket was only ever signed by the receiver, which the claim itself refuses); the owner co-signs a claim of its own rewards inside the receiver's bracket",
    "C10-m12": "missed at first (the receiver never repaid more than half of the debt); repay-all of every liability with a bisected seizure",
    "C11-m12": "missed at first (no shape ever ran on a frozen account); directed brackets on a frozen account signed by the owner and by the admin, and a freeze inside the bracket",
    "C12-m11": "missed at first by C12 (the C08 matrix has the foreign-group cell); the metadata admin of a second group writes this group's bank metadata, judged against the metadata admin of the bank's own group",
    "C14-m11": "missed at first; the reduce-only valuation cell lets the collateral's price go stale and tries classic liquidation, receivership start and bankruptcy of the healthy account",
    "C16-m11": "missed at first by C16 (C07 had the scenario, the C16 storms had only the monitor); an account goes bankrupt in the C16 storms and its owner moves it",
    "C16-m12": "missed at first by C16 (C02 had the scenario); the C16 storms run the wipe-out whose worthless collateral is seized completely, then the debtor tries to close its account",
    "C06-m11": "missed at first (a deposit of nothing was not judged at all); such a deposit is still not required to accrue, but if it moved share values or fee buckets the accrual clock must have moved with them",
    "C06-m12": "missed at first by C06 (C07 sees the uncovered interest); a bankruptcy some time after the bank's last instruction must leave no debt of the bankrupt account behind, and the C06 storms run the insured-bankruptcy scenario with elapsed time",
    "C17-m11": "missed at first (no account with a sub-0.0001 debt ever met a cap); borrow, a minute of interest, repayment of the borrowed amount, then a deposit far over the cap",
    "C03-m12": "missed at first: the C03 check judged deposits, withdrawals, borrows, repayments and liquidation legs; closing a balance is now judged too (nothing but closure dust may leave the books in the user's favour)",
    "C09-m12": "the direct engine placed price ages around the configured maximum only; ages at multiples of 2^16 / 2^31 / 2^32 seconds plus an allowed age were added",
    "C07-m11": "the bankruptcy scenarios gave the account one debt only; half of them now add a second debt in another bank first",
    "C01-m11": "the C01 storms now run the insured-bankruptcy scenario, which first simulates the settlement with a foreign token account in the liquidity-vault slot",
    "C12-m14": "missed at first (forced withdrawals had arbitrary sizes, never one just past the no-worse-health boundary); for a given repayment the largest accepted forced withdrawal is bisected and committed",
    "C16-m14": "missed at first (liquidators were fresh, or held one of the two banks); a liquidator that holds a third bank only, so that two positions are opened next to a held one in every relative key order",
    "C14-m13": "missed at first (nothing was ever propagated in the second in which a pause was then declared); the unpaused state is propagated in the very second before the pause, the propagation-fidelity monitor and the behavioural oracle do the rest",
    "C15-m9": "missed at first; the pause-chain engine hands the admin role back and forth between two keys",
    "V4-m2": "caught once every gated instruction (not only deposit) is probed right after the pause expiry",
}
def title(d):
    p = os.path.join(d, "README.md")
    if os.path.exists(p):
        t = open(p).readline().strip().lstrip("# ").strip()
        t = re.sub(r"^([CRSV]\d+\s*/\s*)?[mM]\d\s*[-—]\s*", "", t)
        return t.replace("|", "/")
    m = json.load(open(os.path.join(d, "meta.json")))
    return (m.get("what") or m.get("needs") or "").replace("|", "/")
def row(d):
    sid = os.path.basename(d)
    m = json.load(open(os.path.join(d, "meta.json")))
    cr = m.get("checks_run", {})
    caught = [f"{p} ({r['signatures'][0].split('/', 1)[1] if r['signatures'] else ''})" for p, r in sorted(cr.items()) if r["exit"] == 1]
    silent = [p for p, r in sorted(cr.items()) if r["exit"] == 0]
    inc = [p for p, r in sorted(cr.items()) if r["exit"] == 3]
    out = "; ".join(caught) if caught else "-"
    if silent:
        out += f" / silent: {', '.join(silent)}"
    if inc:
        out += f" / inconclusive: {', '.join(inc)}"
    note = STRENGTHENED.get(sid, "")
    if m.get("assessment"):
        note = (note + " " if note else "") + m["assessment"]
    c = m.get("confirmed")
    conf = "yes" if c and c.get("demo_passes_on_unchanged_tree") and c.get("demo_fails_with_change") and c["suite_with_change"]["marginfi_lib_164_pass"] else ("n/a" if not c else "NO")
    return sid, title(d), conf, out, note
print("### 13.1 Changes written by independent sub-agents, eight rounds: -m1/-m2 first, -m3/-m4 third, -m5/-m6 fourth, -m7/-m8 fifth, -m9/-m10 sixth, -m11/-m12 seventh, -m13/-m14 eighth (eight properties) (confirmed = demo passes on the unchanged tree, fails with the change, suite unchanged)\n")
print("| id | change | confirmed | caught by (first signature) | note |\n|---|---|---|---|---|")
for d in sorted(glob.glob(f"{R}/C??-m*"), key=lambda x: (os.path.basename(x)[:3], int(os.path.basename(x).split("-m")[1]))):
    print("| " + " | ".join(row(d)) + " |")
print("\n### 13.1b Second round: independent sub-agents told to place the change in the pass-through (Kamino / Solend / Drift) code (V1 = C20, V2 = C08, V3 = C04, V4 = C14)\n")
print("| id | change | confirmed | caught by (first signature) | note |\n|---|---|---|---|---|")
for d in sorted(glob.glob(f"{R}/V?-m?")):
    print("| " + " | ".join(row(d)) + " |")
print("\n### 13.2 Reverted fixes and hand-written catalogue changes\n")
print("| id | change / what it needs | caught by (first signature) | note |\n|---|---|---|---|")
for d in sorted(glob.glob(f"{R}/revert-*")) + sorted(glob.glob(f"{R}/cat-*")):
    sid, t, conf, out, note = row(d)
    print(f"| {sid} | {t} | {out} | {note} |")
