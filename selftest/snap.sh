#!/bin/bash
# snap.sh [vdir] [rdir] - frozen copy of the committed /verif (HEAD) whose harness builds against a
# scratch worktree of /repo, so that seeded changes can be applied and checked without touching
# /repo or the work in progress in /verif. Use: CHECK_ROOT=<vdir> REPO_ROOT=<rdir> run_seeded.py <id>
D=${1:-/tmp/vsnap}; R=${2:-/tmp/rsnap}
mkdir -p $D
git -C /verif archive HEAD | tar -x -C $D
git -C /repo worktree remove --force $R 2>/dev/null
git -C /repo worktree add -q --detach $R HEAD || exit 9
sed -i "s#\"/repo/#\"$R/#g" $D/harness/*/Cargo.toml
cd $D/harness && CARGO_NET_OFFLINE=true cargo +1.79.0 build --release --offline 2>&1 | tail -1
