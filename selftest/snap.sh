#!/bin/bash
# snap.sh [dir]  - frozen copy of the committed /verif (HEAD) with its own build, for selftest runs
D=${1:-/tmp/vsnap}
mkdir -p $D
git -C /verif archive HEAD | tar -x -C $D
cd $D/harness && CARGO_NET_OFFLINE=true cargo +1.79.0 build --release --offline 2>&1 | tail -1
