#!/usr/bin/env python3
"""import_seeded.py <PROP> <k> <demo-filter> "<needs>"  - copy a sub-agent's candidate into seeded/ (unverified)"""
import json, os, shutil, sys
prop, k, filt, needs = sys.argv[1:5]
src = f"/tmp/mut/{prop}/out/m{k}"
dst = f"/verif/seeded/{prop}-m{k}"
os.makedirs(dst, exist_ok=True)
for f in ("patch.diff", "demo.diff", "README.md"):
    shutil.copy(os.path.join(src, f), os.path.join(dst, f))
json.dump({"id": f"{prop}-m{k}", "breaks": [prop], "origin": "independent sub-agent given only the text of the property and its own scratch worktree", "needs": needs, "demo": "demo.diff adds a #[cfg(test)] unit test (filter: %s) that passes on the unchanged tree and fails with patch.diff" % filt, "demo_filter": filt, "confirmed": None, "checks_run": {}}, open(os.path.join(dst, "meta.json"), "w"), indent=1)
print("imported", dst)
