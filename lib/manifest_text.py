NOT_APPLICABLE = {}
_storm_note = "Trusted: Agave 2.1.20 runtime + bundled SPL programs, native codegen standing in for SBF, the oracle-side exact arithmetic. Reach = the executions produced (seeded worlds x random/boundary histories); nothing is claimed about executions not produced."
TEXT = {
    "C01": {"technique": "runtime monitoring: per-instruction conservation monitor on tapped account bytes under randomized chain workloads", "design_ref": "DESIGN.md 4 C01", "note": _storm_note,
            "level": "Every marginfi instruction executed by the storm workload (all token-program classes, transfer-fee mints, origination fees, liquidations, fee collection, flash-loan brackets, clock jumps up to years) is checked for vault >= deposits-loans+fees with a derived rounding allowance, per instruction and cumulatively. Exploration: holds on the executions observed."},
    "C02": {"technique": "runtime monitoring: bit-exact ledger reconciliation per instruction and closed-world sum at every commit", "design_ref": "DESIGN.md 4 C02", "note": _storm_note,
            "level": "Bank share totals are reconciled bit-exactly against the positions of every account after each instruction and at each commit of the storm workload; only sub-dust sides of closed positions may be abandoned."},
    "C03": {"technique": "runtime monitoring: token-delta vs exact position-value-delta oracle per balance operation", "design_ref": "DESIGN.md 4 C03", "note": _storm_note,
            "level": "Each deposit/withdraw/borrow/repay executed is checked so that credited value <= tokens received and tokens paid <= value debited (few ulps), full withdraw rounds down, full repay rounds up."},
    "C06": {"technique": "runtime monitoring: exact reference accrual compared with post-instruction share values and fee buckets", "design_ref": "DESIGN.md 4 C06", "note": _storm_note,
            "level": "For every bank an instruction transacts in, post share values must equal an independent exact-rational accrual from the pre-state to now; pure accruals are checked for conservation, non-negative fees, program-fee gating and same-time idempotence."},
    "C16": {"technique": "runtime monitoring: structural invariant on every MarginfiAccount after each instruction and commit", "design_ref": "DESIGN.md 4 C16", "note": _storm_note,
            "level": "Structural predicate (one position per bank, one side, descending order, tag compatibility and stability, caps, close/disable/transfer rules) evaluated on every account image produced by the workload."},
    "C17": {"technique": "runtime monitoring: limit and utilisation predicates on post-state plus accept/reject monitor for up-to-limit deposits", "design_ref": "DESIGN.md 4 C17", "note": _storm_note,
            "level": "Each successful deposit/borrow/withdraw is judged against the bank limits and deposits>=debt from post-state bytes; rejected up-to-limit deposits are inspected for the capacity error."},
}
