"""Per-property check specifications used by ./check (engines, observation floors, evidence text)."""

COMMON_ASSUMPTIONS = [
    "Agave 2.1.20 runtime (solana-program-test) and its bundled SPL Token / Token-2022 / ATA programs are trusted",
    "marginfi is compiled natively from /repo's working tree with the on-chain arithmetic profile (overflow-checks on, debug-assertions off); native code generation stands in for SBF; CU/heap/tx-size limits are not modelled",
    "oracle side uses exact rationals (num-rational) over raw account bytes decoded with the repository's #[repr(C)] layouts; no program math is called by an oracle",
    "the pass-through deposit / withdraw instructions (kamino_*, solend_*, drift_*) run their accept path against harness-side stateful stand-ins registered at the venue program ids (they keep the venue's books with the venue's own rounding and move real tokens; they are not the venue programs); *_init_obligation / drift_init_user / *_harvest_reward are not driven; see DESIGN sections 10 and 12.4",
]


def storm(name="storm", arg=None, sq=16, st=16, bq=40, bt=600):
    e = {"name": name, "pkg": "rig1", "shards_quick": sq, "shards_thorough": st, "budget_quick": bq, "budget_thorough": bt}
    if arg:
        e["arg"] = arg
    return e


def direct(arg, sq=16, st=16, bq=30, bt=420):
    return {"name": "direct", "pkg": "rig2", "arg": arg, "shards_quick": sq, "shards_thorough": st, "budget_quick": bq, "budget_thorough": bt}


PROPS = {
    "C01": {
        "engines": [storm()],
        "rule": "each evaluation is one successfully executed marginfi instruction touching a program-held bank, judged by per-instruction conservation (vault delta >= delta of deposits-loans+fees minus derived allowance) and the cumulative bound; distinct = (instruction kind, mint decimals, token-program class, share-value-changed, inside-bracket, direction) tuples observed",
        "assumptions": COMMON_ASSUMPTIONS,
        "floors": {"quick": {"scen.deleverage_repay_all_committed": 5, "ix_ok/Deposit": 500, "ix_ok/Withdraw": 200, "ix_ok/Borrow": 100, "ix_ok/Repay": 100, "ix_ok/AccrueInterest": 100, "ix_ok/CollectFees": 50}},
    },
    "C02": {
        "engines": [storm()],
        "rule": "each evaluation is one (instruction, bank) pair compared bit-exactly (I80F48 bits): change of bank totals vs sum of changes of all positions in the instruction, plus the closed-world global sum at every commit; about a third of the worlds also carry Kamino / Solend / Drift pass-through banks so that venue deposits / withdrawals and their closures are reconciled too; distinct = (instruction kind, closures, sign of total change, dust abandoned) tuples",
        "assumptions": COMMON_ASSUMPTIONS + ["whole-account close may abandon < 1 share per side (the program's empty threshold); position closure < 0.0001 unit (DESIGN 9 F6)"],
        "floors": {"quick": {"scen.close_bank_committed": 20, "scen.slot_saturation_rounds": 10, "scen.close_bank_probe_rejected": 200, "C16.liquidations_by_debtor_of_collateral_bank": 4, "scen.wipeout_collateral_fully_seized": 2, "ix_ok/Deposit": 500, "C02.closures/Withdraw": 20, "C02.closures/Repay": 10}},
    },
    "C03": {
        "engines": [storm()],
        "rule": "each evaluation is one deposit/withdraw/borrow/repay (committed or simulated) whose vault token delta is compared with the exact value delta of the position at the post-accrual share values; distinct = (kind, full/partial, share-value class, decimals, transfer-fee) tuples",
        "assumptions": COMMON_ASSUMPTIONS,
        "floors": {"quick": {"scen.sunset_owner_repay_all_simulated": 20, "C03.liquidation_legs_judged": 200, "scen.liquidations_by_holder_of_a_small_deposit_in_the_debt_bank": 5, "ix_ok/Deposit": 500, "C03.full_withdraw_rounding_checked": 20, "C03.full_repay_rounding_checked": 10}},
    },
    "C06": {
        "engines": [storm()],
        "rule": "each evaluation is one bank touched by an instruction that must accrue first; post share values are compared with an exact reference accrual from the pre-state (curve, fees, utilisation, dt); informative = dt>0 and non-zero utilisation; distinct = (kind, dt class, utilisation decile)",
        "assumptions": COMMON_ASSUMPTIONS + ["a deposit that deposits nothing (amount 0 / no remaining capacity) transacts nothing and is not required to accrue"],
        "floors": {"quick": {"C06.bankruptcies_after_elapsed_time_judged": 10, "C06.noop_deposits_that_accrued": 100, "storm.receivership_brackets_committed": 4, "C06.informative_accruals_at_zero_base_rate": 50, "C06.informative_accruals/AccrueInterest": 30, "C06.informative_accruals/Deposit": 30, "C06.informative_accruals/Withdraw": 10, "C06.informative_accruals/Borrow": 10, "C06.informative_accruals/Repay": 10}},
    },
    "C16": {
        "engines": [storm(sq=12, st=12), storm("venue", arg="C16:venue", sq=4, st=4)],
        "rule": "each evaluation is the structural predicate on one MarginfiAccount after one instruction or at one commit; distinct = (where, number of active positions, tag set, flags); the venue engine drives worlds with up to 10 pass-through banks of three kinds (Kamino, Solend, Drift) and saturates the integration cap (one account enters every venue bank in turn); the storm engine adds liquidations by fresh accounts (positions opened inside a liquidation next to held ones) and by callers that name a bank twice among the liquidator's observation accounts",
        "assumptions": COMMON_ASSUMPTIONS + ["integration positions of all three kinds (Kamino, Solend, Drift) are opened through the venue stand-ins and through liquidation"],
        "floors": {"quick": {"C16.liquidations_by_holder_of_a_third_bank_only": 5, "scen.bankrupt_account_moved": 6, "scen.wipeout_collateral_fully_seized": 2, "C16.liquidations_by_debtor_of_collateral_bank": 4, "ix_ok/Deposit": 500, "ix_ok/Borrow": 100, "ix_ok/KaminoDeposit": 200, "ix_ok/SolendDeposit": 100, "ix_ok/DriftDeposit": 100, "venue.cap_probes_saturated_at_8": 3, "C16.liquidation_opened_position_next_to_held_ones": 100, "C16.liquidations_by_holder_of_collateral_bank_only": 8}},
    },
    "C17": {
        "engines": [storm(sq=12, st=12), storm("venue", arg="C17:venue", sq=4, st=4)],
        "rule": "each evaluation is one successful deposit (ordinary or through a Kamino / Solend / Drift pass-through instruction; a Drift limit is scaled to the nine-decimal booking unit) / borrow / withdraw judged against limits and deposits>=debt from post-state bytes, or one rejected up-to-limit deposit; the venue engine runs worlds whose pass-through banks carry caps small enough to be reached; distinct = (kind, limit class, grew, up-to-limit, share value != 1, utilisation bucket)",
        "assumptions": COMMON_ASSUMPTIONS + ["a successful deposit that deposited nothing is not judged against the deposit limit"],
        "floors": {"quick": {"scen.accounts_left_with_a_dust_debt": 30, "C17.venue_deposits_under_an_active_cap": 200, "ix_rejected/KaminoDeposit/6003": 5, "ix_ok/Deposit": 500, "ix_ok/Borrow": 100, "C17.up_to_limit_deposits_accepted": 50}},
    },
    "C04": {
        "engines": [storm("scen", sq=12, st=12), storm("venue", arg="C04:venue", sq=4, st=4)],
        "rule": "each evaluation is one accepted borrow/withdraw (committed or simulated) or one health rejection, judged against an independent exact-rational initial-health recomputation from raw bytes and the presented oracle accounts; boundaries are located by bisection with state-preserving simulations so both neighbours of the accept/reject boundary are judged; the venue engine does the same in worlds whose collateral sits in Kamino / Solend / Drift pass-through banks (reference price = oracle price x exact venue exchange rate); distinct = (accept/reject, kind, #assets, #liabs, e-mode used, cap active, bad collateral oracle, borderline)",
        "assumptions": COMMON_ASSUMPTIONS + ["a health rejection is only judged when the caller presented the canonical risk accounts (otherwise it is attributable to mis-presented accounts)"],
        "floors": {"quick": {"scen.staked_collateral_rounds": 20, "scen.reduce_only_probes": 20, "pulse.health_signs_compared/initial": 100, "C04.accepted/Borrow": 200, "C04.accepted/Withdraw": 200, "C04.rejected_for_health/Borrow": 200, "scen.withdraw_boundary_found": 20, "C04.accepted/KaminoWithdraw": 100, "C04.accepted/SolendWithdraw": 100, "C04.accepted/DriftWithdraw": 100, "venue.withdraw_boundary_found": 20}},
    },
    "C05": {
        "engines": [storm("scen", sq=12, st=12), storm("venue", arg="C05:venue", sq=4, st=4)],
        "rule": "each evaluation is one accepted classic liquidation (committed or simulated at the bisected acceptance boundary) judged on pre/post reference maintenance health, flips, liquidator health and the 95/97.5/2.5 percent rule in exact rationals; the collateral price is first bisected to the exact integer price at which the account turns liquidatable; the venue engine liquidates collateral held in pass-through banks; distinct = (debt decimals, collateral decimals, #assets, #liabs, e-mode)",
        "assumptions": COMMON_ASSUMPTIONS,
        "floors": {"quick": {"scen.flat_liquidation_rounds": 20, "scen.emode_liquidator_rounds": 20, "C05.program_health_before_after_pairs": 100, "C05.liquidations_accepted": 100, "scen.liquidation_boundary_found": 5, "scen.liquidatable_price_boundary_found": 20}},
    },
    "C07": {
        "engines": [storm("scen")],
        "rule": "each evaluation is one accepted bankruptcy judged on equity (unweighted, isolated-tier deposits at full value), signer, insurance-first, pro-rata socialisation, kill state, account disabling; distinct = (regime, killed, permissionless, decimals, transfer fee)",
        "assumptions": COMMON_ASSUMPTIONS,
        "floors": {"quick": {"scen.bankruptcy_of_account_with_second_debt": 40, "C07.banks_left_with_worthless_deposits": 5, "scen.bankrupt_account_moved": 30, "scen.wipeout_debt_equal_to_deposits": 5, "pulse.health_signs_compared/equity": 30, "C07.bankruptcies_accepted": 40, "C07.regime/partial": 3, "C07.regime/fully_insured": 3, "scen.bankruptcy_price_boundary_found": 15}},
    },
    "C10": {
        "engines": [storm("scen")],
        "rule": "each evaluation is one receivership start/end instruction or one committed receivership transaction: reference maintenance health at start/end, seized vs repaid (equity values) against the premium limit located by bisection, transaction shape, surviving markers; distinct = (small account, #assets, #liabs, seized>0, repaid>0) and committed shapes",
        "assumptions": COMMON_ASSUMPTIONS + ["'none via CPI' is applied to start and end (what the program checks); see DESIGN 4 C10"],
        "floors": {"quick": {"scen.takeover_attempts_after_a_same_second_cure": 10, "scen.receivership_whole_debt_rounds": 40, "admin.emissions_in_receivership_rounds": 10, "scen.receivership_over_reduce_only_collateral": 30, "scen.receivership_over_capped_collateral": 30, "C10.directed_short_instruction_shapes": 200, "C10.brackets_started": 50, "C10.brackets_committed": 5, "scen.receivership_boundary_found": 5, "scen.receivership_price_boundary_found": 8}},
    },
    "C11": {
        "engines": [storm()],
        "rule": "each evaluation is one flash-loan start/end instruction, one committed transaction shape containing a start, or one end-time health rejection; distinct = shapes and end-state feature tuples",
        "assumptions": COMMON_ASSUMPTIONS,
        "floors": {"quick": {"C11.directed_frozen_account_shapes": 100, "C11.directed_shapes": 200, "C11.directed_liquidation_inside_bracket_rejected": 100, "C11.start_accepted": 50, "C11.end_accepted": 50, "C11.brackets_committed": 50}},
    },
    "C09": {
        "engines": [direct("C09"), storm("chain", arg="C09", sq=8, st=8)],
        "rule": "direct rig: each evaluation is one fabricated oracle account (kind x authenticity fault x publish time around the staleness second x confidence around the configured maximum x price/exponent over their integer ranges) passed to the real price adapter and compared with the exact reference; chain rig: doctored oracle accounts driven through borrow/withdraw/liquidate/bankruptcy/receivership; distinct = (kind, validity class, sign, bias percent, max age, offset from the staleness boundary)",
        "assumptions": COMMON_ASSUMPTIONS + ["venue exchange-rate variants (Kamino/Drift/Solend) are swept with a Pyth feed: adjusted price vs price x exact rate, stale / wrong / foreign-owned venue account; their Switchboard twins share the same venue code path and are not swept separately"],
        "floors": {"quick": {"C09.ages_at_integer_width_cliffs": 20000, "C09.venue_full_comparisons/drift-switchboard": 2000, "C09.venue_full_comparisons/kamino-pyth": 2000, "C09.venue_full_comparisons/solend-switchboard": 2000, "C09.usable/pyth": 1000, "C09.usable/switchboard": 1000, "C09.usable/staked": 300, "C09.must_reject/pyth/Stale": 300, "C09.must_reject/switchboard/Stale": 300, "C09.bias_pairs_checked": 5000, "C09.venue_prices_compared": 3000, "C09.venue/kamino/must_reject": 500, "C09.venue/drift/must_reject": 500, "C09.venue/solend/must_reject": 500}},
    },
    "C15": {
        "engines": [direct("C15", sq=4, st=8), storm("pause-chain", sq=4, st=4)],
        "rule": "direct engine, shard 0: breadth-first exploration of the region graph of the real PanicState transition functions (12 time deltas at the 30 min / 24 h boundaries x 3 operations) normalised by time translation; other shards: random walks with arbitrary deltas; every transition is judged online; distinct = normalised states. pause-chain engine (chain rig): the three real pause instructions executed as transactions in long random sequences (fee admin and strangers ordering pauses, admin and permissionless unpauses, propagations, clock steps at the 30 min / 24 h boundaries +-1 s); every accepted instruction is judged on the global pause state before/after (30/60 minute bounds, three per daily window, flags), every rejected unpause against 'never fails while a flag is set / once expired'",
        "assumptions": ["the direct rig mirrors the three pause handlers as calls on PanicState; the handlers themselves are executed by the pause-chain engine and their effect on user instructions by the C14 check"],
        "floors": {"quick": {"C15.chain_user_instruction_refused_as_paused/Withdraw": 300, "C15.chain_admin_handovers": 300, "C15.chain_user_probes_accepted": 5000, "C15.bfs_states": 1000, "C15.pause_accepted": 100000, "C15.permissionless_unpause": 10000, "C15.chain_accepted/PanicPause": 1500, "C15.chain_accepted/PanicUnpause": 400, "C15.chain_accepted/PanicUnpausePermissionless": 300}},
        "exhaustive_note": "exhaustive over the stated alphabet up to the depth bound reported in notes",
    },
    "C18": {
        "engines": [direct("C18", sq=12, st=12), storm("admin", sq=4, st=4)],
        "rule": "direct engine: each evaluation is one (configuration accepted by the program's validate(), utilisation) pair evaluated with the real rate calculator; utilisations = every breakpoint +-{0,1,2} ulps, 0, 1, >1 and a random grid; distinct = (shape class, number of points, flat curve, point at 100%). admin engine (chain rig): every interest configuration an accepted instruction leaves on a bank (configure, interest-only configure with hostile / partial arguments by entitled and other signers) is judged structurally: zero-utilisation rate <= rates of the used points (strictly increasing utilisation, no point after padding) <= full-utilisation rate",
        "assumptions": ["legacy three-point curves are judged on [0,1] only (out-of-range utilisations are counted, not judged)"],
        "floors": {"quick": {"C18.configs_accepted/valid-random": 200, "C18.configs_accepted/adjacent-utils": 200, "C18.configs_accepted/extreme-rates": 200, "C18.configs_accepted/legacy": 50, "C18.configured_points_checked": 2000, "C18.accepted_interest_configs/ConfigureBankInterestOnly": 300, "C18.legacy_migrations_compared": 30}},
    },
    "C20": {
        "engines": [direct("C20", sq=10, st=10), storm("venue", sq=4, st=4), dict(storm("venue-wrapcheck", sq=2, st=2), profile="dbgassert")],
        "rule": "direct engine: each evaluation is one call of a venue conversion / adjustment / staleness function on inputs clustered at overflow cliffs, judged against exact rationals; distinct = (venue, decimals, magnitude classes of supplies and amount). venue engine (chain rig): each evaluation is one accepted kamino / solend / drift deposit or withdraw executed against the stateful venue stand-ins, judged in exact rationals on what marginfi booked versus what the venue credited or paid (position credit <= venue collateral credited, credit worth <= tokens paid, tokens received <= worth of the position decrease, bank books <= obligation collateral, pass-through vault unchanged), plus deposit-then-withdraw-all round trips and borrow / withdraw probes against a reserve that was not refreshed in the current slot; the venue-wrapcheck engine runs the same workload on a build with debug assertions on, where the fixed-point operators and from_num check overflow instead of wrapping (an overflow panic inside price / venue conversion code marks a silently wrapped value in the deployed profile); distinct adds (instruction, rate class, decimals, empty reserve, withdraw-all, injected venue rounding fault)",
        "assumptions": ["'never rounds in the user's favour' is judged as the statement defines it (round trips, Drift decrement >= increment); comparison against the exact quotient allows the derived truncation error of the scaled supplies", "the venue engines run the pass-through instructions against harness-side stand-ins of Kamino, Solend and Drift (the venue's own rounding - floor in the venue's favour, Drift's round-up of non-zero decrements - optional injected off-by-one/two rounding faults), not the venue programs"],
        "floors": {"quick": {"venue.cliff_cases_refused": 2000, "venue.cliff_cases_priced": 2000, "C20.round_trips": 30000, "C20.monotonicity_pairs": 12000, "C20.adjust_i64/some": 6000, "C20.drift_inc_dec/ok": 6000, "C20.venue_ops/KaminoDeposit": 500, "C20.venue_ops/KaminoWithdraw": 150, "C20.venue_ops/SolendDeposit": 300, "C20.venue_ops/SolendWithdraw": 100, "C20.venue_ops/DriftDeposit": 300, "C20.venue_ops/DriftWithdraw": 100, "C20.chain_round_trips": 10, "venue.stale_reserve_borrow_rejected": 10, "venue.stale_reserve_older_price_borrow_rejected": 10, "C20.cached_venue_prices_compared_at_rate_below_one": 50, "wrapcheck.committed_transactions_observed_under_debug_assertions": 2000}},
    },
    "C08": {
        "engines": [storm("matrix")],
        "rule": "even shards: matrix over twin groups - every listed instruction x every signer identity (authority, stranger, 7 group roles, fee admin, other group's admin, no signature) x every single substitution of a bound account (foreign group twin, sibling bank's vault/authority, clone owned by another program, wrong sysvar / token program, for pass-through banks the venue reserve / obligation / program and the reserve or price account that values the collateral in the risk accounts), plus coherent substitutions (a foreign group's bank presented with all of its own vaults and oracle accounts); a cell counts only when its positive control succeeded; odd shards: attribution monitor over the administrative storm (every change of an account's balances / every role-signed instruction must be attributable to an entitled signer); distinct = (cell kind, instruction, identity or substitution, outcome)",
        "assumptions": COMMON_ASSUMPTIONS + ["the table of entitled signers and bound slots is written from the statement and the instruction doc comments (DESIGN App. A)"],
        "floors": {"quick": {"unsigned.probes_rejected": 4000, "impostor.probes_rejected": 5000, "C08.frozen_cells_foreign_group_and_its_admin": 200, "scen.tokenless_stranger_rounds": 5, "C08.admin_instructions_accepted/AddBank": 100, "C08.admin_instructions_accepted/AddBankWithSeed": 50, "C08.admin_instructions_accepted/CloseBank": 30, "C08.admin_instructions_accepted/StartDeleverage": 30, "admin.bank_creations_rejected": 50, "C08.matrix_foreign_group_with_its_settings_cells": 50, "C08.empty_bracket_committed": 50, "C08.matrix_foreign_group_with_its_role_holder_cells": 1000, "C08.matrix_controls_ok": 300, "C08.matrix_signer_cells": 3000, "C08.matrix_substitution_cells": 1000, "admin.role_rotations": 20, "fidelity.group_configure_requests_compared": 100}},
        "exhaustive_note": "exhaustive over the listed cases x identities x substitutions per world",
    },
    "C12": {
        "engines": [storm("admin")],
        "rule": "each evaluation is one bank image changed by a delegated-admin instruction (field-level diff against the role's mask built with offset_of!), one instruction executed on a frozen bank (protected fields and freeze bit), or one deleverage withdrawal (reference daily window); distinct = (instruction, set of changed fields) pairs",
        "assumptions": COMMON_ASSUMPTIONS,
        "floors": {"quick": {"scen.deleverage_withdraw_boundary_found": 4, "admin.bank_metadata_write_by_foreign_group_metadata_admin": 60, "scen.deleverage_withdraw_all_above_limit_attempts": 10, "scen.staked_propagate_after_feed_rotation_accepted": 20, "scen.first_withdrawal_of_a_new_day_attempts": 5, "scen.two_deleverage_starts_one_end_attempts": 30, "ix_ok/ForceTokenlessRepayComplete": 200, "C12.delegated_instructions/ConfigureBankInterestOnly": 100, "C12.delegated_instructions/ConfigureBankLimitsOnly": 100, "C12.delegated_instructions/ConfigureBankEmode": 100, "C12.delegated_instructions/UpdateEmissionsParameters": 100, "C12.instructions_on_frozen_bank/ConfigureBank": 50, "C12.instructions_on_frozen_bank/PropagateStakedSettings": 10, "C12.deleverage_withdrawals": 5, "scen.whale_deleverage_rejected/6101": 20}},
    },
    "C13": {
        "engines": [storm("admin")],
        "rule": "each evaluation is one accepted configuration-writing instruction whose post-state is judged against the listed inequalities, e-mode leverage caps (caps read at acceptance time) and the killed-state rule; distinct = quantised (weights, tier, state) and (e-mode entries, liability weights) tuples",
        "assumptions": COMMON_ASSUMPTIONS + ["the initial-implies-maintenance consequence is implied by the checked inequalities (monotone valuation); it is additionally exercised by C04/C05 at equal prices"],
        "floors": {"quick": {"C13.accepted_config_writes/AddBank": 100, "C13.accepted_config_writes/AddBankWithSeed": 30, "admin.venue_bank_creations_accepted": 20, "admin.bank_creations_rejected": 100, "scen.emode_overlap_borrowed_to_the_limit": 8, "pulse.health_signs_compared/maintenance": 100, "C13.accepted_config_writes/ConfigureBank": 500, "C13.accepted_config_writes/ConfigureBankEmode": 200, "C13.accepted_config_writes/CloneEmode": 100, "C13.accepted_config_writes/PropagateStakedSettings": 10}},
    },
    "C14": {
        "engines": [storm("matrix")],
        "rule": "even shards: matrix financial instruction x bank state {Paused, ReduceOnly, Killed via a real wipe-out} with positive controls, reduce-only valuation cells, and protocol-pause timing cells at start+{0,1,1799,1800,1801} with three propagation orders, committed so that the behavioural oracle (no vault / position movement during the group's pause window) sees them; odd shards: storm; distinct = (cell, state, outcome, error code)",
        "assumptions": COMMON_ASSUMPTIONS + ["'in force for a group' is defined by the pause state recorded in the group's own cache (DESIGN 4 C14)"],
        "floors": {"quick": {"C14.reduce_only_stale_price_cells": 30, "C14.second_pause_without_intermediate_propagation": 20, "C14.tokenless_settlement_state_cells": 40, "pulse.levels_compared_for_accounts_with_reduce_only_deposits": 50, "pulse.health_signs_compared/maintenance": 100, "C14.matrix_controls_ok": 100, "C14.matrix_state_cells": 200, "C14.pause_window_cells": 300, "C14.after_expiry_cells": 200, "C14.receivership_on_paused_bank_cells": 30, "scen.bank_killed": 2}},
    },
    "C19": {
        "engines": [storm("admin")],
        "rule": "each evaluation is one fee collection (token deltas of the five accounts vs bucket reductions), one draw-down of a fee / insurance vault (signer rule), one emissions credit / payout (conservation, proportional bound, destination) or one commit-time emissions-vault cover check; distinct = (clamp class, bucket signs, fractional, transfer-fee) and emission event classes",
        "assumptions": COMMON_ASSUMPTIONS,
        "floors": {"quick": {"admin.fee_wallet_rotations": 100, "admin.collect_after_wallet_rotation/old-wallet/refused": 100, "admin.emissions_in_receivership_rounds": 8, "admin.fees_destination_update_by_foreign_group_admin": 10, "C19.collections": 300, "C19.emission_payouts": 50, "C19.emission_lower_bounds_checked": 300, "C19.emission_lower_bounds_checked_borrow_side": 30, "C19.insurance_vault_drawdowns/WithdrawInsurance": 20}},
    },
}
