#!/usr/bin/env python3
"""Regenerates /verif/MANIFEST.json from lib/props.py and lib/manifest_text.py."""
import json, os, sys
ROOT = os.path.dirname(os.path.dirname(os.path.abspath(__file__)))
sys.path.insert(0, os.path.join(ROOT, "lib"))
from props import PROPS
from manifest_text import TEXT, NOT_APPLICABLE

ids = [json.loads(l)["id"] for l in open(os.path.join(ROOT, "properties.jsonl"))]
checks = []
for pid in ids:
    if pid not in PROPS:
        continue
    t = TEXT[pid]
    checks.append({
        "property_id": pid,
        "quick_cmd": f"./check {pid} --tier quick",
        "thorough_cmd": f"./check {pid} --tier thorough",
        "evidence_file": f"/verif/evidence/{pid}.json",
        "replay_cmd_template": f"./check {pid} --replay {{path}}",
        "engine": t.get("engine", "chain-rig"),
        "level_claimed": {"category": "exploration", "text": t["level"], "design_ref": t["design_ref"]},
        "level_note": t["note"],
        "technique": t["technique"],
    })
na = [{"property_id": p, "reason": NOT_APPLICABLE.get(p, "check not yet implemented in this revision of /verif (planned in DESIGN.md section 4); nothing is claimed for it")} for p in ids if p not in PROPS]
m = {
    "version": 1,
    "setup_cmd": "cd /verif/harness && CARGO_NET_OFFLINE=true cargo +1.79.0 build --release --offline",
    "hooks": {
        "guard": "mrgnlabs_marginfi_v2_verif",
        "enable": "no hooks are needed: the boundary tap lives in the harness's native processor wrapper (harness/rig1/src/tap.rs), so /repo is built unmodified; the guard name is reserved and unused",
        "baseline_off_cmd": "cd /repo && cargo test --workspace --no-fail-fast --offline",
        "source_commits": [],
        "add_only": True,
    },
    "engines": [
        {"name": "chain-rig", "path": "/verif/harness/rig1", "serves_properties": [p for p in ids if p in PROPS and TEXT[p].get("engine", "chain-rig") in ("chain-rig", "both")], "kind_free_text": "runtime monitoring: real marginfi::entry executed natively inside solana-program-test (Agave bank, real SPL token programs) under hostile randomized/boundary workloads; per-instruction boundary tap + exact-rational oracles"},
        {"name": "direct-rig", "path": "/verif/harness/rig2", "serves_properties": [p for p in ids if p in PROPS and TEXT[p].get("engine") in ("direct-rig", "both")], "kind_free_text": "runtime monitoring of the public Rust API named by the property (price adapter, rate calculator, pause state, venue math) under dense boundary sweeps with exact-rational oracles"},
    ],
    "checks": checks,
    "not_applicable": na,
    "notes": "All checks are runtime monitors over executions of the real code; verdicts are three-valued (0 held on what was observed, 1 VIOLATION, 3 INCONCLUSIVE). See DESIGN.md.",
}
json.dump(m, open(os.path.join(ROOT, "MANIFEST.json"), "w"), indent=1)
print("checks:", [c["property_id"] for c in checks], "not_applicable:", [x["property_id"] for x in na])
